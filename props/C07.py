"""C07 - committors and mean first-passage times satisfy their first-step equations."""
from pyvc.runner import Run, resolve_failures


def run(tier, seed, update_lock=False):
    R = Run('C07', 'other', tier, seed)
    R.lemma('Committor.lean', 'point-wise system construction (_I_m_Q, R) + exact solve + injective sink list => q=0 on sources, 1 on sinks, q_i = sum_j T_ij q_j elsewhere')
    R.lemma('Mfpt.lean', 'sink-set MFPT system => t=0 on sinks, t_i = lag + sum_j T_ij t_j elsewhere')
    R.bounded('tpt.py', 'run-time contracts (the statement) on the real committors / mfpts', 'irreducible stochastic matrices 3..5 states (reversible, non-reversible, high barrier), all disjoint source/sink sets of sizes 1-2, ndarray/csr/lil, lags 1 and 3.5, np.matrix input', args=['--only=C07'])
    R.report_known('tpt.py')
    resolve_failures(R, 'tpt.py', lambda f: None)
    R.clauses = [{'clause': 'first-step equations follow from the point-wise linear system the code builds', 'status': 'lemma (Lean 4 + Mathlib) over the contract clauses of _I_m_Q / committors / mfpts'},
                 {'clause': 'the code builds exactly that system (absorbing rows/columns, right-hand side, pinning of sinks, lag scaling)', 'status': 'bounded in this run (SMT obligations planned)'},
                 {'clause': 'committors in [0,1]; all-pairs table = single-sink computation; linear in lag; dense = sparse; inputs unchanged', 'status': 'bounded'}]
    R.assumptions += ['scipy spsolve / numpy solve / inv are exact up to 1e-8', 'maximum principle and Kemeny-Snell identity are not proved']
    return R.finish('Lean lemmas over the system-construction clauses + bounded run-time contracts of the statement on the real functions.', update_lock=update_lock)
