"""C07 - committors and mean first-passage times satisfy their first-step equations."""
from pyvc.runner import Run, Unit, resolve_failures
from contracts import tpt_core as TC

CF = 'enspara/tpt/core.py'
MUT = [('absorbing-rows-not-zeroed', CF, "    I_m_Q[absorbing_states, :] = 0.0\n", ""),
       ('sinks-not-pinned', CF, "        committors[sinks] = 1.0\n", "        pass\n"),
       ('sources-not-cleared', CF, "    R[sources] = 0.0\n", ""),
       ('diagonal-not-restored', CF, "    I_m_Q[absorbing_states, absorbing_states] = 1.0\n", "")]


def run(tier, seed, update_lock=False):
    R = Run('C07', 'other', tier, seed)
    u = Unit('committor-system', TC.registry(), mutants=MUT, budget=25)
    u2 = Unit('mfpt-system[sink set]', TC.registry_mfpts(), keys=[TC.F + 'mfpts'],
              mutants=[('lag-dropped', CF, "        mfpts = lagtime * np.linalg.solve(I_m_Q, c)", "        mfpts = np.linalg.solve(I_m_Q, c)"),
                       ('sinks-not-zero', CF, "        c[sinks] = 0\n", "        pass\n")])
    u3 = Unit('mfpt-table[all pairs]', TC.registry_mfpts_all(), keys=[TC.F + 'mfpts'],
              mutants=[('sign-of-the-fundamental-matrix-term', CF, "        mfpts = lagtime * (np.diag(Z) - Z) / W", "        mfpts = lagtime * (Z - np.diag(Z)) / W"),
                       ('populations-down-the-columns', CF, "        W = np.array([populations] * n_states)\n", "        W = np.array([populations] * n_states).T\n"),
                       ('identity-dropped', CF, "        Z = np.linalg.inv(np.eye(n_states) - tprob + W)", "        Z = np.linalg.inv(W - tprob)")])
    for x in (u, u2, u3):
        R.prove(x)
    for x in (u, u2, u3):
        R.canary_check(x)
    R.lemma('MfptAll.lean', 'Z right inverse of I - T + W, T row-stochastic, pi stationary with total 1  =>  m[i,j] = (Z[j,j]-Z[i,j])/pi_j is 0 on the diagonal and m[i,j] = 1 + sum_k T[i,k] m[k,j] for i != j (Kemeny-Snell)')
    R.lemma('Committor.lean', 'point-wise system construction (_I_m_Q, R) + exact solve + injective sink list => q=0 on sources, 1 on sinks, q_i = sum_j T_ij q_j elsewhere')
    R.lemma('Mfpt.lean', 'sink-set MFPT system => t=0 on sinks, t_i = lag + sum_j T_ij t_j elsewhere')
    R.bounded('tpt.py', 'run-time contracts (the statement) on the real committors / mfpts', 'irreducible stochastic matrices 3..5 states (reversible, non-reversible, high barrier), all disjoint source/sink sets of sizes 1-2, ndarray/csr/lil, lags 1 and 3.5, np.matrix input', args=['--only=C07'])
    R.report_known('tpt.py')
    resolve_failures(R, 'tpt.py', lambda f: None)
    R.clauses = [{'clause': 'first-step equations follow from the point-wise linear system the code builds', 'status': 'lemma (Lean 4 + Mathlib) over the contract clauses of _I_m_Q / committors / mfpts'},
                 {'clause': 'committors: the code builds exactly that system (I - T with absorbing rows and columns zeroed and unit diagonal there; right-hand side 1 on sinks, 0 on sources, T[i, sink] elsewhere; B solves it; q = row sums of B with sinks pinned to 1)', 'status': 'proved (SMT on the real _I_m_Q and committors; fancy-index stores modelled by list membership)'},
                 {'clause': 'mfpts to a sink set: system matrix, right-hand side 0 on sinks / 1 elsewhere, result = lag time x an exact solution (hence linear in the lag time)', 'status': 'proved (SMT on the real mfpts, sink-set branch)'},
                 {'clause': 'all-pairs table: W has the populations in every row, Z = inverse of I - T + W (inverse assumed exact), table[i,j] = lag (Z[j,j] - Z[i,j]) / pi_j, zero on the diagonal; the first-step equations follow (Kemeny-Snell)', 'status': 'proved (SMT on the real mfpts, all-pairs branch with given populations) + lemma (Lean 4 + Mathlib)'},
                 {'clause': 'committors in [0,1]; all-pairs table = single-sink computation; linear in lag; dense = sparse; inputs unchanged', 'status': 'bounded'}]
    R.assumptions += ['scipy spsolve / numpy solve / inv are exact up to 1e-8', 'maximum principle not proved; the stationary vector handed to the all-pairs branch comes from the eigensolver (assumed)']
    return R.finish('Lean lemmas over the system-construction clauses + bounded run-time contracts of the statement on the real functions.', update_lock=update_lock)
