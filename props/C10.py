"""C10 - nearest-centre assignment and per-trajectory bookkeeping are exact."""
from pyvc.runner import Run, Unit, resolve_failures
from props import _cluster as K
from contracts import ra_partition as RP

RAF = 'enspara/ra/ra.py'
MUT_RA = [('offset-stop', RAF, "        stop = start+partition_lengths[num]", "        stop = start+partition_lengths[num]-1"),
          ('ge-in-indices', RAF, "            if traj_len > index:", "            if traj_len >= index:"),
          ('no-index-decrement', RAF, "                index -= traj_len\n", "                pass\n")]


def run(tier, seed, update_lock=False):
    R = Run('C10', 'proof', tier, seed)
    units = [K.util_unit(), Unit('partition', RP.registry(), mutants=MUT_RA)]
    for u in units:
        R.prove(u)
    for u in units:
        R.canary_check(u)
    R.conformance('C10.py', units[1:])
    R.bounded('cluster.py', 'run-time contracts: assign_to_nearest_center / find_cluster_centers on the real code',
              'data sets <= 7 points (+300-frame scale case), centre lists of 1..3 frames and 2n off-data centres, all label vectors len<=5 over 3 labels', args=['--only=assign,find,scale'])
    R.bounded('C10.py', 'run-time contracts: partition_list / partition_indices / ClusterResult.partition / predict on the real code',
              'all length vectors with <= 4 trajectories of length 0..3 (incl. length-1), all index lists of <= 3 valid indices, equal and unequal lengths')
    pl = K.payload_for(units)
    resolve_failures(R, 'C10.py', pl)
    R.assumptions += ['metric callable obeys out[i]=d(X[i],y); reals for floats',
                      'ClusterResult.partition, MolecularClusterMixin.predict and batch reassignment are compositions of the proved functions; the composition itself is only checked by the bounded driver',
                      'np.where / np.unique / np.argmin primitive contracts']
    return R.finish('assign_to_nearest_center: minimal + exact distance + first minimiser for any centre list (loop invariant over centres); '
                    'find_cluster_centers: a member of smallest distance per label present; partition_list: piece t is the window [PS(t), PS(t)+L[t]) (prefix-sum ghost, induction lemmas), '
                    'partition_indices: exactly one (trajectory, frame) pair per index with PS(t)+f = index.', update_lock=update_lock)
