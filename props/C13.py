"""C13 - distance kernels are exact for every dtype, memory layout and thread count."""
from pyvc.runner import Run, Unit, resolve_failures
from pyvc.front import Sources
from pyvc import race
from contracts import libdist as CL

PYX = 'enspara/geometry/libdist.pyx'
MUT = [('y-index', PYX, "            out[i] += (X[i, j] - y[j])**2", "            out[i] += (X[i, j] - y[i])**2"),
       ('swapped-subscripts', PYX, "            out[i] += fabs(X[i, j] - y[j])", "            out[i] += fabs(X[j, i] - y[j])"),
       ('no-zeroing', PYX, "    for i in prange(n_samples, nogil=True):\n        out[i] = 0\n    for i in prange(n_samples, nogil=True):\n        for j in range(n_features):\n            out[i] += fabs", "    for i in prange(n_samples, nogil=True):\n        for j in range(n_features):\n            out[i] += fabs"),
       ('hamming-no-normalise', PYX, "        out[i] /= n_features\n", "        pass\n"),
       ('width-check-dropped', PYX, "    if X.shape[1] != y.shape[0]:", "    if False:")]


def run(tier, seed, update_lock=False):
    R = Run('C13', 'proof', tier, seed)
    units = []
    for kind in ('euclidean', 'manhattan', 'hamming'):
        for out in ('none', 'f64'):
            reg = CL.registry(kind, out)
            keys = [CL.F + kind] + ([CL.F + '_' + kind] if out == 'none' else [])
            units.append(Unit('%s[out=%s]' % (kind, out), reg, keys=keys, mutants=[m for m in MUT if (kind[:3] in m[0] or m[0] in ('y-index',) and kind == 'euclidean' or m[0] in ('swapped-subscripts', 'no-zeroing') and kind == 'manhattan')] if out == 'none' else []))
    for out, xd, yd in (('none', 2, 1), ('f64', 2, 1), ('f32', 2, 1), ('none', 1, 1), ('none', 3, 1), ('none', 2, 2)):
        reg = {CL.Prepare.key: CL.Prepare(out, xd, yd)}
        for cd in (CL.CheckDim('_check_is_2d', 2, xd), CL.CheckDim('_check_is_1d', 1, yd)):
            reg[cd.key] = cd
        units.append(Unit('prepare[out=%s,X%dd,y%dd]' % (out, xd, yd), reg, keys=list(reg), mutants=[m for m in MUT if m[0] == 'width-check-dropped'] if (out, xd, yd) == ('none', 2, 1) else []))
    for u in units:
        R.prove(u)
    for u in units[:7]:
        R.canary_check(u)
    mod = Sources().module(PYX)
    for fn in ('_euclidean', '_manhattan', '_hamming'):
        if fn not in mod.funcs:       # renamed, or the module left the desugarer's subset: the locked race obligations are then reported as not generated
            R.notes.append('race obligations of %s not generated: %s' % (fn, mod.parse_error or 'function not found'))
            continue
        R.static_obligations('prange', [(fn + '/' + oid, ok, d) for oid, ok, d in race.check(mod.funcs[fn])])
    R.extra_cov['prange_loops_found'] = mod.prange_lines
    R.bounded('C13.py', 'run-time contracts on the kernels compiled from the current .pyx (ties the desugared text to the binary)',
              '3 kernels x int8..int64/float32/float64 (uint for hamming) x {C, F, strided, reversed} layouts x threads {1,2,5,16} x with/without out x shapes <= 7x5; validation errors')

    def payload(f):
        return {'key': f['oid'], 'inputs': f['model'], 'obligation': f['oid']}
    resolve_failures(R, 'C13.py', payload)
    R.assumptions += ['Cython: fused-type dispatch rejects unsupported / mismatched element types; typed-buffer access honours strides; loop scalars are thread-private; the C compiler and OpenMP `parallel for`; DOALL theorem',
                      'element arithmetic is mathematical (floating operands subtract and square in their own type: covered by the bounded sweep only)',
                      'the .pyx desugarer (its log of dropped tokens is in this evidence file)']
    return R.finish('Desugared kernels: every subscript in bounds (boundscheck is off in the binary), zeroing before accumulation, partial-sum loop invariants giving out[i] = sqrt(S(i,m)) / S(i,m) / S(i,m)/m, '
                    'race-freedom of all six prange loops (disjoint write frames), validation raises DataInvalid exactly on wrong rank / width / buffer type / length, public wrappers return the (caller\'s) buffer.',
                    update_lock=update_lock)
