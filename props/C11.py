"""C11 - ergodic trimming keeps exactly the heaviest strongly connected component."""
from pyvc.runner import Run, resolve_failures


def run(tier, seed, update_lock=False):
    R = Run('C11', 'other', tier, seed)
    R.bounded('C11.py', 'run-time contracts (the statement, with an independent SCC computation) on the real trim_disconnected / MSM.fit',
              'all 3x3 count matrices over {0,1,3} (strided in quick), seeded 4-5 state matrices, thresholds 1..3, renumber on/off, ndarray + 7 sparse containers + duplicate-coordinate COO')
    R.report_known('C11.py')
    resolve_failures(R, 'C11.py', lambda f: None)
    R.clauses = [{'clause': 'kept set = a strongly connected component (w.r.t. counts >= threshold) of largest total original row count; trimmed is strongly connected; counts between kept states preserved; none on removed states', 'status': 'bounded'},
                 {'clause': 'mapping is an order-preserving bijection new<->original; renumbered and in-place variants describe the same model; dense = sparse; container type kept; fitted model reports the mapping', 'status': 'bounded'}]
    R.assumptions += ['SCC oracle in the contract: mutual reachability by boolean matrix closure (independent of scipy.sparse.csgraph)']
    return R.finish('Bounded stand-in in this run; deductive obligations for trim_disconnected (given SciPy\'s SCC labelling as an assumed primitive contract) are planned (DESIGN 4 C11).', update_lock=update_lock)
