"""C11 - ergodic trimming keeps exactly the heaviest strongly connected component."""
from pyvc.runner import Run, Unit, resolve_failures
from contracts import trim as CT

TMF = 'enspara/msm/transition_matrices.py'
MUT = [('column-sums', TMF, "    pops = counts.sum(axis=1)", "    pops = counts.sum(axis=0)"),
       ('weight-from-thresholded', TMF, "    pops = counts.sum(axis=1)", "    pops = thresholded_counts.sum(axis=1)"),
       ('mapping-inverted', TMF, "        mapping = TrimMapping(zip(keep_states,\n                              range(len(trimmed_counts))))", "        mapping = TrimMapping(zip(np.arange(len(trimmed_counts)),\n                              keep_states))"),
       ('argmin-component', TMF, "    maxpop_subgraph = np.argmax(subgraph_pops)", "    maxpop_subgraph = np.argmin(subgraph_pops)"),
       ('columns-not-zeroed', TMF, "        trimmed_counts[:, trim_states] = 0\n", "")]


def run(tier, seed, update_lock=False):
    R = Run('C11', 'other', tier, seed)
    units = [Unit('trim[renumber]', CT.registry(True), mutants=MUT[:4]), Unit('trim[in-place]', CT.registry(False), mutants=MUT[4:])]
    for u in units:
        R.prove(u)
    for u in units:
        R.canary_check(u)
    R.bounded('C11.py', 'run-time contracts (the statement, with an independent SCC computation) on the real trim_disconnected / MSM.fit',
              'all 3x3 count matrices over {0,1,3} (strided in quick), seeded 4-5 state matrices, thresholds 1..3, renumber on/off, ndarray + 7 sparse containers + duplicate-coordinate COO')
    R.report_known('C11.py')
    resolve_failures(R, 'C11.py', lambda f: None)
    R.clauses = [{'clause': 'dense branch, given SciPy\'s SCC labelling of the thresholded graph: kept states are exactly the first heaviest component by original row totals, strictly increasing; renumbered counts = counts[keep x keep] with the order-preserving mapping; in-place variant zeroes exactly the removed rows and columns with the identity mapping; caller\'s matrix unchanged', 'status': 'proved (SMT on the real trim_disconnected, both variants)'},
                 {'clause': 'kept set = a strongly connected component (w.r.t. counts >= threshold) of largest total original row count; trimmed is strongly connected; counts between kept states preserved; none on removed states', 'status': 'bounded'},
                 {'clause': 'mapping is an order-preserving bijection new<->original; renumbered and in-place variants describe the same model; dense = sparse; container type kept; fitted model reports the mapping', 'status': 'bounded'}]
    R.assumptions += ['SCC oracle in the contract: mutual reachability by boolean matrix closure (independent of scipy.sparse.csgraph)']
    return R.finish('Deductive: trim_disconnected on dense input modulo SciPy\'s connected_components (assumed contract; the bounded driver checks it against an independent SCC computation). Bounded: the whole statement incl. sparse containers and the fitted estimator.', update_lock=update_lock)
