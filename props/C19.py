"""C19 - results depend on arguments only, not on history, threads or heap contents."""
from pyvc.runner import Run, Unit, resolve_failures
from pyvc.front import Sources
from pyvc import race, callsite
from props import _cluster as K
from contracts import libdist as CL


def run(tier, seed, update_lock=False):
    R = Run('C19', 'proof', tier, seed)
    # (a)+(b): ghost-initialisation and frame obligations of functions under contract
    from contracts import trim as CTR, tpt as CTP, builders as CBU
    units = [K.util_unit(), Unit('trim[renumber]', CTR.registry(True)), Unit('trim[in-place]', CTR.registry(False)),
             Unit('tpt-flux[dense]', CTP.registry(), keys=[CTP.F + '_get_data_from_tprob', CTP.F + 'reactive_fluxes', CTP.F + 'net_fluxes', CTP.F + 'reactive_populations']),
             Unit('builders-dense', CBU.registry('scalar', True), keys=[CBU.F + 'transpose', CBU.F + '_row_normalize', CBU.F + '_apply_prior_counts', CBU.F + 'normalize'])]
    from contracts import ra_index as RI, tpt_path as TPP
    units += [Unit('ra-index', RI.registry()), Unit('ra-2d-slice[]', RI.registry_iis(True, True, True, exclude={'ra-2d-slice-empty-row'})),
              Unit('path-removal', TPP.registry()), Unit('paths[subtract]', TPP.registry_paths('subtract', False), keys=[TPP.F + 'paths'])]
    from contracts import channelcap as CCN
    units.append(Unit('channel-capacity[array]', CCN.registry('array')))        # np.divide(out=) writes a private copy: the caller's matrix is in the frame
    for kind in ('euclidean', 'manhattan', 'hamming'):
        units.append(Unit('%s[out=none]' % kind, CL.registry(kind, 'none'), keys=[CL.F + kind, CL.F + '_' + kind]))
    for u in units:
        R.prove(u)
    # (c) race-freedom of every prange loop in the three compiled kernels
    src = Sources()
    for rel in ('enspara/geometry/libdist.pyx', 'enspara/info_theory/libinfo.pyx', 'enspara/msm/libmsm.pyx'):
        mod = src.module(rel)
        for fn in mod.funcs:
            res = race.check(mod.funcs[fn])
            if res:
                R.static_obligations('prange', [('%s::%s/%s' % (rel, fn, oid), ok, d) for oid, ok, d in res])
    # (d) repository-wide call-site obligations
    sites = callsite.scan()
    decided = [(o, ok, d) for o, ok, d in sites if ok is not None]
    R.static_obligations('callsite', decided)
    for o, ok, d in sites:
        if ok is None:
            R.notes.append('delegated: %s %s (window coverage of load_npy_as_striped belongs to C15 and is MPI-only code)' % (o, d))
    R.extra_cov['call_sites_examined'] = [{'site': o, 'verdict': ('holds' if ok else 'fails' if ok is False else 'delegated'), 'detail': d} for o, ok, d in sites]
    R.bounded('C19.py', 'each routine called on a fresh heap, after the heap was dirtied with NaN blocks of the result size, and with another OpenMP thread count',
              '33 routines of the numerical API on fixed small inputs; bit-identical results; arguments unchanged')
    R.report_known('C19.py')
    resolve_failures(R, 'C19.py', lambda f: None)
    R.assumptions += ['NumPy allocators other than empty/empty_like and masked ufuncs without out= return initialised memory',
                      'MPI collectives overwrite their receive buffers (mpi/ops.py); window coverage in mpi/io.py::load_npy_as_striped is delegated',
                      'DOALL theorem + Cython thread-private scalars for the prange loops; heap-history dependence is decided by the static obligations, the bounded repeats are side evidence']
    return R.finish('Union of: init#/frame obligations of functions under contract (np.empty in assign_to_nearest_center is filled before use; inputs unchanged), race# obligations of all prange loops, and the '
                    'repository-wide data-flow obligations on masked ufuncs (where= requires an initialised out=) and np.empty results.', update_lock=update_lock)
