"""C02 - k-centers picks farthest points, never widens the radius, stops exactly on cue; shortcut == plain."""
from pyvc.runner import Run, resolve_failures
from props import _cluster as K


def run(tier, seed, update_lock=False):
    R = Run('C02', 'proof', tier, seed)
    units = [K.iteration_unit()] + K.kcenters_units()
    for u in units:
        R.prove(u)
    for u in units:
        R.canary_check(u)
    R.lemma('Gonzalez.lean', 'k+1 points pairwise >= r  =>  any k centres leave one of them at distance >= r/2 (2-approximation); '
            'hypotheses = contract clauses history:centers-pairwise-separated, consistent:nearest, final-radius-below-last')
    R.bounded('cluster.py', 'run-time contracts on the real kcenters (incl. replayed farthest-first history)',
              'data sets <= 7 distinct points, 3 metrics, all n_clusters 1..n+1, radii from the distance set, cold/warm, shortcut on/off', args=['--only=kcenters'])
    resolve_failures(R, 'cluster.py', K.payload_for(units))
    R.assumptions += ['metric callable obeys its contract out[i]=d(X[i],y), finite, non-negative, d(x,x)=0 (compiled kernels: C13); distinct data points',
                      'triangle shortcut requires a symmetric metric obeying the triangle inequality (the property\'s quantifier)',
                      'termination of the while loop is not proved (partial correctness); serial mode only (mpi_mode False)',
                      'shortcut == plain: both branches are proved against the same functional postcondition (min / label update), which does not mention the flag']
    return R.finish('farthest-first history (ghost arrays H/W/RAD = distance, label, radius at the moment each centre was chosen), radius monotone, '
                    'exact stopping (not early: guard; not late: every added centre was added above the cutoff and below n_clusters), cold start = frame 0, '
                    'warm start keeps the supplied frames, shortcut and plain satisfy the same functional postcondition; 2-approximation by a Lean lemma over these clauses.',
                    update_lock=update_lock)
