"""C01 - clustering results are self-consistent for every algorithm and input."""
from pyvc.runner import Run, resolve_failures
from props import _cluster as K


def run(tier, seed, update_lock=False):
    R = Run('C01', 'proof', tier, seed)
    units = [K.core_unit()] + K.kcenters_units() + K.kmedoids_units(R.excluded())
    from pyvc.runner import Unit
    from contracts import estimators as ES
    est = Unit('estimator-fit', ES.registry(), keys=[k for k in ES.registry() if k.endswith('.fit')],
               mutants=[('radius-from-the-cluster-count', ES.KC, "            dist_cutoff=self.cluster_radius,", "            dist_cutoff=self.n_clusters,"),
                        ('sweeps-from-the-cluster-count', ES.HY, "            n_iters=self.kmedoids_updates,", "            n_iters=self.n_clusters,"),
                        ('supplied-state-dropped', ES.KM, "            assignments=assignments,\n            distances=distances,", "            assignments=None,\n            distances=None,")])
    units.append(est)
    for u in units:
        R.prove(u)
    for u in units[:2] + units[9:11] + [est]:
        R.canary_check(u)
    R.lemma('MsqMonotone.lean', 'mean of squares is monotone on point-wise ordered non-negative arrays (rejects proposals that duplicate another centre)')
    R.bounded('cluster.py', 'run-time contracts on the real k-centers / assignment code',
              'data sets <= 7 distinct points (+300-frame scale case), 3 metrics, all n_clusters 1..n+1, radii from the distance set, cold/warm, shortcut on/off')
    R.bounded('kmedoids.py', 'run-time contracts on the real k-medoids / k-hybrid code and the estimator classes (incl. input frames)',
              'data sets <= 7 points (+ outlier sets), every proposal tuple for K<=2, seeded sweeps, n_iters 0..3, kmedoids()/hybrid()/KCenters/KMedoids/KHybrid.fit',
              args=['--exclude=' + ','.join(R.excluded()), '--prop=C01'])
    R.report_known('kmedoids.py')
    resolve_failures(R, 'kmedoids.py', K.payload_for(units))
    R.assumptions += ['metric callable obeys out[i]=d(X[i],y), finite, non-negative, d(x,x)=0 (compiled kernels: C13; md.rmsd / mdtraj trajectories not covered)',
                      'distinct data points (the property\'s quantifier); serial mode',
                      'estimator classes and kmedoids() input handling (rng cold start, input tree) are covered by the bounded driver only; their result is the function result by construction',
                      'termination of the k-centers while loop is not proved']
    return R.finish('`consistent` (labels in range, distance = metric distance to the assigned centre, no centre strictly closer, centre frame carries its own label at distance 0, '
                    'reported centre = frame at its index) is a postcondition of kcenters (cold and warm, 4 criteria configurations), of the PAM update / sweeps for random and arbitrary '
                    'explicit proposals, and of hybrid; input frames are `frame:` obligations.', update_lock=update_lock)
