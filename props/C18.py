"""C18 - joint counts are exact and mutual information obeys its algebraic laws."""
from pyvc.runner import Run, Unit, resolve_failures
from pyvc.front import Sources
from pyvc import race
from contracts import libinfo

PYX = 'enspara/info_theory/libinfo.pyx'
MUT = [('swapped-cell', PYX, "                jc[a_row, b_row, i, j] += 1", "                jc[a_row, b_row, j, i] += 1"),
       ('negative-ids-unchecked', PYX, '    assert a.min() >= 0, "States indices must be non-negative."\n', ''),
       ('wrong-column', PYX, "                j = b[t, b_row]", "                j = b[t, a_row]"),
       ('length-check-dropped', PYX, "    assert a.shape[0] == b.shape[0], 'Feature arrays a and b must match in length'\n", '')]


def run(tier, seed, update_lock=False):
    R = Run('C18', 'other', tier, seed)
    u = Unit('joint-count-kernel', libinfo.registry(), mutants=MUT, budget=20)
    R.prove(u)
    R.canary_check(u)
    mod = Sources().module(PYX)
    if 'matrix_bincount2d' in mod.funcs:
        R.static_obligations('prange', [('matrix_bincount2d/' + oid, ok, d) for oid, ok, d in race.check(mod.funcs['matrix_bincount2d'])])
    else:
        R.notes.append('race obligations of matrix_bincount2d not generated: %s' % (mod.parse_error or 'function not found'))
    R.bounded('C18.py', 'run-time contracts (the statement) on the real joint_counts / mutual_information / weighted_mi / normalisation / entropy code',
              '<=3 features, <=3 states, <=6 frames; 8 integer dtypes; C/F/strided layouts; threads 1/4/16; rejected inputs (negative / too large ids, length mismatch)')
    R.report_known('C18.py')
    resolve_failures(R, 'C18.py', lambda f: {'key': 'matrix_bincount2d', 'inputs': f['model'], 'obligation': f['oid']})
    R.clauses = [{'clause': 'joint-count tables are exact for every integer type, layout and thread count; out-of-range ids and length mismatches are rejected', 'status': 'proved for the desugared kernel matrix_bincount2d (SMT: bounds of all subscripts, exact counts by loop invariants over a ghost count function, AssertionError exactly for out-of-range ids / length mismatch, race-freedom of the prange loop); dtype x layout x threads sweep bounded'},
                 {'clause': 'MI: definition, non-negative, symmetric, diagonal = entropy, <= smaller marginal entropy, relabel / reorder invariance, pooled counts, weighted = unweighted, channel-capacity normalisation', 'status': 'bounded'},
                 {'clause': 'relative entropy non-negative, zero exactly for equal distributions', 'status': 'bounded'}]
    return R.finish('Deductive: the compiled counting kernel (desugared). Bounded: dtype harmonisation in joint_counts and all information-theoretic laws.', update_lock=update_lock)
