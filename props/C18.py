"""C18 - joint counts are exact and mutual information obeys its algebraic laws."""
from pyvc.runner import Run, Unit, resolve_failures
from pyvc.front import Sources
from pyvc import race
from contracts import libinfo, channelcap

PYX = 'enspara/info_theory/libinfo.pyx'
MUT = [('swapped-cell', PYX, "                jc[a_row, b_row, i, j] += 1", "                jc[a_row, b_row, j, i] += 1"),
       ('negative-ids-unchecked', PYX, '    assert a.min() >= 0, "States indices must be non-negative."\n', ''),
       ('wrong-column', PYX, "                j = b[t, b_row]", "                j = b[t, a_row]"),
       ('length-check-dropped', PYX, "    assert a.shape[0] == b.shape[0], 'Feature arrays a and b must match in length'\n", '')]
MI = 'enspara/info_theory/mutual_info.py'
MUT_CC = [('xy-grid', MI, "np.meshgrid(n_x, n_y, indexing='ij')", "np.meshgrid(n_x, n_y)"),
          ('copy-dropped', MI, "    mi = mi.copy()\n\n    n_x = _validate", "    mi = mi\n\n    n_x = _validate"),
          ('larger-count', MI, "min_num_states = np.fmin(", "min_num_states = np.fmax("),
          ('second-axis-unchecked', MI, "n_y = _validate_feature_states_array(n_y, mi.shape[1])", "n_y = _validate_feature_states_array(n_y, len(n_y))"),
          ('one-state-accepted', MI, "    if np.any(n < 2):", "    if np.any(n < 1):")]


def run(tier, seed, update_lock=False):
    R = Run('C18', 'other', tier, seed)
    u = Unit('joint-count-kernel', libinfo.registry(), mutants=MUT, budget=20)
    R.prove(u)
    R.canary_check(u)
    # channel-capacity normalisation (clause of the statement): the real function and its validation helper under contract,
    # for vectors of state counts, one integer count per side, and the two mixed forms
    for form in ('array', 'scalar', 'int-x', 'int-y'):
        uc = Unit('channel-capacity[%s]' % form, channelcap.registry(form), mutants=MUT_CC if form == 'array' else MUT_CC[2:3], budget=20)
        R.prove(uc)
        R.canary_check(uc)
    mod = Sources().module(PYX)
    if 'matrix_bincount2d' in mod.funcs:
        R.static_obligations('prange', [('matrix_bincount2d/' + oid, ok, d) for oid, ok, d in race.check(mod.funcs['matrix_bincount2d'])])
    else:
        R.notes.append('race obligations of matrix_bincount2d not generated: %s' % (mod.parse_error or 'function not found'))
    R.bounded('C18.py', 'run-time contracts (the statement) on the real joint_counts / mutual_information / weighted_mi / normalisation / entropy code',
              '<=3 features, <=3 states, <=6 frames; 8 integer dtypes; C/F/strided layouts; threads 1/4/16; rejected inputs (negative / too large ids, length mismatch)')
    R.report_known('C18.py')
    resolve_failures(R, 'C18.py', lambda f: {'key': f['oid'].split('::')[1].split('/')[0], 'inputs': f['model'], 'obligation': f['oid']})
    R.clauses = [{'clause': 'joint-count tables are exact for every integer type, layout and thread count; out-of-range ids and length mismatches are rejected', 'status': 'proved for the desugared kernel matrix_bincount2d (SMT: bounds of all subscripts, exact counts by loop invariants over a ghost count function, AssertionError exactly for out-of-range ids / length mismatch, race-freedom of the prange loop); dtype x layout x threads sweep bounded'},
                 {'clause': 'MI: definition, non-negative, symmetric, diagonal = entropy, <= smaller marginal entropy, relabel / reorder invariance, pooled counts, weighted = unweighted', 'status': 'bounded'},
                 {'clause': 'channel-capacity normalisation divides entry (i, j) by the log of the smaller of the two state counts', 'status': 'proved for channel_capacity_normalization and _validate_feature_states_array (SMT on mutual_info.py as it stands; vector and single-integer state counts; result entry = mi[i,j] / ln(min(n_x[i], n_y[j])), caller\'s matrix untouched, DataInvalid exactly for counts < 2 / wrong lengths); assumed: np.meshgrid / np.fmin / np.divide(out=) / np.log primitive contracts, ln uninterpreted; the same contract at run time on the real function'},
                 {'clause': 'relative entropy non-negative, zero exactly for equal distributions', 'status': 'bounded'}]
    R.assumptions += ['np.meshgrid (ij / xy grids of two vectors), np.fmin (= minimum on non-NaN operands), np.divide(out=) (element-wise real quotient stored into out), np.log (uninterpreted ln) obey their primitive contracts in pyvc/prims.py']
    return R.finish('Deductive: the compiled counting kernel (desugared) and channel_capacity_normalization with its validation helper. Bounded: dtype harmonisation in joint_counts and all information-theoretic laws.', update_lock=update_lock)
