"""C18 - joint counts are exact and mutual information obeys its algebraic laws."""
from pyvc.runner import Run, resolve_failures


def run(tier, seed, update_lock=False):
    R = Run('C18', 'other', tier, seed)
    R.bounded('C18.py', 'run-time contracts (the statement) on the real joint_counts / mutual_information / weighted_mi / normalisation / entropy code',
              '<=3 features, <=3 states, <=6 frames; 8 integer dtypes; C/F/strided layouts; threads 1/4/16; rejected inputs (negative / too large ids, length mismatch)')
    R.report_known('C18.py')
    resolve_failures(R, 'C18.py', lambda f: None)
    R.clauses = [{'clause': 'joint-count tables are exact for every integer type, layout and thread count; out-of-range ids and length mismatches are rejected', 'status': 'bounded (kernel invariant as SMT obligations planned)'},
                 {'clause': 'MI: definition, non-negative, symmetric, diagonal = entropy, <= smaller marginal entropy, relabel / reorder invariance, pooled counts, weighted = unweighted, channel-capacity normalisation', 'status': 'bounded'},
                 {'clause': 'relative entropy non-negative, zero exactly for equal distributions', 'status': 'bounded'}]
    return R.finish('Bounded stand-in in this run.', update_lock=update_lock)
