"""C04 - every builder returns a valid, stationary and (where promised) reversible model."""
from pyvc.runner import Run, resolve_failures


def run(tier, seed, update_lock=False):
    R = Run('C04', 'other', tier, seed)
    R.bounded('C04.py', 'run-time contracts (the statement) on the real builders over the complete container product',
              '{normalize, transpose, mle} x {ndarray, csr, csc, coo, lil, dok, dia, bsr} x {prior none / scalar / asymmetric array} x {populations on/off}; count matrices with 2..4 states')
    R.report_known('C04.py')
    resolve_failures(R, 'C04.py', lambda f: None)
    R.clauses = [{'clause': 'rows are distributions; normalize = counts / row totals; transpose = symmetrise then normalise; populations stationary; detailed balance', 'status': 'bounded (run-time contracts, enumerated + seeded matrices <= 4 states)'},
                 {'clause': 'same numbers for dense and all 8 sparse containers; output container = input container; prior counts added before estimation; caller\'s matrix unchanged', 'status': 'bounded (complete container x option product)'},
                 {'clause': 'leading eigenvalue 1 with a positive eigenvector (Perron-Frobenius)', 'status': 'assumed'}]
    R.assumptions += ['SciPy sparse container algebra is not modelled symbolically; tolerance 1e-8..1e-12 on floating-point comparisons']
    return R.finish('No deductive obligations yet for C04 in this run: the builders mix dense and SciPy-sparse container algebra; the statement is checked as a run-time contract over the complete container product.',
                    update_lock=update_lock)
