"""C04 - every builder returns a valid, stationary and (where promised) reversible model."""
from pyvc.runner import Run, Unit, resolve_failures
from contracts import builders as CB

BF = 'enspara/msm/builders.py'
MUT = [('column-normalise', BF, "        weights = np.asarray(C.sum(axis=1)).flatten()\n        inv_weights = np.zeros(n_states)", "        weights = np.asarray(C.sum(axis=0)).flatten()\n        inv_weights = np.zeros(n_states)"),
       ('no-zero-guard', BF, "        inv_weights[weights > 0] = 1.0 / weights[weights > 0]\n        T = C *", "        inv_weights = 1.0 / weights\n        T = C *"),
       ('half-dropped', BF, "    return C_sym.astype(float)/2, probs, equilibrium", "    return C_sym.astype(float), probs, equilibrium"),
       ('sym-minus', BF, "    C_sym = C + C.T", "    C_sym = C - C.T"),
       ('prior-dropped-in-normalize', BF, "def normalize(C, prior_counts=None, calculate_eq_probs=True):", "def normalize(C, prior_counts=None, calculate_eq_probs=True):\n    prior_counts = None"),
       ('prior-after-symmetrisation', BF, "    C = _apply_prior_counts(C, prior_counts)\n\n    C_sym = C + C.T", "    C_sym = C + C.T\n    C_sym = _apply_prior_counts(C_sym, prior_counts)")]
MUT_MLE = [('mle-prior-not-used', BF, "    C = _apply_prior_counts(C, prior_counts)\n\n    sparsetype = np.array", "    _apply_prior_counts(C, prior_counts)\n\n    sparsetype = np.array"),
           ('mle-populations-dropped', BF, "        T, equilibrium = _prinz_mle_py(C)", "        T, _ = _prinz_mle_py(C)")]


def run(tier, seed, update_lock=False):
    R = Run('C04', 'other', tier, seed)
    units = []
    for prior in ('none', 'scalar'):
        for eq in (True, False):
            reg = CB.registry(prior, eq)
            keys = [CB.F + 'transpose'] + ([CB.F + '_row_normalize', CB.F + '_apply_prior_counts', CB.F + 'normalize'] if eq else [])
            units.append(Unit('builders-dense[prior=%s,populations=%s]' % (prior, eq), reg, keys=keys,
                              mutants=(MUT[:4] if (prior, eq) == ('none', True) else MUT[4:] if (prior, eq) == ('scalar', True) else [])))
    # the maximum-likelihood builder's dense wrapper: the estimator (C12's contract; here an opaque function of its argument) runs on counts + prior
    mle_units = [Unit('mle-dense[prior=%s,populations=%s]' % (prior, eq), CB.registry_mle(prior, eq), keys=[CB.F + 'mle'],
                      mutants=MUT_MLE if (prior, eq) == ('scalar', True) else []) for prior in ('none', 'scalar') for eq in (True, False)]
    for u in units + mle_units:
        R.prove(u)
    for u in units[:3] + mle_units[2:3]:
        R.canary_check(u)
    R.lemma('TransposeBuilder.lean', 'symmetric S: rows of S/rowsum sum to 1; detailed balance and stationarity with pi = rowsum/total')
    R.bounded('C04.py', 'run-time contracts (the statement) on the real builders over the complete container product',
              '{normalize, transpose, mle} x {ndarray, csr, csc, coo, lil, dok, dia, bsr} x {prior none / scalar / asymmetric array} x {populations on/off}; count matrices with 2..4 states')
    R.report_known('C04.py')
    resolve_failures(R, 'C04.py', lambda f: None)
    R.clauses = [{'clause': 'dense ndarray branch: row-normalised matrix = counts over row totals (zero-row guard); transpose = (C+prior)+(C+prior)^T, returned counts = half of it, probabilities = its row normalisation, populations = symmetric row totals over the total; prior counts added before estimation; no populations unless asked; caller\'s matrix unchanged', 'status': 'proved (SMT on the real _row_normalize / _apply_prior_counts / normalize / transpose, non-linear real arithmetic); that such matrices are stochastic, reversible and stationary is lemmas/TransposeBuilder.lean'},
                 {'clause': 'maximum-likelihood builder, dense branch: prior counts added once before estimation; returned counts = counts + prior; returned matrix and populations are the estimator\'s results for exactly that matrix', 'status': 'proved (SMT on the real mle wrapper; the estimator _prinz_mle_py enters as an opaque function of its argument - what it computes is C12)'},
                 {'clause': 'rows are distributions; normalize = counts / row totals; transpose = symmetrise then normalise; populations stationary; detailed balance', 'status': 'bounded (run-time contracts, enumerated + seeded matrices <= 4 states)'},
                 {'clause': 'same numbers for dense and all 8 sparse containers; output container = input container; prior counts added before estimation; caller\'s matrix unchanged', 'status': 'bounded (complete container x option product)'},
                 {'clause': 'leading eigenvalue 1 with a positive eigenvector (Perron-Frobenius)', 'status': 'assumed'}]
    R.assumptions += ['SciPy sparse container algebra is not modelled symbolically; tolerance 1e-8..1e-12 on floating-point comparisons']
    return R.finish('Deductive: the dense branches of the normalising and symmetrising builders (formulae). Lemma: stochastic rows / detailed balance / stationarity of the symmetrised estimate. Bounded: the whole statement over the complete container product, incl. the ML builder.',
                    update_lock=update_lock)
