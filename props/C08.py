"""C08 - reactive flux obeys its definition and is conserved."""
from pyvc.runner import Run, resolve_failures


def run(tier, seed, update_lock=False):
    R = Run('C08', 'other', tier, seed)
    R.lemma('Flux.lean', 'flux definition + detailed balance + row-stochastic + committor equation => net flux into = out of every intermediate state')
    R.bounded('tpt.py', 'run-time contracts (the statement) on the real reactive_fluxes / net_fluxes / reactive_populations', 'irreducible stochastic matrices 3..5 states, all disjoint source/sink sets of sizes 1-2, ndarray/csr/lil, populations given or computed', args=['--only=C08'])
    R.report_known('tpt.py')
    resolve_failures(R, 'tpt.py', lambda f: None)
    R.clauses = [{'clause': 'conservation at intermediates follows from the flux definition, detailed balance and the committor equation', 'status': 'lemma (Lean 4 + Mathlib)'},
                 {'clause': 'flux formula, zero diagonal, net flux = positive part, reactive populations formula, source/sink flow balance, dense = sparse', 'status': 'bounded in this run (SMT obligations planned)'}]
    return R.finish('Lean lemma for conservation + bounded run-time contracts of the statement.', update_lock=update_lock)
