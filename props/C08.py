"""C08 - reactive flux obeys its definition and is conserved."""
from pyvc.runner import Run, Unit, resolve_failures
from contracts import tpt as CT

TF = 'enspara/tpt/tpt.py'
MUT = [('inplace-populations', TF, "    fluxes[(np.arange(n_states), np.arange(n_states))] = np.zeros(n_states)", "    populations *= reverse_committors\n    fluxes[(np.arange(n_states), np.arange(n_states))] = np.zeros(n_states)"),
       ('diagonal-kept', TF, "    fluxes[(np.arange(n_states), np.arange(n_states))] = np.zeros(n_states)\n", ""),
       ('net-sign', TF, "    net_fluxes = fluxes - fluxes.T", "    net_fluxes = fluxes.T - fluxes"),
       ('rev-not-complement', TF, "    reverse_committors = 1 - forward_committors", "    reverse_committors = forward_committors"),
       ('density-without-backward-committor', TF, "    densities = populations * forward_committors * reverse_committors", "    densities = populations * forward_committors")]


def run(tier, seed, update_lock=False):
    R = Run('C08', 'other', tier, seed)
    reg = CT.registry()
    u = Unit('tpt-flux[dense]', reg, keys=[CT.F + '_get_data_from_tprob', CT.F + 'reactive_fluxes', CT.F + 'net_fluxes', CT.F + 'reactive_populations'], mutants=MUT)
    R.prove(u)
    R.canary_check(u)
    R.lemma('Flux.lean', 'flux definition + detailed balance + row-stochastic + committor equation => net flux into = out of every intermediate state')
    R.bounded('tpt.py', 'run-time contracts (the statement) on the real reactive_fluxes / net_fluxes / reactive_populations', 'irreducible stochastic matrices 3..5 states, all disjoint source/sink sets of sizes 1-2, ndarray/csr/lil, populations given or computed', args=['--only=C08'])
    R.report_known('tpt.py')
    resolve_failures(R, 'tpt.py', lambda f: None)
    R.clauses = [{'clause': 'conservation at intermediates follows from the flux definition, detailed balance and the committor equation', 'status': 'lemma (Lean 4 + Mathlib)'},
                 {'clause': 'dense branch: flux = pi_i (1-q_i) T_ij q_j off the diagonal and 0 on it; nothing out of sinks / into sources; net flux = positive part of f - f^T; at most one direction per pair; inputs unchanged', 'status': 'proved (SMT on the real reactive_fluxes / net_fluxes / _get_data_from_tprob, non-linear real arithmetic; committors by its call-site contract)'},
                 {'clause': 'reactive populations formula, source/sink flow balance, dense = sparse', 'status': 'bounded'}]
    return R.finish('SMT obligations for the dense flux formulae + Lean lemma for conservation + bounded run-time contracts of the whole statement (incl. sparse containers).', update_lock=update_lock)
