"""shared unit definitions for the clustering properties"""
from pyvc.runner import Unit
from contracts import cluster as CC, ra_partition as RP

KCF, UTF = 'enspara/cluster/kcenters.py', 'enspara/cluster/util.py'
MUT_ITER = [('lt->le', KCF, "inds = (dist < distances)", "inds = (dist <= distances)"),
            ('drop-half', KCF, "(cc_dists[assignments] / 2)", "(cc_dists[assignments])"),
            ('argmin', KCF, "new_center_index = np.argmax(distances)\n    new_center = traj", "new_center_index = np.argmin(distances)\n    new_center = traj"),
            ('label+1', KCF, "assignments[inds] = len(center_inds)", "assignments[inds] = len(center_inds) + 1"),
            ('mask-flipped', KCF, "recompute_dists = distances > ", "recompute_dists = distances < ")]
MUT_LOOP = [('guard>=', KCF, "and (maxdist > dist_cutoff):", "and (maxdist >= dist_cutoff):"),
            ('guard<=', KCF, "while (len(ctr_inds) < n_clusters) and", "while (len(ctr_inds) <= n_clusters) and"),
            ('and->or', KCF, "(len(ctr_inds) < n_clusters) and (maxdist", "(len(ctr_inds) < n_clusters) or (maxdist"),
            ('centers-not-appended', KCF, "        centers.append(new_center)\n", "        pass\n")]
MUT_UTIL = [('no-dist-update', UTF, "            distances[inds] = dist[inds]\n            assignments[inds] = i", "            assignments[inds] = i"),
            ('le-in-assign', UTF, "            inds = (dist < distances)\n            distances[inds]", "            inds = (dist <= distances)\n            distances[inds]"),
            ('argmax-in-find', UTF, "ind = assigned_frames[np.argmin(distances[assigned_frames])]", "ind = assigned_frames[np.argmax(distances[assigned_frames])]"),
            ('where-ne', UTF, "assigned_frames = np.where(assignments == c)[0]", "assigned_frames = np.where(assignments != c)[0]")]


def core_unit():
    reg = CC.registry()
    return Unit('cluster-core', reg, axioms=CC.axioms, mutants=MUT_ITER[:3] + MUT_UTIL)


def iteration_unit():
    reg = {CC.KCentersIteration.key: CC.KCentersIteration()}
    return Unit('kcenters-iteration', reg, axioms=CC.axioms, mutants=MUT_ITER)


def util_unit():
    reg = {c.key: c for c in (CC.AssignToNearest(), CC.FindClusterCenters())}
    return Unit('assign+find', reg, axioms=CC.axioms, mutants=MUT_UTIL)


def kcenters_units():
    out = []
    for start in ('cold', 'warm'):
        for cfg in ('both', 'n', 'd', 'inf'):
            reg = CC.registry_kcenters(cfg, start)
            u = Unit('kcenters[%s,%s]' % (cfg, start), reg, keys=[CC.KC + 'kcenters'], axioms=CC.axioms,
                     mutants=MUT_LOOP if (cfg, start) == ('both', 'cold') else [])
            u.cfg, u.start = cfg, start
            out.append(u)
    return out


def payload_for(units):
    info = {u.name: u for u in units}

    def payload(f):
        u = info.get(f['unit'])
        fn = f['oid'].split('::')[1].split('/')[0].split('{')[0]
        key = [k for k in (u.registry if u else {}) if k.endswith('::' + fn)]
        return {'key': key[0] if key else fn, 'cfg': getattr(u, 'cfg', None), 'start': getattr(u, 'start', None),
                'inputs': f['model'], 'obligation': f['oid']}
    return payload
