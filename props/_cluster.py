"""shared unit definitions for the clustering properties"""
from pyvc.runner import Unit
from contracts import cluster as CC, ra_partition as RP

KCF, UTF = 'enspara/cluster/kcenters.py', 'enspara/cluster/util.py'
MUT_ITER = [('lt->le', KCF, "inds = (dist < distances)", "inds = (dist <= distances)"),
            ('drop-half', KCF, "(cc_dists[assignments] / 2)", "(cc_dists[assignments])"),
            ('argmin', KCF, "new_center_index = np.argmax(distances)\n    new_center = traj", "new_center_index = np.argmin(distances)\n    new_center = traj"),
            ('label+1', KCF, "assignments[inds] = len(center_inds)", "assignments[inds] = len(center_inds) + 1"),
            ('mask-flipped', KCF, "recompute_dists = distances > ", "recompute_dists = distances < ")]
MUT_LOOP = [('guard>=', KCF, "and (maxdist > dist_cutoff):", "and (maxdist >= dist_cutoff):"),
            ('guard<=', KCF, "while (len(ctr_inds) < n_clusters) and", "while (len(ctr_inds) <= n_clusters) and"),
            ('and->or', KCF, "(len(ctr_inds) < n_clusters) and (maxdist", "(len(ctr_inds) < n_clusters) or (maxdist"),
            ('centers-not-appended', KCF, "        centers.append(new_center)\n", "        pass\n")]
MUT_UTIL = [('no-dist-update', UTF, "            distances[inds] = dist[inds]\n            assignments[inds] = i", "            assignments[inds] = i"),
            ('le-in-assign', UTF, "            inds = (dist < distances)\n            distances[inds]", "            inds = (dist <= distances)\n            distances[inds]"),
            ('argmax-in-find', UTF, "ind = assigned_frames[np.argmin(distances[assigned_frames])]", "ind = assigned_frames[np.argmax(distances[assigned_frames])]"),
            ('where-ne', UTF, "assigned_frames = np.where(assignments == c)[0]", "assigned_frames = np.where(assignments != c)[0]")]


def core_unit():
    reg = CC.registry()
    return Unit('cluster-core', reg, axioms=CC.axioms, mutants=MUT_ITER[:3] + MUT_UTIL)


def iteration_unit():
    reg = {CC.KCentersIteration.key: CC.KCentersIteration()}
    return Unit('kcenters-iteration', reg, axioms=CC.axioms, mutants=MUT_ITER)


def util_unit():
    reg = {c.key: c for c in (CC.AssignToNearest(), CC.FindClusterCenters())}
    return Unit('assign+find', reg, axioms=CC.axioms, mutants=MUT_UTIL)


def kcenters_units():
    out = []
    for start in ('cold', 'warm'):
        for cfg in ('both', 'n', 'd', 'inf'):
            reg = CC.registry_kcenters(cfg, start)
            u = Unit('kcenters[%s,%s]' % (cfg, start), reg, keys=[CC.KC + 'kcenters'], axioms=CC.axioms,
                     mutants=MUT_LOOP if (cfg, start) == ('both', 'cold') else [],
                     budget=20 if start == 'warm' else None)     # the warm-start history obligations need ~4 s of instantiation on an idle machine
            u.cfg, u.start = cfg, start
            out.append(u)
    return out


def payload_for(units):
    info = {u.name: u for u in units}

    def payload(f):
        u = info.get(f['unit'])
        fn = f['oid'].split('::')[1].split('/')[0].split('{')[0]
        key = [k for k in (u.registry if u else {}) if k.endswith('::' + fn)]
        return {'key': key[0] if key else fn, 'cfg': getattr(u, 'cfg', None), 'start': getattr(u, 'start', None), 'proposals': getattr(u, 'proposals', None),
                'inputs': f['model'], 'obligation': f['oid']}
    return payload

from contracts import kmedoids as CK

KMF = 'enspara/cluster/kmedoids.py'
MUT_PAM = [('dropped-copy', KMF, "new_medoids = medoid_coords.copy()", "new_medoids = medoid_coords"),
           ('accept-reversed', KMF, "        if new_cost < old_cost:", "        if new_cost > old_cost:"),
           ('labels-without-distances', KMF, "            distances, assignments = new_dist, new_assig\n", "            assignments = new_assig\n"),
           # (dropping `& (assignments != cid)` from dst_up_assig_other is NOT a canary: the cells it adds are overwritten by the
           #  dst_up_assig_this stores below, the rewrite is equivalent - the thorough tier showed it verifying)
           ('ties-left-unassigned', KMF, "dst_up_assig_this = (distances <= new_ctr_dist) & (assignments == cid)", "dst_up_assig_this = (distances < new_ctr_dist) & (assignments == cid)"),
           ('index-before-decision', KMF, "        new_medoids[cid] = proposed_center\n", "        new_medoids[cid] = proposed_center\n        medoid_inds[cid] = proposed_center_ind\n")]


def kmedoids_units(exclude=()):
    out = []
    for mode in ('random', 'given'):
        reg = CK.registry(mode, exclude)
        u = Unit('pam-update[%s]' % mode, reg, keys=[CK.KM + '_kmedoids_pam_update'] + ([CK.KM + '_msq', CK.KM + '_propose_new_center_amongst'] if mode == 'random' else []),
                 axioms=CK.axioms, mutants=MUT_PAM if mode == 'random' else MUT_PAM[:1])
        u.proposals = mode
        out.append(u)
        u2 = Unit('kmedoids-iterations[%s]' % mode, reg, keys=[CK.KM + '_kmedoids_iterations'], axioms=CK.axioms)
        u2.proposals = mode
        out.append(u2)
    for cfg in ('both', 'n'):
        reg = CK.registry_hybrid(cfg, exclude)
        u = Unit('hybrid[%s]' % cfg, reg, keys=[CK.HY + 'hybrid'], axioms=CK.axioms,
                 mutants=[('hybrid-drops-kcenters-state', 'enspara/cluster/hybrid.py', "            X, distance_method, n_iters, cluster_center_inds, assignments,\n            distances, args=args", "            X, distance_method, n_iters, cluster_center_inds, assignments,\n            distances * 2, args=args")] if cfg == 'both' else [])
        u.cfg = cfg
        out.append(u)
    # the state the sweeps start from, for each form in which kmedoids() accepts it
    from contracts import kmedoids_inputs as KI
    KMF = 'enspara/cluster/kmedoids.py'
    mut = [('pair-offset-includes-own-trajectory', KMF, "        cluster_center_inds = [sum(X_lengths[:cluster_center_inds[i][0]]) \\\n", "        cluster_center_inds = [sum(X_lengths[:cluster_center_inds[i][0] + 1]) \\\n"),
           ('pair-frame-dropped', KMF, "                               + cluster_center_inds[i][1] for i in \\\n", "                               + 0 * cluster_center_inds[i][1] for i in \\\n")]
    for v in ('flat', 'pairs', 'inferred', 'labels-without-distances'):
        out.append(Unit('kmedoids-inputs[%s]' % v, KI.registry(v), keys=[KI.KM + '_kmedoids_inputs_tree'], mutants=(mut if v == 'pairs' else [])))
    return out
