"""C20 - rotamer assignment is a correct hysteresis state machine; transition bookkeeping."""
from pyvc.runner import Run, Unit, resolve_failures
from contracts import rotamer, disorder

HBS = {'chi': [0, 120, 240, 360], 'phi': [0, 180, 360], 'psi': [0, 160, 360]}
ROT = 'enspara/geometry/rotamer.py'
MUT = [('gate-inverted', ROT, 'if (not (lower_bound <= new_angle <= upper_bound)):', 'if (lower_bound <= new_angle <= upper_bound):'),
       ('wrap-unswapped', ROT, 'if (lower_bound == 0):\n        lower_bound = 360', 'if (lower_bound == 0):\n        lower_bound = 0'),
       ('digitize-off', ROT, 'cur_state = np.digitize(new_angle, hard_boundaries) - 1', 'cur_state = np.digitize(new_angle, hard_boundaries)'),
       ('buffer-sign', ROT, 'upper_bound += buffer_width', 'upper_bound -= buffer_width')]


def run(tier, seed, update_lock=False):
    R = Run('C20', 'proof', tier, seed)
    units = []
    for name, hb in HBS.items():
        u = Unit('rotamer[%s]' % name, rotamer.registry(hb), mutants=MUT if name == 'chi' else MUT[1:2])
        u.hb = hb
        units.append(u)
    u1 = Unit('transitions[1d]', {disorder.Transitions1D.key: disorder.Transitions1D()},
              mutants=[('where-on-equal', 'enspara/cards/disorder.py', 'tt = np.where(d != 0)[0]', 'tt = np.where(d == 0)[0]')])
    u2 = Unit('transitions[2d]', {disorder.Transitions2D.key: disorder.Transitions2D(exclude=R.excluded())})
    units += [u1, u2]
    for u in units:
        R.prove(u)
    for u in units:
        R.canary_check(u)
    R.conformance('C20.py', units, args=['--exclude=' + ','.join(R.excluded())])
    R.bounded('C20.py', 'run-time contracts on the real rotamer / transitions code',
              'sequences len<=3 over a 13-angle grid + seeded len<=12, 3 boundary sets, 13 buffer widths; transitions: all 1-D len<=5 over 3 states, all 2-D 0/1 arrays <=3x3',
              args=['--exclude=' + ','.join(R.excluded())])
    R.report_known('C20.py')
    hb_of = {u.name: getattr(u, 'hb', None) for u in units}

    def payload(f):
        key = f['oid'].split('::')[1].split('/')[0]
        return {'key': key, 'hb': hb_of.get(f['unit']), 'inputs': f['model'], 'obligation': f['oid']}
    resolve_failures(R, 'C20.py', payload)
    R.assumptions += ['angles are finite reals in [0,360) avoiding exact gate values (the property\'s quantifier)',
                      'np.digitize / np.where / np.bincount / ra.where obey their registered primitive contracts',
                      'RaggedArray(flat, lengths=) has one row per entry of lengths (constructor contract, C05)',
                      '2-D transitions: only "one row per trajectory" is proved; per-row content is bounded']
    return R.finish('Every clause of C20 is an SMT-discharged obligation on the real source: gates, exit test == not inside(widened basin), '
                    'hysteresis recursion S(t) as loop invariant for all n and all buffer widths, zero-buffer == binning, valid basin index, '
                    '1-D transition list sound/complete/increasing, 2-D one row per trajectory.', update_lock=update_lock)
