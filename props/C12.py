"""C12 - the reversible estimator is a true maximum-likelihood fixed point."""
from pyvc.runner import Run, resolve_failures


def run(tier, seed, update_lock=False):
    R = Run('C12', 'other', tier, seed)
    R.bounded('C12.py', 'run-time contracts on the real _prinz_mle_py, the compiled libmsm kernel and builders.mle',
              'strongly connected count matrices with 2..4 states: all 2x2 over {0,1,3}, strided 3x3 over {0,1,4}, seeded integer / real matrices; both implementations', timeout=3000)
    R.report_known('C12.py')
    resolve_failures(R, 'C12.py', lambda f: None)
    R.clauses = [{'clause': 'terminates with a model or a convergence warning, never an internal assertion failure', 'status': 'bounded'},
                 {'clause': 'Prinz self-consistency equations; likelihood >= transpose estimate and >= random reversible competitors', 'status': 'bounded (tolerance 1e-6 relative)'},
                 {'clause': 'compiled and pure-Python implementations agree', 'status': 'bounded'},
                 {'clause': 'global optimality / convergence of the floating-point fixed-point iteration', 'status': 'not decidable by this technique (DESIGN 9)'}]
    return R.finish('Bounded stand-in only in this run (deductive obligations for the update step are planned, DESIGN 4 C12).', update_lock=update_lock)
