"""C12 - the reversible estimator is a true maximum-likelihood fixed point."""
from pyvc.runner import Run, Unit, resolve_failures
from contracts import prinz as PZ

BPY, PYX = 'enspara/msm/builders.py', 'enspara/msm/libmsm.pyx'
MUT_PY = [('other-root', BPY, "                    v = (-b + np.sqrt((b**2) - (4*a*c))) / (2*a)", "                    v = (-b - np.sqrt((b**2) - (4*a*c))) / (2*a)"),
          ('conjugate-form-divides-by-zero', BPY, "                    v = (-b + np.sqrt((b**2) - (4*a*c))) / (2*a)", "                    v = (2*c) / (-b - np.sqrt((b**2) - (4*a*c)))"),
          ('asymmetric-write', BPY, "                X[i, j] = v\n                X[j, i] = v\n", "                X[i, j] = v\n"),
          ('wrong-discriminant', BPY, "np.sqrt((b**2) - (4*a*c))", "np.sqrt((b**2) - (2*a*c))")]
MUT_PYX = [('other-root', PYX, "                    v = (-b + sqrt((b*b) - (4*a*c))) / (2*a)", "                    v = (-b - sqrt((b*b) - (4*a*c))) / (2*a)"),
           ('coefficient-b-sign', PYX, "                    C_rs[j] * (X_rs[i] - X[i, j]) -\\\n", "                    C_rs[j] * (X_rs[i] - X[i, j]) +\\\n")]


def run(tier, seed, update_lock=False):
    R = Run('C12', 'other', tier, seed)
    units = [Unit('prinz[python]', PZ.registry('py'), mutants=MUT_PY), Unit('prinz[compiled]', PZ.registry('pyx'), mutants=MUT_PYX)]
    for u in units:
        R.prove(u)
    for u in units:
        R.canary_check(u)
    R.lemma('Sums.lean', 'finite sums: row total of non-negative entries >= each entry (ghost axiom of the Prinz contract); prefix sums of non-negative block widths are monotone, bounded by the total, every position lies in one block (trusted facts of the concatenation primitives)')
    R.bounded('C12.py', 'run-time contracts on the real _prinz_mle_py, the compiled libmsm kernel and builders.mle',
              'strongly connected count matrices with 2..4 states: all 2x2 over {0,1,3}, strided 3x3 over {0,1,4}, seeded integer / real matrices, scaled counts; both implementations', timeout=3000)
    R.report_known('C12.py')
    resolve_failures(R, 'C12.py', lambda f: None)
    R.clauses = [{'clause': 'every sweep of both implementations (same contract text on builders._prinz_mle_py and on the desugared libmsm._mle_prinz_dense): the iterate stays symmetric; each pair update writes X[i,j] = X[j,i] = v with coefficients a, b, c equal to Prinz\'s quadratic (restated from the paper), v a root of a v^2 + b v + c = 0, v >= 0, discriminant >= 0; the returned T is the row-normalised iterate and is in detailed balance with its row totals', 'status': 'proved in real arithmetic (SMT, non-linear; local proofs from named definitions)'},
                 {'clause': 'terminates with a model or a convergence warning, never an internal assertion failure', 'status': 'bounded (the assertions depend on floating-point running sums: left open in the contract as may_raise, never counted as proved)'},
                 {'clause': 'Prinz self-consistency equations at the returned point; likelihood >= transpose estimate and >= random reversible competitors', 'status': 'bounded (tolerance 1e-6 relative)'},
                 {'clause': 'compiled and pure-Python implementations agree', 'status': 'update step: proved equal by the shared contract; whole runs: bounded (the convergence tests use ln and log10 respectively)'},
                 {'clause': 'global optimality / convergence of the floating-point fixed-point iteration', 'status': 'not decidable by this technique (DESIGN 9)'}]
    R.assumptions += ['machine floating point treated as real arithmetic in the Prinz step proof; sqrt axiomatised by sqrt(x)^2 = x, sqrt(x) >= 0 for x >= 0; row total >= entry for non-negative rows is a ghost axiom whose statement is proved in lemmas/Sums.lean (entry_le_row_total)',
                      'absence of AssertionError / ZeroDivisionError inside the iteration is NOT proved (may_raise)']
    return R.finish('Deductive: the Prinz update step of both implementations. Bounded stand-in for termination, the fixed point and likelihood comparisons.', update_lock=update_lock)
