"""C16 - MSM estimator equals its function pipeline, round-trips, has a sound spectrum."""
from pyvc.runner import Run, Unit, resolve_failures
from contracts import msm

MF = 'enspara/msm/msm.py'
MUT = [('lag-dropped', MF, "        self.lag_time = lag_time\n", "        self.lag_time = 1\n"),
       ('trim-not-applied', MF, "            self.mapping_, tcounts = trim_disconnected(tcounts)", "            self.mapping_, _ = trim_disconnected(tcounts)"),
       ('state-count-dropped', MF, "            max_n_states=self.max_n_states,\n", "            max_n_states=None,\n")]


def run(tier, seed, update_lock=False):
    R = Run('C16', 'other', tier, seed)
    reg = msm.registry()
    u = Unit('msm-estimator', reg, keys=[msm.F + 'MSM.__init__', msm.F + 'MSM.fit', msm.F + 'MSM.config'], mutants=MUT)
    from contracts import spectrum as SP
    TMF = 'enspara/msm/transition_matrices.py'
    MUTS = [('ascending-order', TMF, "    order = np.argsort(-np.real(vals))", "    order = np.argsort(np.real(vals))"),
            ('wrong-side', TMF, "    T = T.T if left else T\n", "    T = T if left else T.T\n"),
            ('vectors-not-reordered', TMF, "    vecs = vecs[:, order]\n", "")]
    us = [Unit('eigenspectrum[left vectors, dense]', SP.registry(True), mutants=MUTS), Unit('eigenspectrum[right vectors, dense]', SP.registry(False))]
    for x in [u] + us:
        R.prove(x)
    for x in [u] + us:
        R.canary_check(x)
    R.bounded('C16.py', 'run-time contracts on the real MSM class, eigenspectrum, implied_timescales, synthetic_ensemble, save/load',
              'assignment sets 2 x 12..20 frames over 3-4 states, lags 1..3, 3 builders, trim / sliding / state-count options; spectral clauses on fitted ergodic matrices (dense, csr)')

    def payload(f):
        return {'key': msm.F + 'MSM.__init__', 'inputs': f['model'], 'obligation': f['oid']}
    resolve_failures(R, 'C16.py', payload)
    R.clauses = [{'clause': 'eigenspectrum (dense branch, LAPACK\'s eigen-decomposition assumed): the solver is given the transpose of T exactly when left eigenvectors are asked for; the returned values are the solver\'s in non-increasing order, cut to n_eigs; every returned column keeps its pairing with its value', 'status': 'proved (SMT on the real function)'},
                 {'clause': 'constructor stores every argument; config reports them', 'status': 'proved (SMT on the real MSM.__init__ / config)'},
                 {'clause': 'fit = builder(trim?(assigns_to_counts(assigns, lag, states, sliding))) with the stored configuration; mapping = trim mapping or identity', 'status': 'proved (pipeline functions uninterpreted: C03/C11/C04 say what they compute)'},
                 {'clause': 'save then load gives an equal model', 'status': 'bounded (real round trips through mmwrite/json/pickle)'},
                 {'clause': 'spectrum: real, descending, leading 1, left vector stationary; timescale = -lag/ln(lambda); n-step propagation = n multiplications', 'status': 'bounded (run-time contracts vs numpy.linalg); Perron-Frobenius assumed'}]
    R.assumptions += ['scipy eig/eigs, mmwrite/mmread, json, pickle are faithful', 'floating point compared with tolerances 1e-8..1e-12 in the bounded part']
    return R.finish('Deductive part: the estimator is the composition of the three functions on the constructor arguments. Spectral and disk round-trip clauses are bounded stand-ins.', update_lock=update_lock)
