"""C15 - stored and bulk-loaded data come back bit-identical."""
from pyvc.runner import Run, resolve_failures


def run(tier, seed, update_lock=False):
    R = Run('C15', 'other', tier, seed)
    R.bounded('C15.py', 'real save -> load round trips through PyTables; bulk trajectory loading through mdtraj + multiprocessing',
              'ragged / rectangular arrays 1..150 rows, 1-D and 2-D elements, 5 dtypes, strides 1..3, key subsets, compression 0/1/9; key order for row counts up to 20000; 5 synthetic trajectories x workers {1,2,4} x strides x atom selections x lengths hint',
              args=['--exclude=' + ','.join(R.excluded())], timeout=2400)
    R.report_known('C15.py')
    resolve_failures(R, 'C15.py', lambda f: None)
    R.clauses = [{'clause': 'save then load returns the same values, element type, row order and row lengths; stride / key subset = slicing the full load', 'status': 'bounded'},
                 {'clause': 'parallel bulk load = concatenation of the individual loads in file order, independent of the number of workers', 'status': 'bounded (1/2/4 workers; which worker finishes first is not controlled)'},
                 {'clause': 'window arithmetic (ceil-stride lengths, prefix-sum offsets, disjoint covering windows)', 'status': 'planned SMT obligations; partition arithmetic of the same shape is proved under C10'}]
    R.assumptions += ['PyTables, mdtraj and multiprocessing store / return bytes faithfully; list_nodes is name-sorted']
    return R.finish('Bounded stand-in (real round trips).', update_lock=update_lock)
