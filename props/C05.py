"""C05 - reading a ragged array equals reading the list of its rows."""
import itertools
from pyvc.runner import Run, Unit, resolve_failures
from contracts import ra_index as RI

RA = 'enspara/ra/ra.py'
MUT = [('error-check-lt', RA, "        if np.any(lengths[first_dimension] <= second_dimension):", "        if np.any(lengths[first_dimension] < second_dimension):"),
       ('flat-index-shifted', RA, "    iis_flat = starts[first_dimension] + second_dimension\n", "    iis_flat = starts[first_dimension] + second_dimension + 1\n"),
       ('caller-indices-aliased', RA, "iis_ragged\n    first_dimension = np.array(first_dimension)\n", "iis_ragged\n    first_dimension = np.asarray(first_dimension)\n"),
       ('negative-row-off-by-one', RA, "            first_dimension[first_dimension_neg_iis] += len(starts)\n", "            first_dimension[first_dimension_neg_iis] += len(starts) - 1\n"),
       ('negative-column-wrong-row', RA, "                    first_dimension[second_dimension_neg_iis]]", "                    second_dimension_neg_iis]")]
MUTS = [('negative-stop-off-by-one', RA, "    elif stop < 0:\n        stop = length+stop\n    step", "    elif stop < 0:\n        stop = length+stop+1\n    step")]


MUTI = [('stop-looked-up-by-position', RA, "    for num in first_dimension_iis:\n        splits_inds = np.arange(starts[num], stops[num], step)", "    for pos, num in enumerate(first_dimension_iis):\n        splits_inds = np.arange(starts[num], stops[pos], step)"),
        ('negative-start-not-from-row-end', RA, "        starts = np.maximum(lengths + start, 0)", "        starts = np.zeros(lengths.shape, dtype=int)"),
        ('negative-stop-off-by-one', RA, "        stops = lengths + stop\n", "        stops = lengths + stop + 1\n"),
        ('stop-not-clipped-to-row', RA, "    stops[iis_to_flat] = lengths[iis_to_flat]\n", "    pass\n"),
        ('row-ids-by-position', RA, "list(itertools.repeat(first_dimension_iis[i], iis_2d_lengths[i]))", "list(itertools.repeat(i, iis_2d_lengths[i]))")]
MUTI_NONE = [('lengths-clobbered', RA, "    if stop is None:\n        stops = lengths\n", "    if stop is None:\n        stops = lengths\n        stops[0] = stops[0] + 1\n")]
MUTL = [('product-swapped', RA, "list(itertools.product(first_dimension, second_dimension))", "list(itertools.product(second_dimension, first_dimension))")]


MUTG = [('out-of-row-check-dropped', RA, "                return self._data[\n                        _convert_from_2d(\n                            iis, lengths=self.lengths, starts=self.starts)]", "                return self._data[\n                        _convert_from_2d(\n                            iis, lengths=self.lengths, starts=self.starts, error_check=False)]"),
        ('starts-of-another-array', RA, "                return self._data[\n                        _convert_from_2d(\n                            iis, lengths=self.lengths, starts=self.starts)]", "                return self._data[\n                        _convert_from_2d(\n                            iis, lengths=self.lengths, starts=self.lengths)]")]
MUTG2 = [('result-keeps-the-old-lengths', RA, "            return RaggedArray(sliced_data, lengths=new_lengths)", "            return RaggedArray(sliced_data, lengths=self.lengths)")]


MUTG3 = [('row-slice-length-from-the-data', RA, "                first_dimension_iis = _slice_to_list(\n                    first_dimension, length=len(self.lengths))\n                # if the second dimension is a slice, determines the 2d indices\n                # from the lengths in the ragged dimension\n                if isinstance(second_dimension, slice):\n                    iis, new_lengths  = _get_iis_from_slices(", "                first_dimension_iis = _slice_to_list(\n                    first_dimension, length=len(self.lengths) - 1)\n                # if the second dimension is a slice, determines the 2d indices\n                # from the lengths in the ragged dimension\n                if isinstance(second_dimension, slice):\n                    iis, new_lengths  = _get_iis_from_slices(")]


MUTG4 = [('column-list-and-row-list-swapped', RA, "                else:\n                    iis, new_lengths = _get_iis_from_list(\n                        first_dimension_iis, second_dimension)", "                else:\n                    iis, new_lengths = _get_iis_from_list(\n                        second_dimension, first_dimension_iis)"),
         ('slice-list-read-skips-the-row-check', RA, "            sliced_data = self._data[\n                _convert_from_2d(\n                    iis, lengths=self.lengths, starts=self.starts)]", "            sliced_data = self._data[\n                _convert_from_2d(\n                    iis, lengths=self.lengths, starts=self.starts, error_check=False)]")]


def index_units(exclude=()):
    units = [Unit('ra-index', RI.registry(), mutants=MUT + MUTL)]
    units.append(Unit('ra-starts', RI.registry_starts(), mutants=[('starts-not-shifted', RA, "        return np.append([0], np.cumsum(self.lengths)[:-1])", "        return np.cumsum(self.lengths)")]))
    for v in itertools.product((False, True), repeat=3):
        name = 'ra-slice[%s]' % ','.join(k for k, isnone in zip(('start', 'stop', 'step'), v) if not isnone)
        units.append(Unit(name, RI.registry_slice(*v), mutants=(MUTS if v == (False, False, False) else ())))
    # the class method itself, composed from the helpers above (constructor of the result: assumed contract)
    units.append(Unit('ra-getitem[(rows, cols) paired]', RI.registry_getitem('paired', exclude=exclude), keys=[RI.F + 'RaggedArray.__getitem__'], mutants=MUTG, budget=20))
    units.append(Unit('ra-getitem[rows, lo:hi]', RI.registry_getitem('rows-slice', False, False, exclude=exclude), keys=[RI.F + 'RaggedArray.__getitem__'], mutants=MUTG2, budget=20))
    units.append(Unit('ra-getitem[rows, :]', RI.registry_getitem('rows-slice', True, True, exclude=exclude), keys=[RI.F + 'RaggedArray.__getitem__'], budget=20))
    units.append(Unit('ra-getitem[lo:hi, lo:hi]', RI.registry_getitem('slice-slice', False, False, exclude=exclude, row_none=(False, False)), keys=[RI.F + 'RaggedArray.__getitem__'], mutants=MUTG3, budget=20))
    units.append(Unit('ra-getitem[:, lo:hi]', RI.registry_getitem('slice-slice', False, False, exclude=exclude, row_none=(True, True)), keys=[RI.F + 'RaggedArray.__getitem__'], budget=20))
    units.append(Unit('ra-getitem[lo:hi, :]', RI.registry_getitem('slice-slice', True, True, exclude=exclude, row_none=(False, False)), keys=[RI.F + 'RaggedArray.__getitem__'], budget=20))
    # a[lo:hi, cols] / a[:, cols]: row slice x column list, through _get_iis_from_list and the (2, M) array form of _convert_from_2d
    units.append(Unit('ra-index[(2, M) pair array]', {c.key: c for c in (RI.HandleNegative(), RI.ConvertFrom2d(arr2d=True))}, keys=[RI.ConvertFrom2d.key], budget=15))
    units.append(Unit('ra-getitem[lo:hi, cols]', RI.registry_getitem_list((False, False), exclude=exclude), keys=[RI.F + 'RaggedArray.__getitem__'], mutants=MUTG4, budget=20))
    units.append(Unit('ra-getitem[:, cols]', RI.registry_getitem_list((True, True), exclude=exclude), keys=[RI.F + 'RaggedArray.__getitem__'], budget=20))
    # a[lo:hi, k] / a[:, k]: one integer column (the class hands the one-element list [k] to the same helpers)
    units.append(Unit('ra-getitem[lo:hi, k]', RI.registry_getitem_list((False, False), exclude=exclude, int_column=True), keys=[RI.F + 'RaggedArray.__getitem__'], budget=20,
                      mutants=[('integer-column-not-wrapped-per-row', RA, "                    iis, new_lengths = _get_iis_from_list(\n                        first_dimension_iis, [second_dimension])", "                    iis, new_lengths = _get_iis_from_list(\n                        first_dimension_iis, [second_dimension, second_dimension])")]))
    units.append(Unit('ra-getitem[:, k]', RI.registry_getitem_list((True, True), exclude=exclude, int_column=True), keys=[RI.F + 'RaggedArray.__getitem__'], budget=20))
    for v in itertools.product((False, True), repeat=3):
        name = 'ra-2d-slice[%s]' % ','.join(k for k, isnone in zip(('start', 'stop', 'step'), v) if not isnone)
        units.append(Unit(name, RI.registry_iis(*v, exclude=exclude), mutants=(MUTI if v == (False, False, False) else MUTI_NONE if v == (True, True, True) else ()), budget=15))
    return units


def run(tier, seed, update_lock=False):
    R = Run('C05', 'other', tier, seed)
    units = index_units(R.excluded())
    for u in units:
        R.prove(u)
    for u in units:
        R.canary_check(u)
    R.lemma('Sums.lean', 'row-major pair numbering (p*k+q < m*k; every position is the pair (t div k, t mod k): ghost axioms of the a[lo:hi, cols] contracts); finite sums: row total of non-negative entries >= each entry (ghost axiom of the Prinz contract); prefix sums of non-negative block widths are monotone, bounded by the total, every position lies in one block (trusted facts of the concatenation primitives)')
    R.conformance('ra.py', units, args=['--prop=C05', '--exclude=' + ','.join(R.excluded())])
    R.bounded('ra.py', 'run-time contract = the statement (list-of-rows model) on the real RaggedArray reads; the index helpers under their proved contracts',
              'ragged arrays <= 4 rows x length 1..4 (equal / unequal, 1-D and 2-D elements, nested-list and flat+lengths constructors); complete index grammar, bounds [-6,6], steps None/2/-1',
              args=['--prop=C05', '--exclude=' + ','.join(R.excluded())])
    R.report_known('ra.py')
    resolve_failures(R, 'ra.py', lambda f: None)
    R.clauses = [{'clause': 'RaggedArray.__getitem__ itself, against the list of rows row(t)[j] := _data[PS(t)+j]: a[(r, c)] with index arrays returns row(r\'_k)[c\'_k] for every pair and raises IndexError exactly when an element lies outside its row; a[rows, lo:hi], a[rows, :] with a row array and a[lo:hi, lo:hi], a[:, lo:hi], a[lo:hi, :] with a row slice return a ragged array whose p-th row is the Python slice of the p-th selected row (lengths, order and content)', 'status': 'proved (SMT on the real method, composed from the helper contracts; the constructor of the result is an ASSUMED contract exercised by the bounded driver)'},
                 {'clause': 'two-dimensional slices a[rows, lo:hi:step] (positive step; each None-ness variant of the slice): _get_iis_from_slices returns, for the p-th selected row, exactly the positions range(*slice(lo,hi,step).indices(lengths[rows[p]])) of that row - new_lengths[p] is their number, block p of the column indices lists them in order, the row index over block p is rows[p]; `lengths` is unchanged. _get_iis_from_list is the row-major cartesian product', 'status': 'proved (SMT on the real helpers; loop invariant + two induction lemmas about the block offsets)'},
                 {'clause': 'paired (row, column) indices: _convert_from_2d / _handle_negative_indices give flat[k] = starts[r\'] + c\' inside row r\' (never a neighbouring row), raise IndexError exactly when an element lies outside its row, and leave the caller\'s index arrays unchanged; _slice_to_list visits the rows Python slicing visits (bounds in [-n, n], positive step)', 'status': 'proved (SMT on the real helpers, symbolic lengths); RaggedArray.starts = prefix sums of the lengths (induction lemma), which is the helpers\' precondition'},
                 {'clause': 'every read in the index grammar equals the read of the list of rows; element access outside a row raises IndexError', 'status': 'bounded (exhaustive small scope); listed findings excluded by witness class'},
                 {'clause': 'index-arithmetic helpers (partition_list / partition_indices) ', 'status': 'proved under C10'}]
    R.assumptions += ['RaggedArray keeps two NumPy representations whose aliasing the executor does not model: class dispatch and constructor are bounded stand-ins',
                      'row indices outside [-n, n) and scalar (size-1) index arguments of the helpers are outside the proved preconditions (NumPy itself raises for the former; the latter are covered by the bounded driver only)']
    return R.finish('Deductive: the 2-D index conversion helpers. Bounded stand-in (model-based run-time contract) for the class itself.', update_lock=update_lock)
