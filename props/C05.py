"""C05 - reading a ragged array equals reading the list of its rows."""
from pyvc.runner import Run, resolve_failures


def run(tier, seed, update_lock=False):
    R = Run('C05', 'other', tier, seed)
    R.bounded('ra.py', 'run-time contract = the statement (list-of-rows model) on the real RaggedArray reads',
              'ragged arrays <= 4 rows x length 1..4 (equal / unequal, 1-D and 2-D elements, nested-list and flat+lengths constructors); complete index grammar, bounds [-6,6], steps None/2/-1',
              args=['--prop=C05', '--exclude=' + ','.join(R.excluded())])
    R.report_known('ra.py')
    resolve_failures(R, 'ra.py', lambda f: None)
    R.clauses = [{'clause': 'every read in the index grammar equals the read of the list of rows; element access outside a row raises IndexError', 'status': 'bounded (exhaustive small scope); listed findings excluded by witness class'},
                 {'clause': 'index-arithmetic helpers (partition_list / partition_indices) ', 'status': 'proved under C10'}]
    R.assumptions += ['RaggedArray keeps two NumPy representations whose aliasing the executor does not model: class dispatch and constructor are bounded stand-ins']
    return R.finish('Bounded stand-in (model-based run-time contract).', update_lock=update_lock)
