"""C17 - pathways are real, bottleneck-optimal and never over-explain the flux."""
from pyvc.runner import Run, resolve_failures


def run(tier, seed, update_lock=False):
    R = Run('C17', 'other', tier, seed)
    R.bounded('C17.py', 'run-time contracts (the statement, with exhaustive simple-path enumeration as the optimality oracle) on the real top_path / paths',
              '4-node digraphs over 3 weight levels (strided), seeded 5-6 node digraphs, conserved layered flows at scales 1 and 1e-9, re-relaxation graphs, both removal schemes, num_paths 1..2',
              args=['--exclude=' + ','.join(R.excluded())])
    R.report_known('C17.py')
    resolve_failures(R, 'C17.py', lambda f: None)
    R.clauses = [{'clause': 'every pathway is a simple source-to-sink path along positive residual edges whose reported flux is its smallest edge; top path has the largest bottleneck', 'status': 'bounded (exhaustive path enumeration on graphs <= 6 nodes); the inductive invariants of the search loop were checked by hand-encoded VCs in the design phase only'},
                 {'clause': 'successive fluxes never increase; sum <= source outflow (subtract scheme); reaches the requested fraction for conserved flows; num_paths respected; caller\'s matrix unchanged', 'status': 'bounded; bottleneck scheme over-explains: listed finding'}]
    return R.finish('Bounded stand-in. A full inductive proof of widest-path optimality over NumPy-vectorised relaxation is deliberately not attempted (DESIGN 9).', update_lock=update_lock)
