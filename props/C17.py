"""C17 - pathways are real, bottleneck-optimal and never over-explain the flux."""
from pyvc.runner import Run, Unit, resolve_failures
from contracts import tpt_path as TP, tpt_toppath as TTP

PF = 'enspara/tpt/path.py'
MUT_H = [('bottleneck-copy-dropped', PF, "    net_flux = copy.copy(net_flux)\n\n    bottleneck_ind = net_flux[path[:-1], path[1:]].argmin()\n", "    bottleneck_ind = net_flux[path[:-1], path[1:]].argmin()\n"),
         ('subtracts-the-largest-edge', PF, "net_flux[path[:-1], path[1:]].min()", "net_flux[path[:-1], path[1:]].max()"),
         ('removes-the-widest-edge', PF, "    net_flux = copy.copy(net_flux)\n\n    bottleneck_ind = net_flux[path[:-1], path[1:]].argmin()\n", "    net_flux = copy.copy(net_flux)\n\n    bottleneck_ind = net_flux[path[:-1], path[1:]].argmax()\n")]
MUT_T = [('own-width-not-applied', PF, "        new_fluxes[np.where(new_fluxes > min_fluxes[test_node])] = min_fluxes[test_node]\n", ""),
         ('zero-edges-followed', PF, "        neighbors = np.where(net_flux[test_node, :] > 0)[0]", "        neighbors = np.where(net_flux[test_node, :] >= 0)[0]"),
         ('visited-states-updated', PF, "(1 - visited[neighbors]) & (new_fluxes > min_fluxes[neighbors])", "(new_fluxes > min_fluxes[neighbors])"),
         ('path-not-reversed', PF, "    return np.array(top_path[::-1]), min_fluxes[top_path[0]]", "    return np.array(top_path), min_fluxes[top_path[0]]"),
         ('column-instead-of-row', PF, "        neighbors = np.where(net_flux[test_node, :] > 0)[0]", "        neighbors = np.where(net_flux[:, test_node] > 0)[0]")]
MUT_P = [('one-path-too-many', PF, "        if counter >= num_paths or expl_flux >= flux_cutoff:", "        if counter > num_paths or expl_flux >= flux_cutoff:"),
         ('caller-matrix-edited', PF, "    net_flux = copy.copy(net_flux)\n\n    paths = []", "    net_flux = np.asarray(net_flux)\n    net_flux[:, sources] = 0.0\n\n    paths = []"),
         ('infinite-flux-recorded', PF, "        if np.isinf(flux):\n            break\n", "")]


def run(tier, seed, update_lock=False):
    R = Run('C17', 'other', tier, seed)
    units = [Unit('top-path', TTP.registry(), mutants=MUT_T, budget=20), Unit('path-removal', TP.registry(), mutants=MUT_H),
             Unit('paths[subtract]', TP.registry_paths('subtract', False), keys=[TP.F + 'paths'], mutants=MUT_P),
             Unit('paths[bottleneck]', TP.registry_paths('bottleneck', False), keys=[TP.F + 'paths']),
             Unit('paths[subtract,unlimited]', TP.registry_paths('subtract', True), keys=[TP.F + 'paths'])]
    for u in units:
        R.prove(u)
    for u in units:
        R.canary_check(u)
    R.conformance('C17.py', units, args=['--exclude=' + ','.join(R.excluded())])
    R.bounded('C17.py', 'run-time contracts (the statement, with exhaustive simple-path enumeration as the optimality oracle) on the real top_path / paths',
              '4-node digraphs over 3 weight levels (strided), seeded 5-6 node digraphs, conserved layered flows at scales 1 and 1e-9, re-relaxation graphs, both removal schemes, num_paths 1..2',
              args=['--exclude=' + ','.join(R.excluded())])
    R.report_known('C17.py')
    resolve_failures(R, 'C17.py', lambda f: None)
    R.clauses = [{'clause': 'top_path (the widest-path search), partial correctness for any number of states: the returned nodes are states, no state twice, the path ends at a sink and (unless no sink was reached) starts at a source, every consecutive pair is an edge of positive flux, the reported flux is at most every edge of the path and attained on one of them (or +-inf), a finite flux is positive and comes with at least one edge', 'status': 'proved (SMT on the real top_path; loop invariants with two ghost variables: visit order, attainment witness). NOT proved: optimality (no wider path exists) and termination - bounded'},
                 {'clause': 'path removal: _remove_bottleneck zeroes exactly the first minimal edge of the path; _subtract_path_flux lowers every path edge by the bottleneck flux (nothing negative appears, a bottleneck edge becomes exactly 0); every other entry and the caller\'s matrix unchanged. paths(): one flux per path, never more paths than requested, every reported flux finite and positive, the working matrix stays finite, preconditions of the search and of the removal step hold at every call, caller\'s flux matrix unchanged', 'status': 'proved (SMT on the real helpers and the real paths loop, on top of top_path\'s proved contract)'},
                 {'clause': 'every pathway is a simple source-to-sink path along positive residual edges whose reported flux is its smallest edge; top path has the largest bottleneck', 'status': 'bounded (exhaustive path enumeration on graphs <= 6 nodes); the inductive invariants of the search loop were checked by hand-encoded VCs in the design phase only'},
                 {'clause': 'successive fluxes never increase; sum <= source outflow (subtract scheme); reaches the requested fraction for conserved flows; num_paths respected; caller\'s matrix unchanged', 'status': 'bounded; bottleneck scheme over-explains: listed finding'}]
    R.assumptions += ['termination of the search, of the backtracking walk and of the paths() loop is not proved; optimality of the path found (largest bottleneck) is only checked by the bounded driver against exhaustive path enumeration', 'np.inf is a real constant larger than every matrix entry (precondition: finite fluxes)']
    return R.finish('Deductive: top_path (partial correctness), path-removal helpers and the paths() loop. Bounded stand-in for the rest. A full inductive proof of widest-path optimality over NumPy-vectorised relaxation is deliberately not attempted (DESIGN 9).', update_lock=update_lock)
