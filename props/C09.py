"""C09 - k-medoids refinement never worsens the cost and keeps centres in the data."""
from pyvc.runner import Run, resolve_failures
from props import _cluster as K


def run(tier, seed, update_lock=False):
    R = Run('C09', 'proof', tier, seed)
    units = K.kmedoids_units(R.excluded()) + [K.util_unit()]      # the sweeps rely on assign_to_nearest_center / find_cluster_centers: their own obligations belong here too
    for u in units:
        R.prove(u)
    for u in units:
        R.canary_check(u)
    R.lemma('MsqMonotone.lean', 'mean of squares is monotone on point-wise ordered non-negative arrays (axiom MSQ-monotone of contracts/kmedoids.py)')
    R.bounded('kmedoids.py', 'run-time contracts on the real k-medoids / k-hybrid code and estimator classes',
              'data sets <= 7 points (+ outlier sets), every proposal tuple for K<=2, seeded random sweeps, n_iters 0..3, kmedoids()/hybrid()/estimators',
              args=['--exclude=' + ','.join(R.excluded()), '--prop=C09'])
    R.report_known('kmedoids.py')
    resolve_failures(R, 'kmedoids.py', K.payload_for(units))
    R.assumptions += ['metric callable obeys its contract; distinct data points; serial mode (mpi.size()==1): _msq is the plain mean of squares',
                      'random proposals: random_state.choice returns a member of the cluster (nondeterministic, every seed covered); reproducibility = no other nondeterministic primitive on the path',
                      'kmedoids() / estimator .fit glue (input tree, rng cold start) is covered by the bounded driver only',
                      'assign_to_nearest_center is row-wise, so its contract is lifted through the boolean mask X[mask] (DESIGN 2.5)']
    return R.finish('PAM update (random and arbitrary explicit proposals, incl. proposals equal to another centre): consistent state preserved, accept iff strictly lower cost with all four state '
                    'components replaced together, K fixed, every centre a frame; n sweeps: same by loop invariant; hybrid: k-centers state handed over unchanged, so cost(hybrid) <= cost(k-centers).',
                    update_lock=update_lock)
