"""C03 - transition counts equal the exact number of lagged state pairs."""
from pyvc.runner import Run, Unit, resolve_failures
from contracts import counts

TMF = 'enspara/msm/transition_matrices.py'
MUT = [('slice-shifted', TMF, "        end_states = assigns_1d[lag_time::1]", "        end_states = assigns_1d[lag_time+1::1]"),
       ('stride-start', TMF, "        start_states = assigns_1d[:-lag_time:lag_time]", "        start_states = assigns_1d[1:-lag_time:lag_time]"),
       ('stop-off-by-one', TMF, "        start_states = assigns_1d[:-lag_time:1]", "        start_states = assigns_1d[:-lag_time+1:1]")]


def run(tier, seed, update_lock=False):
    R = Run('C03', 'other', tier, seed)
    u = Unit('transitions-helper', counts.registry(), mutants=MUT)
    units = [u]
    MUTC = [('states-forced', TMF, "    if max_n_states is None:\n        max_n_states = np.concatenate(assigns).max() + 1\n", "    if max_n_states is None:\n        max_n_states = 1\n"),
            ('lag-not-passed', TMF, "            assign, lag_time=lag_time, sliding_window=sliding_window)", "            assign, lag_time=1, sliding_window=sliding_window)"),
            ('padding-kept', TMF, "    assigns = np.array([a[np.where(a != -1)] for a in assigns], dtype='O')", "    assigns = np.array([a[np.where(a != -2)] for a in assigns], dtype='O')"),
            ('two-per-pair', TMF, "    mat_data = np.ones(mat_coords.shape[1], dtype=int)", "    mat_data = np.ones(mat_coords.shape[1], dtype=int) + 1")]
    for explicit in (True, False):
        for sliding in (True, False):
            reg = counts.registry_counts(explicit, sliding)
            units.append(Unit('assigns_to_counts[states=%s,sliding=%s]' % ('explicit' if explicit else 'inferred', sliding), reg,
                              keys=[counts.F + 'assigns_to_counts'], budget=15,
                              mutants=(MUTC[1:] if (explicit, sliding) == (True, True) else MUTC[:1] if (explicit, sliding) == (False, True) else [])))
    for x in units:
        R.prove(x)
    for x in units[:4]:
        R.canary_check(x)
    R.lemma('Sums.lean', 'finite sums: row total of non-negative entries >= each entry (ghost axiom of the Prinz contract); prefix sums of non-negative block widths are monotone, bounded by the total, every position lies in one block (trusted facts of the concatenation primitives)')
    R.conformance('C03.py', units[:1])
    R.bounded('C03.py', 'run-time contract = the statement (brute-force pair count) on the real assigns_to_counts; relational clauses',
              'all trajectory sets <= 3 x length <= 4 over 3 states (strided in quick), lags 1..5, sliding on/off, padded/ragged/reordered/split, scale cases')

    def payload(f):
        return {'key': counts.TransitionsHelper.key, 'inputs': f['model'], 'obligation': f['oid']}
    resolve_failures(R, 'C03.py', payload)
    R.clauses = [{'clause': 'per-trajectory lagged slicing: number of pairs, start/end states, pairs inside the trajectory, all L>=0, lag>=1, both modes', 'status': 'proved (SMT, symbolic L and lag)'},
                 {'clause': 'assigns_to_counts on a -1-padded rectangular array (symbolic number of trajectories / frames / lag, explicit and inferred state count, sliding and strided): the coordinate list is, trajectory by trajectory, exactly the lagged pairs of the padding-free row (so no pair spans two trajectories), one unit count each, total = sum over trajectories, all coordinates inside the square (N,N) matrix', 'status': 'proved (SMT; ragged lists as templates over the comprehension index, skolem-lifted primitive contracts, prefix-sum facts of np.hstack trusted); entry(i,j) = number of coordinates equal to (i,j) is scipy\'s coo_matrix contract (trusted)'},
                 {'clause': 'same result for RaggedArray input, for reordered trajectories; additivity over trajectory sets; counts beyond 8/16-bit ranges', 'status': 'bounded (run-time contract = brute-force pair count)'}]
    R.assumptions += ['scipy.sparse.coo_matrix sums duplicate coordinates (entry = number of coordinate pairs)',
                      'RaggedArray input to assigns_to_counts (iteration over a RaggedArray yields its rows) is bounded only; NumPy integer arrays assumed not to wrap (the narrow-dtype seed C03-b is caught by the bounded scale cases only)']
    return R.finish('Proved: _transitions_helper (the lagged-pair arithmetic, incl. the non-linear strided case) and the composition in assigns_to_counts for rectangular padded input. Bounded: ragged input and the relational clauses, against the statement itself.',
                    update_lock=update_lock)
