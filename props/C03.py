"""C03 - transition counts equal the exact number of lagged state pairs."""
from pyvc.runner import Run, Unit, resolve_failures
from contracts import counts

TMF = 'enspara/msm/transition_matrices.py'
MUT = [('slice-shifted', TMF, "        end_states = assigns_1d[lag_time::1]", "        end_states = assigns_1d[lag_time+1::1]"),
       ('stride-start', TMF, "        start_states = assigns_1d[:-lag_time:lag_time]", "        start_states = assigns_1d[1:-lag_time:lag_time]"),
       ('stop-off-by-one', TMF, "        start_states = assigns_1d[:-lag_time:1]", "        start_states = assigns_1d[:-lag_time+1:1]")]


def run(tier, seed, update_lock=False):
    R = Run('C03', 'other', tier, seed)
    u = Unit('transitions-helper', counts.registry(), mutants=MUT)
    R.prove(u)
    R.canary_check(u)
    R.bounded('C03.py', 'run-time contract = the statement (brute-force pair count) on the real assigns_to_counts; relational clauses',
              'all trajectory sets <= 3 x length <= 4 over 3 states (strided in quick), lags 1..5, sliding on/off, padded/ragged/reordered/split, scale cases')

    def payload(f):
        return {'key': counts.TransitionsHelper.key, 'inputs': f['model'], 'obligation': f['oid']}
    resolve_failures(R, 'C03.py', payload)
    R.clauses = [{'clause': 'per-trajectory lagged slicing: number of pairs, start/end states, pairs inside the trajectory, all L>=0, lag>=1, both modes', 'status': 'proved (SMT, symbolic L and lag)'},
                 {'clause': 'assigns_to_counts: entry(i,j) = number of pairs; square with requested/observed states; total; raises on bad lag / 1-D input', 'status': 'bounded (run-time contract, exhaustive small scope + scale cases)'},
                 {'clause': 'no pair spans two trajectories; -1 padding ignored; ragged = padded = reordered; additive', 'status': 'bounded'}]
    R.assumptions += ['scipy.sparse.coo_matrix sums duplicate coordinates (entry = number of coordinate pairs)',
                      'assigns_to_counts builds object arrays of per-row arrays (ragged): outside the executor\'s array model, hence bounded']
    return R.finish('Proved: _transitions_helper (the lagged-pair arithmetic, incl. the non-linear strided case). Bounded: the composition in assigns_to_counts against the statement itself.',
                    update_lock=update_lock)
