"""C06 - ragged-array writes keep all views coherent over any operation history."""
from pyvc.runner import Run, resolve_failures


def run(tier, seed, update_lock=False):
    R = Run('C06', 'other', tier, seed)
    R.bounded('ra.py', 'run-time contract = list-of-rows model applied to every history; every observer after every step; operators; copy-never-aliases',
              'ragged arrays <= 4 rows x length 1..4; histories of <= 2 (quick) / 3 (thorough) operations over a 10-letter mutator alphabet (element, row, row-slice, 2-D slice, paired, mask, append, augmented add)',
              args=['--prop=C06', '--exclude=' + ','.join(R.excluded())])
    R.report_known('ra.py')
    resolve_failures(R, 'ra.py', lambda f: None)
    R.clauses = [{'clause': 'after every history every observer (rows, flat data, lengths, starts, element / column reads, reductions, comparisons) agrees with the model', 'status': 'bounded'},
                 {'clause': 'operators act element-wise, keep the row structure, return new objects, never alter operands; building by copy never aliases the caller\'s data', 'status': 'bounded'}]
    return R.finish('Bounded stand-in (model-based run-time contract over operation histories).', update_lock=update_lock)
