"""C06 - ragged-array writes keep all views coherent over any operation history."""
from pyvc.runner import Run, Unit, resolve_failures
from props.C05 import index_units


def run(tier, seed, update_lock=False):
    R = Run('C06', 'other', tier, seed)
    from contracts import ra_setitem as RS
    RA = 'enspara/ra/ra.py'
    MUTS = [('write-skips-the-row-check', RA, "                iis_1d = _convert_from_2d(\n                    iis, lengths=self.lengths, starts=self.starts)\n                # concatenates", "                iis_1d = _convert_from_2d(\n                    iis, lengths=self.lengths, starts=self.starts, error_check=False)\n                # concatenates"),
            ('extra-cell-written', RA, "                self._data[iis_1d] = value_1d\n                self._array = np.array(\n                    partition_list(self._data, self.lengths), dtype='O')\n                return", "                self._data[iis_1d] = value_1d\n                self._data[0] = value_1d\n                self._array = np.array(\n                    partition_list(self._data, self.lengths), dtype='O')\n                return")]
    set_unit = Unit('ra-setitem[(rows, cols) paired, scalar]', RS.registry(), keys=[RS.F + 'RaggedArray.__setitem__'], mutants=MUTS, budget=20)
    set_units = [set_unit,
                 Unit('ra-setitem[rows, lo:hi, scalar]', RS.registry_slice('rows-slice', False, False, {'ra-2d-slice-empty-row'}, (True, True)), keys=[RS.F + 'RaggedArray.__setitem__'], budget=40,
                      mutants=[('slice-write-skips-the-row-check', RA, "            iis_1d = _convert_from_2d(\n                iis, lengths=self.lengths, starts=self.starts)\n            if _is_iterable(value):", "            iis_1d = _convert_from_2d(\n                iis, lengths=self.lengths, starts=self.starts, error_check=False)\n            if _is_iterable(value):")]),
                 Unit('ra-setitem[:, :, scalar]', RS.registry_slice('slice-slice', True, True, {'ra-2d-slice-empty-row'}, (True, True)), keys=[RS.F + 'RaggedArray.__setitem__'], budget=40)]
    units = set_units + index_units(set(R.excluded()) | {'ra-2d-slice-empty-row'})     # (the empty-row TypeError is C05's listed finding; here it is a helper precondition)
    #      # every 2-D write computes its flat targets with the same helpers as the reads
    for u in units:
        R.prove(u)
    for u in units:
        R.canary_check(u)
    R.conformance('ra.py', units, args=['--prop=C06', '--exclude=' + ','.join(R.excluded())])
    R.bounded('ra.py', 'run-time contract = list-of-rows model applied to every history; every observer after every step; operators; copy-never-aliases',
              'ragged arrays <= 4 rows x length 1..4; histories of <= 2 (quick) / 3 (thorough) operations over a 10-letter mutator alphabet (element, row, row-slice, 2-D slice, paired, mask, append, augmented add)',
              args=['--prop=C06', '--exclude=' + ','.join(R.excluded())])
    R.report_known('ra.py')
    resolve_failures(R, 'ra.py', lambda f: None)
    R.clauses = [{'clause': 'RaggedArray.__setitem__ with a scalar value, against the list of rows, for paired (row, column) index arrays, for a[rows, lo:hi] = v with a row array and for a[:, :] = v: exactly the addressed cells of the flat data receive the value, every other cell keeps its value, the row lengths are unchanged, IndexError exactly when an element lies outside its row, re-partitioning never raises (flat data length = sum of lengths)', 'status': 'proved (SMT on the real method, composed from the helper contracts; the rebuilt object-array view is not modelled)'},
                 {'clause': 'the flat target of a paired (row, column) write lies inside the addressed row (never a neighbouring row\'s cell), out-of-row targets raise IndexError, the caller\'s index arrays are unchanged', 'status': 'proved (SMT on the real _convert_from_2d / _handle_negative_indices / _slice_to_list)'},
                 {'clause': 'after every history every observer (rows, flat data, lengths, starts, element / column reads, reductions, comparisons) agrees with the model', 'status': 'bounded'},
                 {'clause': 'operators act element-wise, keep the row structure, return new objects, never alter operands; building by copy never aliases the caller\'s data', 'status': 'bounded'}]
    return R.finish('Bounded stand-in (model-based run-time contract over operation histories).', update_lock=update_lock)
