"""Front end: read the real source files of /repo on every run, extract functions mechanically.

.py  : parsed by CPython's own `ast`.
.pyx : a mechanical *desugarer* (logical-line joining, then line rules) produces Python text that
       `ast` can parse; every token dropped is logged (and reported in the evidence).  Dropped
       things become obligations or named assumptions elsewhere (bounds checks for functions
       compiled with boundscheck(False), race obligations for prange loops, dtype classes).
"""
import ast, hashlib, os, re

REPO = os.environ.get('VERIF_REPO', '/repo')


class Module:
    def __init__(self, relpath, repo=None, text=None):
        self.relpath = relpath
        self.path = os.path.join(repo or REPO, relpath)
        self.text = open(self.path).read() if text is None else text
        self.drops = []
        self.prange_lines = []
        self.decorators = {}
        self.ctypes = {}
        if relpath.endswith('.pyx'):
            self.pytext = self.desugar(self.text)
        else:
            self.pytext = self.text
        self.parse_error = None
        try:
            self.tree = ast.parse(self.pytext)
        except SyntaxError as ex:
            # outside the desugarer's subset (e.g. C pointers): no function of this module binds to a contract;
            # the checks report the obligations as not generated (undecided unless the bounded driver finds a failing input)
            self.parse_error = 'line %s: %s' % (ex.lineno, ex.msg)
            self.tree = ast.parse('')
        self.funcs = {}
        self.classes = {}
        for n in self.tree.body:
            if isinstance(n, ast.FunctionDef):
                self.funcs[n.name] = n
            elif isinstance(n, ast.ClassDef):
                self.classes[n.name] = n
                for m in n.body:
                    if isinstance(m, ast.FunctionDef):
                        self.funcs['%s.%s' % (n.name, m.name)] = m
        self.imports = {}
        pkg = os.path.dirname(relpath)
        for n in ast.walk(self.tree):
            if isinstance(n, ast.ImportFrom) and n.level >= 1:
                base = pkg
                for _ in range(n.level - 1):
                    base = os.path.dirname(base)
                for a in n.names:
                    if n.module:
                        modpath = os.path.join(base, *n.module.split('.'))
                        self.imports[a.asname or a.name] = (modpath, a.name)       # from .mod import name
                    else:
                        self.imports[a.asname or a.name] = (os.path.join(base, a.name), None)   # from . import mod
        self.globals_const = {}
        for n in self.tree.body:
            if isinstance(n, ast.Assign) and len(n.targets) == 1 and isinstance(n.targets[0], ast.Name) \
                    and isinstance(n.value, ast.Constant) and isinstance(n.value.value, (int, float, bool)):
                self.globals_const[n.targets[0].id] = n.value.value

    def sha(self, qual):
        seg = ast.get_source_segment(self.pytext, self.funcs[qual]) or ''
        return hashlib.sha256(seg.encode()).hexdigest()[:16]

    def param_names(self, qual):
        a = self.funcs[qual].args
        return [x.arg for x in a.args] + [x.arg for x in a.kwonlyargs]

    # ------------------------------------------------------------------ .pyx desugarer
    CTYPES = r'(?:unsigned\s+)?(?:long\s+long|long|int|double|float|bint|Py_ssize_t|size_t|short|char|' \
             r'[A-Za-z_]+_T|[A-Za-z_]+_t|INTEGRAL_TYPE|FLOAT_TYPE|NUMERIC_TYPE)'

    def desugar(self, text):
        lines = text.split('\n')
        # 1. logical-line joining (open brackets)
        logical, buf, depth, start = [], '', 0, 0
        for k, ln in enumerate(lines):
            code = ln.split('#')[0] if '"' not in ln and "'" not in ln else ln
            if not buf:
                start = k
            buf = ((buf[:-1] if buf.rstrip().endswith('\\') else buf).rstrip('\\ ') + ' ' + ln.strip()) if buf else ln
            depth += sum(code.count(c) for c in '([{') - sum(code.count(c) for c in ')]}')
            if depth <= 0 and not code.rstrip().endswith('\\'):
                logical.append((start, buf))
                buf, depth = '', 0
                # keep line numbers aligned: pad with blank logical lines
                for _ in range(k - start):
                    logical.append((k, ''))
        out = []
        skip_indent = None
        cur_func = None
        for (k, ln) in logical:
            raw = ln
            ind = len(ln) - len(ln.lstrip())
            s = ln.strip()
            if skip_indent is not None:
                if s == '' or ind > skip_indent:
                    if s:
                        self.drops.append((k + 1, 'block line: ' + s))
                    out.append('')
                    continue
                skip_indent = None
            if s.startswith('#cython:') or s.startswith('# cython:'):
                self.drops.append((k + 1, s)); out.append(''); continue
            if re.match(r'(from\s+\S+\s+)?cimport\b', s) or s.startswith('cimport '):
                self.drops.append((k + 1, s)); out.append(''); continue
            if re.match(r'from\s+cython\.parallel\s+import', s) or re.match(r'from\s+libc', s):
                self.drops.append((k + 1, s)); out.append(''); continue
            if re.match(r'(ctypedef\s+fused|cdef\s+extern)\b.*:\s*$', s):
                self.drops.append((k + 1, s)); out.append(''); skip_indent = ind; continue
            if re.match(r'ctypedef\b', s):
                self.drops.append((k + 1, s)); out.append(''); continue
            if s.startswith('@cython.'):
                self.decorators.setdefault('__pending__', []).append(s)
                self.drops.append((k + 1, s)); out.append(''); continue
            m = re.match(r'(cp?def|def)\s+(?:inline\s+)?(?:' + self.CTYPES + r'\s+)?(\w+)\s*\((.*)\)\s*(nogil)?\s*:\s*$', s)
            if m and (s.startswith('def') or s.startswith('cdef') or s.startswith('cpdef')) and '(' in s:
                name, params = m.group(2), m.group(3)
                newp = []
                types = {}
                for p in self._split_params(params):
                    p0 = p.strip()
                    mm = re.match(r'(np\.ndarray\[[^\]]*\]|' + self.CTYPES + r'(?:\[[^\]]*\])?|[A-Za-z_][\w.]*(?:\[[^\]]*\])?)\s+(\w+)(\s*=.*)?$', p0)
                    if mm:
                        types[mm.group(2)] = mm.group(1)
                        newp.append(mm.group(2) + (mm.group(3) or ''))
                        self.drops.append((k + 1, 'param type: %s' % mm.group(1)))
                    else:
                        newp.append(p0)
                self.ctypes[name] = types
                self.decorators[name] = self.decorators.pop('__pending__', [])
                if m.group(1) != 'def':
                    self.drops.append((k + 1, '%s -> def (%s)' % (m.group(1), name)))
                if m.group(4):
                    self.drops.append((k + 1, 'nogil'))
                cur_func = name
                out.append(' ' * ind + 'def %s(%s):' % (name, ', '.join(newp)))
                continue
            m = re.match(r'cdef\s+(np\.ndarray\[[^\]]*\]|' + self.CTYPES + r'(?:\[[^\]]*\])?|[A-Za-z_][\w.]*(?:\[[^\]]*\])?)\s+(.*)$', s)
            if m:
                decl = m.group(2)
                self.drops.append((k + 1, 'cdef %s' % m.group(1)))
                parts = self._split_params(decl)
                keep = [p.strip() for p in parts if '=' in p]
                for p in parts:
                    nm = p.split('=')[0].strip()
                    self.ctypes.setdefault(cur_func, {})[nm] = m.group(1)
                if keep:
                    out.append(' ' * ind + '; '.join(keep))
                else:
                    out.append(' ' * ind + 'pass')
                continue
            if re.match(r'with\s+nogil\s*:', s):
                self.drops.append((k + 1, 'with nogil')); out.append(' ' * ind + 'if True:'); continue
            if 'prange(' in s:
                m = re.search(r'prange\((.*)\)\s*:', ln)
                args = self._split_params(m.group(1))
                pos = [a for a in args if '=' not in a]
                kws = [a.strip() for a in args if '=' in a]
                self.drops.append((k + 1, 'prange kwargs: ' + ', '.join(kws)))
                self.prange_lines.append(k + 1)
                ln = ln[:m.start()] + 'prange(%s):' % ', '.join(pos)
                out.append(ln)
                continue
            # C casts <type>expr
            ln2 = re.sub(r'<\s*' + self.CTYPES + r'\s*>', '', ln)
            if ln2 != ln:
                self.drops.append((k + 1, 'C cast'))
            out.append(ln2)
        return '\n'.join(out)

    @staticmethod
    def _split_params(s):
        parts, depth, cur = [], 0, ''
        for ch in s:
            if ch in '([{':
                depth += 1
            if ch in ')]}':
                depth -= 1
            if ch == ',' and depth == 0:
                parts.append(cur); cur = ''
            else:
                cur += ch
        if cur.strip():
            parts.append(cur)
        return parts


class Sources:
    """all modules a run touches; keys are 'enspara/x/y.py::qualname'"""
    def __init__(self, repo=None):
        self.repo = repo or REPO
        self.mods = {}

    def module(self, relpath):
        if relpath not in self.mods:
            self.mods[relpath] = Module(relpath, self.repo)
        return self.mods[relpath]

    def func(self, key):
        rel, q = key.split('::')
        m = self.module(rel)
        if q not in m.funcs:
            if m.parse_error:
                raise KeyError('%s could not be brought into the verified subset (%s)' % (rel, m.parse_error))
            raise KeyError('function %s not found in %s (renamed or removed?)' % (q, rel))
        return m.funcs[q]

    def param_names(self, key):
        rel, q = key.split('::')
        return self.module(rel).param_names(q)

    def sha(self, key):
        rel, q = key.split('::')
        return self.module(rel).sha(q)
