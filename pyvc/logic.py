"""Contract term language with two interpreters.

A contract clause is an ordinary Python function over a logic object ``L`` and wrapped values.
  * ``SymL``  (python3-vt, z3):   clauses build z3 terms  -> verification conditions
  * ``ConL``  (/venv python, numpy): clauses evaluate on the real function's arguments/results
                                    -> replay of counter-models and the *bounded* run-time stand-ins
so proof and replay check the same text.  This module must import without z3 and without numpy.
"""
import itertools

try:
    import z3
except Exception:       # concrete side (/venv/bin/python has no z3)
    z3 = None


class Arr:
    """Symbolic n-d array snapshot: z3 array term (n index sorts) + shape + element kind.
    Used both by the executor (heap cells hold Arr) and as the wrapped value seen by contracts."""
    __slots__ = ('term', 'shape', 'kind', 'init', 'meta')

    def __init__(self, term, shape, kind, init=None, meta=None):
        self.term = term
        self.shape = tuple(_z(s) for s in (shape if isinstance(shape, (tuple, list)) else (shape,)))
        self.kind = kind
        self.init = init          # None = every cell initialised; else z3 array (same indices) -> Bool
        self.meta = meta or {}

    @property
    def length(self):
        return self.shape[0]

    @property
    def ndim(self):
        return len(self.shape)

    def __getitem__(self, idx):
        if isinstance(self.term, tuple):          # list of tuples kept as parallel columns
            return tuple(z3.Select(t, _z(idx)) for t in self.term)
        ix = [_z(i) for i in idx] if isinstance(idx, tuple) else [_z(idx)]
        t = self.term
        if z3.is_quantifier(t) and t.is_lambda() and t.num_vars() == len(ix):
            return z3.substitute_vars(t.body(), *reversed(ix))      # beta-reduce point-wise arrays
        return z3.Select(t, *ix)

    def with_term(self, term, init='same'):
        return Arr(term, self.shape, self.kind, self.init if init == 'same' else init, self.meta)

    def __repr__(self):
        return 'Arr<%s%s>' % (self.kind, list(self.shape))


def _z(v):
    if z3 is None:
        return v
    if isinstance(v, bool):
        return z3.BoolVal(v)
    if isinstance(v, int):
        return z3.IntVal(v)
    if isinstance(v, float):
        if v == float('inf'):
            return INF()
        if v == float('-inf'):
            return -INF()
        return z3.RealVal(repr(v))
    return v


_INF = None


def INF():
    global _INF
    if _INF is None:
        _INF = z3.Real('INF')
    return _INF


_SORTS = {}


def sort_of(kind):
    if kind in _SORTS:
        return _SORTS[kind]
    if kind == 'int':
        s = z3.IntSort()
    elif kind == 'real':
        s = z3.RealSort()
    elif kind == 'bool':
        s = z3.BoolSort()
    else:
        s = z3.DeclareSort(kind.capitalize())
    _SORTS[kind] = s
    return s


class SymL:
    sym = True
    _n = itertools.count()

    def __init__(self):
        self.funcs = {}
        self.hints = []           # extra ground terms for index-set instantiation

    # --- connectives
    def b(self, x):
        if isinstance(x, bool):
            return z3.BoolVal(x)
        return x

    def And(self, *xs):
        xs = [self.b(x) for x in _flat(xs)]
        return z3.And(*xs) if xs else z3.BoolVal(True)

    def Or(self, *xs):
        xs = [self.b(x) for x in _flat(xs)]
        return z3.Or(*xs) if xs else z3.BoolVal(False)

    def Not(self, x):
        return z3.Not(self.b(x))

    def implies(self, a, b):
        return z3.Implies(self.b(a), self.b(b))

    def iff(self, a, b):
        return self.b(a) == self.b(b)

    def ite(self, c, a, b):
        if isinstance(c, bool):
            return _z(a) if c else _z(b)
        if z3.is_true(c):
            return _z(a)
        if z3.is_false(c):
            return _z(b)
        a, b = _z(a), _z(b)
        if z3.is_int(a) and z3.is_real(b):
            a = z3.ToReal(a)
        if z3.is_real(a) and z3.is_int(b):
            b = z3.ToReal(b)
        return z3.If(self.b(c), a, b)

    def between(self, lo, x, hi):
        """lo <= x < hi"""
        return z3.And(_z(lo) <= x, x < _z(hi))

    # --- quantifiers over index ranges
    def var(self, base='q', kind='int'):
        return z3.Const('%s!%d' % (base, next(self._n)), sort_of(kind))

    def forall(self, lo, hi, f, name='q'):
        i = self.var(name)
        return z3.ForAll([i], z3.Implies(z3.And(_z(lo) <= i, i < _z(hi)), self.b(f(i))))

    def forall2(self, r1, r2, f):
        i, j = self.var('q'), self.var('r')
        return z3.ForAll([i, j], z3.Implies(z3.And(_z(r1[0]) <= i, i < _z(r1[1]), _z(r2[0]) <= j, j < _z(r2[1])),
                                            self.b(f(i, j))))

    def forall_dep(self, lo, hi, width, f):
        """for all i in [lo, hi) and j in [0, width(i)): f(i, j)"""
        i, j = self.var('q'), self.var('r')
        return z3.ForAll([i, j], z3.Implies(z3.And(_z(lo) <= i, i < _z(hi), j >= 0, j < _z(width(i))), self.b(f(i, j))))

    def alen(self, lo, hi, step):
        """len(range(lo, hi, step)) for step >= 1 (ghost function ALEN; the conditional difference when step is 1)"""
        lo, hi, step = _z(lo), _z(hi), _z(step)
        if z3.is_int_value(step) and step.as_long() == 1:
            return z3.If(hi > lo, hi - lo, z3.IntVal(0))
        return z3.Function('ALEN', z3.IntSort(), z3.IntSort(), z3.IntSort(), z3.IntSort())(lo, hi, step)

    def alen_axioms(self):
        a, b, s = z3.Int('al!a'), z3.Int('al!b'), z3.Int('al!s')
        f = z3.Function('ALEN', z3.IntSort(), z3.IntSort(), z3.IntSort(), z3.IntSort())
        return [z3.ForAll([a, b, s], z3.Implies(s >= 1, z3.And(f(a, b, s) >= 0, z3.Implies(b <= a, f(a, b, s) == 0), z3.Implies(b > a, f(a, b, s) >= 1))),
                          patterns=[f(a, b, s)])]

    def forallN(self, ranges, f):
        vs = [self.var('q') for _ in ranges]
        g = [c for v, (lo, hi) in zip(vs, ranges) for c in (_z(lo) <= v, v < _z(hi))]
        return z3.ForAll(vs, z3.Implies(z3.And(*g), self.b(f(*vs))))

    def exists(self, lo, hi, f, name='e'):
        i = self.var(name)
        return z3.Exists([i], z3.And(_z(lo) <= i, i < _z(hi), self.b(f(i))))

    def exists2(self, r1, r2, f):
        i, j = self.var('e'), self.var('e')
        return z3.Exists([i, j], z3.And(_z(r1[0]) <= i, i < _z(r1[1]), _z(r2[0]) <= j, j < _z(r2[1]), self.b(f(i, j))))

    def forall_sort(self, kinds, f):
        vs = [self.var('x', k) for k in kinds]
        return z3.ForAll(vs, self.b(f(*vs)))

    # --- arrays / numbers
    def len(self, a):
        if isinstance(a, Arr):
            return a.shape[0]
        return len(a)

    def shape(self, a, k):
        return a.shape[k]

    def real(self, x):
        x = _z(x)
        return z3.ToReal(x) if z3.is_int(x) else x

    def req(self, a, b):
        return self.real(a) == self.real(b)

    def rle(self, a, b):
        return self.real(a) <= self.real(b)

    def rlt(self, a, b):
        return self.real(a) < self.real(b)

    def eq(self, a, b):
        return _z(a) == _z(b)

    abstract_mul = False

    def mul(self, a, b):
        """product of two symbolic integers/reals; an opaque function when the contract asks for term abstraction
        (the executor does the same for `*` in the code, so equal products stay syntactically equal)"""
        a, b = _z(a), _z(b)
        if z3.is_int_value(a) or z3.is_rational_value(a) or z3.is_int_value(b) or z3.is_rational_value(b) or not self.abstract_mul:
            return a * b
        if z3.is_int(a) and z3.is_int(b):
            return self.func('imul', 'int', 'int', 'int')(a, b)
        return self.func('mul', 'real', 'real', 'real')(self.real(a), self.real(b))

    def int_below(self, c, bound):
        """c < bound where bound may be +inf (an integer is always below +inf)"""
        b = _z(bound)
        if z3.eq(b, INF()):
            return z3.BoolVal(True)
        return _z(c) < b

    def min(self, a, b):
        a, b = _z(a), _z(b)
        return z3.If(a <= b, a, b)

    def max(self, a, b):
        a, b = _z(a), _z(b)
        return z3.If(a >= b, a, b)

    @property
    def inf(self):
        return INF()

    def is_none(self, x):
        return x is None or type(x).__name__ == 'NoneV'

    def func(self, name, *kinds):
        """uninterpreted (ghost) function; last kind is the range"""
        key = (name,) + kinds
        if key not in self.funcs:
            self.funcs[key] = z3.Function(name, *[sort_of(k) for k in kinds])
        return self.funcs[key]

    def hint(self, *terms):
        self.hints.extend(_z(t) for t in terms)

    def member(self, arr, x):
        """x occurs in the 1-d integer array arr"""
        k = z3.Int('k!mem')
        return z3.Exists([k], z3.And(k >= 0, k < arr.shape[0], z3.Select(arr.term, k) == _z(x)) if not (z3.is_quantifier(arr.term)) else
                         z3.And(k >= 0, k < arr.shape[0], arr[k] == _z(x)))

    def sum(self, a):
        """np.sum of an array as a ghost function of its term (same symbol the executor uses)"""
        k = a.kind if a.kind != 'bool' else 'int'
        f = z3.Function('SUM%d_%s' % (a.ndim, k), a.term.sort(), *([z3.IntSort()] * a.ndim), sort_of(k))
        return f(a.term, *a.shape)

    def range_parts(self, r):
        """(start, stop, step) of a range object"""
        return r[1], r[2], (r[3] if len(r) > 3 else 1)

    def rangesum(self, a, lo, hi):
        """sum(a[lo:hi]) as the ghost function the executor uses for sums of contiguous slices"""
        k = a.kind if a.kind != 'bool' else 'int'
        return z3.Function('RANGESUM_%s' % k, a.term.sort(), z3.IntSort(), z3.IntSort(), sort_of(k))(a.term, _z(lo), _z(hi))

    def rangesum_axioms(self, a):
        """the recurrence that defines partial sums from 0: S(0,0) = 0, S(0,t+1) = S(0,t) + a[t]"""
        n = a.shape[0]
        return [self.rangesum(a, 0, 0) == 0, self.forall(0, n, lambda t: self.rangesum(a, 0, t + 1) == self.rangesum(a, 0, t) + a[t])]

    def slice_is(self, piece, base, lo, n):
        """piece (element of a list of slices of `base`) is base[lo:lo+n]"""
        plo, pn = piece
        return z3.And(pn == _z(n), z3.Or(pn == 0, plo == _z(lo)))

    def same_array(self, a, b):
        """extensional equality of two array snapshots (shape and contents)"""
        cs = [x == y for x, y in zip(a.shape, b.shape)]
        if isinstance(a.term, tuple):
            return self.And(*cs, *[self.forall(0, a.shape[0], lambda i, x=x, y=y: z3.Select(x, i) == z3.Select(y, i)) for x, y in zip(a.term, b.term)])
        if z3.eq(a.term, b.term):
            return self.And(*cs)
        if a.ndim == 1:
            return self.And(*cs, self.forall(0, a.shape[0], lambda i: a[i] == b[i]))
        if a.ndim == 2:
            return self.And(*cs, self.forall2((0, a.shape[0]), (0, a.shape[1]), lambda i, j: a[i, j] == b[i, j]))
        return self.And(*cs, self.forallN([(0, s) for s in a.shape], lambda *ix: a[tuple(ix)] == b[tuple(ix)]))


class ConL:
    """concrete interpreter: plain Python / numpy values"""
    sym = False
    RTOL = 1e-9
    ATOL = 1e-12

    def __init__(self):
        self.impl = {}

    def b(self, x):
        return bool(x)

    def And(self, *xs):
        return all(bool(x) for x in _flat(xs))

    def Or(self, *xs):
        return any(bool(x) for x in _flat(xs))

    def Not(self, x):
        return not bool(x)

    def implies(self, a, b):
        return (not bool(a)) or bool(b)

    def iff(self, a, b):
        return bool(a) == bool(b)

    def ite(self, c, a, b):
        return a if bool(c) else b

    def between(self, lo, x, hi):
        return lo <= x < hi

    def forall(self, lo, hi, f, name='q'):
        return all(bool(f(i)) for i in range(int(lo), int(hi)))

    def forall2(self, r1, r2, f):
        return all(bool(f(i, j)) for i in range(int(r1[0]), int(r1[1])) for j in range(int(r2[0]), int(r2[1])))

    def forall_dep(self, lo, hi, width, f):
        return all(bool(f(i, j)) for i in range(int(lo), int(hi)) for j in range(int(width(i))))

    def alen(self, lo, hi, step):
        return len(range(int(lo), int(hi), int(step)))

    def alen_axioms(self):
        return []

    def forallN(self, ranges, f):
        return all(bool(f(*ix)) for ix in itertools.product(*[range(int(lo), int(hi)) for lo, hi in ranges]))

    def exists(self, lo, hi, f, name='e'):
        return any(bool(f(i)) for i in range(int(lo), int(hi)))

    def exists2(self, r1, r2, f):
        return any(bool(f(i, j)) for i in range(int(r1[0]), int(r1[1])) for j in range(int(r2[0]), int(r2[1])))

    def len(self, a):
        return len(a)

    def shape(self, a, k):
        return a.shape[k]

    def real(self, x):
        return float(x)

    def req(self, a, b):
        a, b = float(a), float(b)
        if a == b:
            return True
        if a in (float('inf'), float('-inf')) or b in (float('inf'), float('-inf')) or a != a or b != b:
            return False
        return abs(a - b) <= self.ATOL + self.RTOL * max(abs(a), abs(b))

    def rle(self, a, b):
        return float(a) <= float(b) or self.req(a, b)

    def rlt(self, a, b):
        return float(a) < float(b) and not self.req(a, b)

    def eq(self, a, b):
        return a == b

    def mul(self, a, b):
        return a * b

    def int_below(self, c, bound):
        return c < bound

    def min(self, a, b):
        return a if a <= b else b

    def max(self, a, b):
        return a if a >= b else b

    @property
    def inf(self):
        return float('inf')

    def is_none(self, x):
        return x is None

    def func(self, name, *kinds):
        return self.impl[name]

    def define(self, name, f):
        self.impl[name] = f

    def hint(self, *terms):
        pass

    def member(self, arr, x):
        return any(int(v) == int(x) for v in arr)

    def sum(self, a):
        import numpy as np
        return np.sum(a)

    def range_parts(self, r):
        return r.start, r.stop, r.step

    def rangesum(self, a, lo, hi):
        return sum(a[int(lo):int(hi)])

    def rangesum_axioms(self, a):
        return []

    def slice_is(self, piece, base, lo, n):
        import numpy as np
        lo, n = int(lo), int(n)
        return len(piece) == n and bool(np.array_equal(np.asarray(piece), np.asarray(base[lo:lo + n])))

    def same_array(self, a, b):
        import numpy as np
        a, b = np.asarray(a), np.asarray(b)
        return a.shape == b.shape and bool(np.array_equal(a, b))


def _flat(xs):
    for x in xs:
        if isinstance(x, (list, tuple)):
            yield from _flat(x)
        else:
            yield x
