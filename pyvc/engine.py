"""pyvc executor: symbolic execution of a Python function's AST against a contract -> VCs.

Reads the *real* source (parsed by pyvc.front), enumerates paths, uses loop invariants from the
sidecar contract, calls other functions by contract, and emits verification conditions.
See DESIGN.md section 2.  Runs under python3-vt (z3 only; no numpy).
"""
import ast, itertools, os
import z3
from .logic import Arr, SymL, sort_of, INF, _z


def _has_quant(t):
    seen, stack = set(), [t]
    while stack:
        x = stack.pop()
        if x.get_id() in seen:
            continue
        seen.add(x.get_id())
        if z3.is_quantifier(x):
            return True
        stack.extend(x.children())
    return False


class Unsupported(Exception):
    pass


class Ref:
    __slots__ = ('oid',)

    def __init__(self, oid):
        self.oid = oid

    def __repr__(self):
        return 'Ref(%d)' % self.oid


class Tup:
    def __init__(self, items):
        self.items = list(items)

    def __repr__(self):
        return 'Tup%r' % (self.items,)


class RecV:
    """record on the heap (self, ClusterResult, ...)"""
    def __init__(self, cls, fields):
        self.cls = cls
        self.fields = dict(fields)


class Func:
    def __init__(self, name, bound=None):
        self.name = name
        self.bound = bound


class NoneV:
    def __repr__(self):
        return 'NONE'


NONE = NoneV()


class Undef:
    def __repr__(self):
        return 'UNDEF'


UNDEF = Undef()


class Maybe:
    """local whose definedness is symbolic (assigned only inside a loop / branch)"""
    def __init__(self, defbit, val):
        self.defbit, self.val = defbit, val


class Slice:
    def __init__(self, lo, hi, step):
        self.lo, self.hi, self.step = lo, hi, step

    start = property(lambda self: self.lo)      # same attribute names as Python's slice (contracts are dual-interpreted)
    stop = property(lambda self: self.hi)


class MaskedSel:
    """X[mask]: compressed selection kept lazily as (full-length array snapshot, mask snapshot)"""
    def __init__(self, arr, mask):
        self.arr, self.mask = arr, mask


class RArr:
    """list of arrays of varying length (ragged): row(c) is the template array with the comprehension variable replaced by c"""
    def __init__(self, tmpl, cvar, n):
        self.tmpl, self.cvar, self.n = tmpl, cvar, _z(n)
        self.kind = tmpl.kind

    def row(self, c):
        c = _z(c)
        sub = lambda t: z3.substitute(t, (self.cvar, c))
        return Arr(sub(self.tmpl.term), tuple(sub(x) for x in self.tmpl.shape), self.tmpl.kind)

    @property
    def shape(self):
        return (self.n,)


class Metric:
    """a callable obeying the metric contract  out[i] = d(X[i], y)"""
    def __init__(self, fn):
        self.fn = fn


class Str:
    def __init__(self, s='<str>'):
        self.s = s


class KindTag:
    def __init__(self, kind):
        self.kind = kind


class Opaque:
    """a value the executor carries around but never inspects (rng, logger...)"""
    def __init__(self, tag):
        self.tag = tag


def is_sym(v):
    return isinstance(v, z3.ExprRef)


def to_z3(v):
    if isinstance(v, Maybe):
        v = v.val
    return _z(v)


def to_bool(v):
    if isinstance(v, bool):
        return v
    if is_sym(v):
        if z3.is_bool(v):
            return v
        return v != 0
    if isinstance(v, (int, float)):
        return v != 0
    if isinstance(v, NoneV):
        return False
    if isinstance(v, Tup):
        return len(v.items) > 0
    if isinstance(v, Str):
        return True
    raise Unsupported('truthiness of %r' % (v,))


class State:
    __slots__ = ('env', 'heap', 'pc', 'path', 'facts')

    def __init__(self):
        self.env = {}
        self.heap = {}
        self.pc = []
        self.path = []
        self.facts = {}       # named hypotheses (requires clauses, callee postconditions, cut facts)

    def copy(self):
        t = State()
        t.env = dict(self.env)
        t.heap = dict(self.heap)
        t.pc = list(self.pc)
        t.path = list(self.path)
        t.facts = dict(self.facts)
        return t


class VC:
    def __init__(self, oid, hyps, goal, note='', hints=(), line=None, path=()):
        self.oid, self.hyps, self.goal, self.note = oid, hyps, goal, note
        self.hints = list(hints)
        self.line = line
        self.path = tuple(path)


class View:
    """what invariants / postconditions see: wrapped current values of locals"""
    def __init__(self, eng, st, old=None, ghost=None):
        self._e, self._st, self.old, self.ghost = eng, st, old or {}, ghost

    def __getitem__(self, name):
        v = self._st.env.get(name, UNDEF)
        if v is UNDEF:
            raise Unsupported('contract reads unbound local %s' % name)
        return self._e.wrap(v, self._st)

    def __contains__(self, name):
        return self._st.env.get(name, UNDEF) is not UNDEF

    def get(self, name, default=None):
        return self[name] if name in self else default

    def raw(self, name):
        return self._st.env.get(name, UNDEF)

    def defined(self, name):
        v = self._st.env.get(name, UNDEF)
        if v is UNDEF:
            return z3.BoolVal(False)
        if isinstance(v, Maybe):
            return v.defbit
        return z3.BoolVal(True)

    def same_object(self, a, b):
        x, y = self._st.env.get(a), self._st.env.get(b)
        return isinstance(x, Ref) and isinstance(y, Ref) and x.oid == y.oid


class RecView:
    def __init__(self, eng, rec, st):
        object.__setattr__(self, '_x', (eng, rec, st))

    def __getattr__(self, k):
        eng, rec, st = self._x
        if k not in rec.fields:
            raise Unsupported('record has no field %s' % k)
        return eng.wrap(rec.fields[k], st)

    def has(self, k):
        return k in self._x[1].fields


class Engine:
    def __init__(self, src, registry, L=None, prims=None):
        """src: pyvc.front.Sources (parsed real source); registry: 'path::qualname' -> Contract"""
        self.src = src
        self.registry = registry
        self.L = L or SymL()
        self.prims = prims
        self.vcs = []
        self.axioms = []
        self.fresh_n = itertools.count(1)
        self.oid_n = itertools.count(1)
        self.notes = []
        self.unsupported = []
        self.reached = set()
        self.exits = []          # (function, kind, path condition, entry args, result / exception) of every exit path: conformance checks

    # ------------------------------------------------------------ helpers
    def fresh(self, base, kind_or_sort):
        """a fresh unknown; inside a point-wise comprehension it is a skolem function of the comprehension index"""
        s = sort_of(kind_or_sort) if isinstance(kind_or_sort, str) else kind_or_sort
        cv = getattr(self, 'comp_vars', [])
        if cv:
            f = z3.Function('%s!%d' % (base, next(self.fresh_n)), *[v.sort() for v in cv], s)
            return f(*cv)
        return z3.Const('%s!%d' % (base, next(self.fresh_n)), s)

    def fresh_fn(self, base, dom, rng):
        """a fresh skolem function (witness function of a primitive contract); also lifted over comprehension indices"""
        cv = getattr(self, 'comp_vars', [])
        f = z3.Function('%s!%d' % (base, next(self.fresh_n)), *[v.sort() for v in cv], *dom, rng)
        if cv:
            return lambda *a: f(*cv, *a)
        return f

    def new_obj(self, st, val):
        oid = next(self.oid_n)
        st.heap[oid] = val
        return Ref(oid)

    def arr_sort(self, kind, ndim=1):
        return z3.ArraySort(*([z3.IntSort()] * ndim + [sort_of(kind)]))

    def fresh_arr(self, st, base, kind, shape, init=None):
        shape = shape if isinstance(shape, (tuple, list)) else (shape,)
        return self.new_obj(st, Arr(self.fresh(base, self.arr_sort(kind, len(shape))), shape, kind, init))

    def lam(self, f, shape, kind):
        shape = shape if isinstance(shape, (tuple, list)) else (shape,)
        vs = [z3.Int('i!%d' % k) for k in range(len(shape))]
        body = _z(f(*vs))
        if kind == 'real' and z3.is_int(body):
            body = z3.ToReal(body)
        return Arr(z3.Lambda(vs, body), shape, kind)

    def deref(self, st, v):
        if isinstance(v, Maybe):
            v = v.val
        return st.heap[v.oid] if isinstance(v, Ref) else v

    def wrap(self, v, st):
        if isinstance(v, Maybe):
            v = v.val
        if isinstance(v, Ref):
            o = st.heap[v.oid]
            if isinstance(o, RecV):
                return RecView(self, o, st)
            return o
        if isinstance(v, Tup):
            return tuple(self.wrap(x, st) for x in v.items)
        if isinstance(v, NoneV):
            return None
        return v

    def num(self, v, kind):
        v = to_z3(v)
        if kind == 'real' and z3.is_int(v):
            return z3.RealVal(v.as_long()) if z3.is_int_value(v) else z3.ToReal(v)
        if kind == 'int' and z3.is_real(v):
            raise Unsupported('real stored into int array')
        if kind == 'real' and z3.is_bool(v):
            return z3.If(v, z3.RealVal(1), z3.RealVal(0))
        if kind == 'int' and z3.is_bool(v):
            return z3.If(v, z3.IntVal(1), z3.IntVal(0))
        return v

    # ------------------------------------------------------------ obligation ids
    def site(self, kind, node):
        txt = ast.unparse(node) if node is not None else ''
        txt = ' '.join(txt.split())
        if len(txt) > 60:
            txt = txt[:57] + '...'
        key = (kind, txt)
        occ = self.site_occ.setdefault(key, {})
        pos = (getattr(node, 'lineno', 0), getattr(node, 'col_offset', 0))
        if pos not in occ:
            # ordinal among same-text sites in source order is fixed up at the end (see finish_sites)
            occ[pos] = None
        return (kind, txt, pos)

    def emit(self, sid, st, goal, note='', node=None, clause=None, hyps=None):
        goal = _z(goal) if not isinstance(goal, bool) else z3.BoolVal(goal)
        if isinstance(sid, tuple):
            kind, txt, pos = sid
        else:
            kind, txt, pos = sid, '', (0, 0)
        self.vcs.append(VC((self.cur, kind, txt, pos, clause), list(st.pc) if hyps is None else list(hyps), goal, note,
                           hints=list(self.L.hints), line=pos[0], path=st.path))
        self.vcs[-1].local = hyps is not None        # a local proof: few, hand-picked hypotheses

    def finish_ids(self):
        """turn (func, kind, text, pos, clause) into stable string ids"""
        for vc in self.vcs:
            if isinstance(vc.oid, str):
                continue
            func, kind, txt, pos, clause = vc.oid
            if txt:
                occ = self.site_occ_all[func].get((kind, txt), {})
                order = sorted(occ)
                k = order.index(pos) + 1 if pos in occ else 1
                s = '%s/%s[%s]' % (func, kind, txt) + ('#%d' % k if len(order) > 1 else '')
            else:
                s = '%s/%s' % (func, kind)
            if clause:
                s += ':' + clause
            vc.oid = s

    # ------------------------------------------------------------ verify one function
    def verify(self, qualname, contract=None, variant=None):
        fn = self.src.func(qualname)
        self.cur_mod = self.src.module(qualname.split('::')[0])
        c = contract or self.registry[qualname]
        self.cur = qualname.split('::')[1]
        if variant:
            self.cur += '{%s}' % variant
        if not hasattr(self, 'site_occ_all'):
            self.site_occ_all = {}
        self.site_occ = self.site_occ_all.setdefault(self.cur, {})
        self.c = c
        self.fn = fn
        loops = sorted([m for m in ast.walk(fn) if isinstance(m, (ast.For, ast.While))],
                       key=lambda m: (m.lineno, m.col_offset))
        self.loop_ids = {id(n): k + 1 for k, n in enumerate(loops)}
        self.assign_ord = {}
        cnt_ = {}
        for a_ in sorted([m for m in ast.walk(fn) if isinstance(m, ast.Assign)], key=lambda m: (m.lineno, m.col_offset)):
            for t_ in a_.targets:
                for x_ in ast.walk(t_):
                    if isinstance(x_, ast.Name) and isinstance(x_.ctx, ast.Store):
                        cnt_[x_.id] = cnt_.get(x_.id, 0) + 1
                        self.assign_ord[(id(a_), x_.id)] = cnt_[x_.id]
        self.assigned = {m.id for m in ast.walk(fn) if isinstance(m, ast.Name) and isinstance(m.ctx, ast.Store)}
        self.param_names = [a.arg for a in fn.args.args] + [a.arg for a in fn.args.kwonlyargs]
        self.L.hints = []
        self.L.abstract_mul = bool(getattr(c, 'abstract_nonlinear', True))
        st = State()
        params = c.params(self, st)
        defaults = self._defaults(fn)
        for name in self.param_names:
            if name in params:
                st.env[name] = params[name]
            elif name in defaults:
                (st2, v), = list(self.eval(defaults[name], st))
                st.env[name] = v
            else:
                raise Unsupported('contract gives no value for parameter %s of %s' % (name, qualname))
        for o in list(st.heap.values()):
            if isinstance(o, Arr):
                for sdim in o.shape:
                    if not z3.is_int_value(sdim):
                        st.pc.append(sdim >= 0)       # array extents are non-negative
        self.entry_env = dict(st.env)
        self.entry_st = st.copy()
        A = {n: self.wrap(v, st) for n, v in st.env.items()}
        self.A = A
        self.ghost, gax = c.ghost(self.L, A) if hasattr(c, 'ghost') else (None, [])
        for g in gax:
            st.pc.append(g)
        for name, p in c.requires(self.L, A, self.ghost):
            st.pc.append(_z(p))
            st.facts['pre:' + name] = _z(p)
        for nm, base, step, concl in self.lemma_terms(c, A, self.ghost):
            self.emit('lemma', st, base, clause=nm + '.base')
            self.emit('lemma', st, step, clause=nm + '.step')
        for nm, base, step, concl in self.lemma_terms(c, A, self.ghost):
            st.pc.append(concl)
            st.facts['lemma:' + nm] = concl
        self.pre_pc = list(st.pc)
        self.pre_axioms = list(gax)
        n_before = len(self.vcs)
        try:
            for kind, st2, val in self.exec_block(fn.body, st):
                self.at_exit(kind, st2, val, c, A)
        except Unsupported as u:
            self.unsupported.append((self.cur, str(u)))
        return self.vcs[n_before:]

    def lemma_terms(self, c, A, ghost):
        """induction lemmas declared by a contract: (name, base VC, step VC, conclusion)"""
        L = self.L
        out = []
        for lem in (c.lemmas(L, A, ghost) if hasattr(c, 'lemmas') else []):
            out.append(self.lemma_term(lem))
        return out

    def lemma_term(self, lem):
        L = self.L
        out = []
        if True:
            lo, hi, P = _z(lem['lo']), _z(lem['hi']), lem['P']
            t = L.var('t')
            if lem.get('down'):
                base = z3.Implies(lo <= hi, _z(P(hi)))
                step = z3.ForAll([t], z3.Implies(z3.And(lo <= t, t < hi, _z(P(t + 1))), _z(P(t))))
            else:
                base = z3.Implies(lo <= hi, _z(P(lo)))
                step = z3.ForAll([t], z3.Implies(z3.And(lo <= t, t < hi, _z(P(t))), _z(P(t + 1))))
            concl = z3.ForAll([t], z3.Implies(z3.And(lo <= t, t <= hi), _z(P(t))))
            return (lem['name'], base, step, concl)

    def apply_cut(self, name, fn, st):
        """mid-function induction lemmas (contract `cuts`): proved here from the current path facts, then assumed"""
        L = self.L
        V = View(self, st, old=self.A, ghost=self.ghost)
        st = st.copy()
        concls = []
        for lem in fn(L, V):
            hy = None
            if lem.get('using') is not None:
                missing = [u for u in lem['using'] if u not in st.facts]
                if missing:
                    raise Unsupported('cut lemma %s uses unknown facts %s (known: %s)' % (lem['name'], missing, sorted(st.facts)[:40]))
                hy = list(self.pre_axioms) + [st.facts[u] for u in lem['using']]
            if 'P' in lem:
                lo, hi, P = _z(lem['lo']), _z(lem['hi']), lem['P']
                t = L.var('t')
                if lem.get('down'):
                    base = z3.Implies(lo <= hi, _z(P(hi)))
                    step = z3.ForAll([t], z3.Implies(z3.And(lo <= t, t < hi, _z(P(t + 1))), _z(P(t))))
                else:
                    base = z3.Implies(lo <= hi, _z(P(lo)))
                    step = z3.ForAll([t], z3.Implies(z3.And(lo <= t, t < hi, _z(P(t))), _z(P(t + 1))))
                self.emit('cut[%s]' % name, st, base, clause=lem['name'] + '.base', hyps=hy)
                self.emit('cut[%s]' % name, st, step, clause=lem['name'] + '.step', hyps=hy)
                concl = z3.ForAll([t], z3.Implies(z3.And(lo <= t, t <= hi), _z(P(t))))
            else:       # plain intermediate assertion: proved, then assumed
                concl = _z(lem['fact'])
                self.emit('cut[%s]' % name, st, concl, clause=lem['name'], hyps=hy)
            st.pc.append(concl)
            st.facts['cut:' + lem['name']] = concl
        return st

    def _defaults(self, fn):
        a = fn.args
        out = {}
        pos = a.args
        for arg, d in zip(pos[len(pos) - len(a.defaults):], a.defaults):
            out[arg.arg] = d
        for arg, d in zip(a.kwonlyargs, a.kw_defaults):
            if d is not None:
                out[arg.arg] = d
        return out

    def at_exit(self, kind, st, val, c, A):
        L = self.L
        if kind in ('return', 'fall'):
            if kind == 'fall':
                val = NONE
            self.reached.add((self.cur, 'return'))
            N = {n: self.wrap(self.entry_env[n], st) for n in self.entry_env}
            R = self.wrap(val, st)
            self.exits.append((self.cur, 'return', list(st.pc), A, R, list(self.pre_pc)))
            V = View(self, st, old=A, ghost=self.ghost)
            if hasattr(c, 'exit_lemmas'):
                # induction lemmas about the exit state: base and step are obligations, the conclusion is then available to the postconditions
                lems = [self.lemma_term(lem) for lem in c.exit_lemmas(L, A, R, self.ghost, V)]
                for nm, base, step, concl in lems:
                    self.emit('lemma', st, base, clause=nm + '.base')
                    self.emit('lemma', st, step, clause=nm + '.step')
                if lems:
                    st = st.copy()
                    st.pc = st.pc + [concl for _, _, _, concl in lems]
                    st.facts = dict(st.facts)
                    for nm, _, _, concl in lems:
                        st.facts['lemma:' + nm] = concl
            if os.environ.get('VERIF_DEBUG_FACTS'):
                print('FACTS at exit of %s: %s' % (self.cur, sorted(st.facts)))
            for clause_ in c.ensures(L, A, N, R, self.ghost, V):
                name, g = clause_[0], clause_[1]
                hy = None
                if len(clause_) > 2 and clause_[2] is not None and L.sym:
                    # local proof of a postcondition from named facts only (plus the ghost axioms)
                    missing = [u for u in clause_[2] if u not in st.facts]
                    if missing:
                        raise Unsupported('postcondition %s uses unknown facts %s (known: %s)' % (name, missing, sorted(st.facts)[:60]))
                    hy = list(self.pre_axioms) + [st.facts[u] for u in clause_[2]]
                self.emit('post', st, g, clause=name, hyps=hy)
            for exc, cond in (c.raises(L, A, self.ghost) or {}).items():
                self.emit('post', st, L.Not(cond), clause='must-raise-%s' % exc)
            mods = set(c.modifies)
            frame_items = []
            for n, v in self.entry_env.items():
                frame_items.append((n, v))
                if isinstance(v, Tup):
                    frame_items += [('%s[%d]' % (n, k), x) for k, x in enumerate(v.items)]
            for n, v in frame_items:
                if isinstance(v, Ref) and n.split('[')[0] not in mods and isinstance(self.entry_st.heap[v.oid], Arr):
                    a0, a1 = self.entry_st.heap[v.oid], st.heap[v.oid]
                    if a0 is a1 or (not isinstance(a0.term, tuple) and z3.eq(a0.term, a1.term) and all(z3.eq(x, y) for x, y in zip(a0.shape, a1.shape))):
                        continue       # syntactically untouched: no VC needed
                    self.emit('frame', st, L.same_array(a0, a1), clause=n)
        elif kind == 'raise':
            exc = val
            self.reached.add((self.cur, 'raise:' + str(exc)))
            self.exits.append((self.cur, 'raise', list(st.pc), A, str(exc), list(self.pre_pc)))
            V = View(self, st, old=A, ghost=self.ghost)
            allowed = c.raises(L, A, self.ghost) if hasattr(c, 'raises') else {}
            if exc in getattr(c, 'may_raise', ()):
                pass        # the contract leaves open when this exception occurs (reported as an unproved absence, never as proved)
            elif exc in allowed:
                self.emit('raises', st, allowed[exc], clause=str(exc), node=None)
            else:
                self.emit('raises', st, z3.BoolVal(False), clause='unexpected-' + str(exc))
        else:
            raise Unsupported('%s outside loop' % kind)

    # ------------------------------------------------------------ statements
    def exec_block(self, stmts, st):
        if not stmts:
            yield ('fall', st, None)
            return
        head, rest = stmts[0], stmts[1:]
        for kind, st2, val in self.exec_stmt(head, st):
            if kind == 'fall':
                yield from self.exec_block(rest, st2)
            else:
                yield (kind, st2, val)

    def split(self, st, cond, node=None):
        c = to_bool(cond)
        if isinstance(c, bool):
            yield st, c
            return
        c = z3.simplify(c)
        if z3.is_true(c):
            yield st, True
            return
        if z3.is_false(c):
            yield st, False
            return
        tag = getattr(node, 'lineno', 0)
        prune = getattr(self.c, 'prune_paths', False)
        if not (prune and self.infeasible(st, c)):
            a = st.copy(); a.pc.append(c); a.path.append((tag, True)); yield a, True
        if not (prune and self.infeasible(st, z3.Not(c))):
            b = st.copy(); b.pc.append(z3.Not(c)); b.path.append((tag, False)); yield b, False

    def infeasible(self, st, c):
        """contracts with prune_paths: a branch whose condition contradicts the quantifier-free part of the path
        condition is not executed (sound: only definitely unsatisfiable branches are dropped; `unknown` keeps the branch)"""
        s = z3.Solver()
        s.set('timeout', 400)
        for p in st.pc:
            if not _has_quant(p):
                s.add(p)
        s.add(c)
        return s.check() == z3.unsat

    def exec_stmt(self, n, st):
        self.cur_line = getattr(n, 'lineno', 0)
        if isinstance(n, ast.Expr):
            if isinstance(n.value, ast.Constant):
                yield ('fall', st, None)
                return
            for st2, v in self.eval(n.value, st):
                yield ('fall', st2, None)
        elif isinstance(n, ast.Assign):
            for st2, v in self.eval(n.value, st):
                for tgt in n.targets:
                    st2 = self.assign(tgt, v, st2)
                cuts = getattr(self.c, 'cuts', {})
                if cuts:
                    for tgt in n.targets:
                        for nm in [x.id for x in ast.walk(tgt) if isinstance(x, ast.Name) and isinstance(x.ctx, ast.Store)]:
                            key = nm if self.assign_ord.get((id(n), nm), 1) == 1 else '%s#%d' % (nm, self.assign_ord[(id(n), nm)])
                            if key in cuts:
                                st2 = self.apply_cut(key, cuts[key], st2)
                    rhs = ast.unparse(n.value)
                    for key in cuts:
                        if key.startswith('call:') and key[5:] + '(' in rhs.replace('\n', ''):
                            st2 = self.apply_cut(key[5:], cuts[key], st2)
                yield ('fall', st2, None)
        elif isinstance(n, ast.AugAssign):
            load = ast.copy_location(ast.BinOp(left=self.as_load(n.target), op=n.op, right=n.value), n)
            ast.fix_missing_locations(load)
            for st2, v in self.eval(load, st):
                cur = st2.env.get(n.target.id, UNDEF) if isinstance(n.target, ast.Name) else None
                if isinstance(cur, Maybe):
                    cur = cur.val
                if isinstance(cur, Ref) and isinstance(st2.heap.get(cur.oid), Arr) and not st2.heap[cur.oid].meta.get('list') \
                        and isinstance(v, Ref) and isinstance(st2.heap.get(v.oid), Arr):
                    # ndarray `a op= b` works in place: the object the name refers to changes, the name is not rebound
                    st3 = st2.copy()
                    new = st3.heap[v.oid]
                    old = st3.heap[cur.oid]
                    st3.heap[cur.oid] = Arr(new.term, new.shape, old.kind if old.kind == new.kind else new.kind, new.init, old.meta)
                    yield ('fall', st3, None)
                    continue
                yield ('fall', self.assign(n.target, v, st2, aug=True), None)
        elif isinstance(n, ast.If):
            for st1, c in self.eval(n.test, st):
                for st2, truth in self.split(st1, c, n):
                    yield from self.exec_block(n.body if truth else n.orelse, st2)
        elif isinstance(n, ast.Return):
            if n.value is None:
                yield ('return', st, NONE)
                return
            for st2, v in self.eval(n.value, st):
                yield ('return', st2, v)
        elif isinstance(n, ast.Raise):
            e = n.exc
            name = ast.unparse(e.func) if isinstance(e, ast.Call) else (ast.unparse(e) if e is not None else 'reraise')
            name = name.split('.')[-1]
            # argument expressions of the exception are evaluated (definedness)
            st1 = st
            if isinstance(e, ast.Call):
                for a in e.args:
                    for st1, _ in self.eval(a, st1):
                        break
            yield ('raise', st1, name)
        elif isinstance(n, ast.Assert) and getattr(self.c, 'asserts_raise', False):
            # validation by assert: a failing assertion is a rejection of the input (AssertionError), not a defect
            for st1, c in self.eval(n.test, st):
                for st2, truth in self.split(st1, c, n):
                    if truth:
                        yield ('fall', st2, None)
                    else:
                        yield ('raise', st2, 'AssertionError')
        elif isinstance(n, ast.Assert):
            for st2, c in self.eval(n.test, st):
                g = _z(to_bool(c)) if not isinstance(to_bool(c), bool) else z3.BoolVal(to_bool(c))
                self.emit(self.site('assert', n.test), st2, g)
                st2 = st2.copy()
                st2.pc.append(g)
                yield ('fall', st2, None)
        elif isinstance(n, ast.Break):
            yield ('break', st, None)
        elif isinstance(n, ast.Continue):
            yield ('continue', st, None)
        elif isinstance(n, ast.Pass):
            yield ('fall', st, None)
        elif isinstance(n, ast.For):
            yield from self.exec_for(n, st)
        elif isinstance(n, ast.While):
            yield from self.exec_while(n, st)
        elif isinstance(n, ast.With):
            st1 = st
            for item in n.items:
                for st1, _ in self.eval(item.context_expr, st1):
                    break
            yield from self.exec_block(n.body, st1)
        elif isinstance(n, ast.Delete):
            st = st.copy()
            for t in n.targets:
                if isinstance(t, ast.Name):
                    st.env[t.id] = UNDEF
                else:
                    raise Unsupported('del of non-name')
            yield ('fall', st, None)
        elif isinstance(n, (ast.Import, ast.ImportFrom, ast.Global)):
            yield ('fall', st, None)
        elif isinstance(n, ast.Try):
            yield from self.exec_try(n, st)
        else:
            raise Unsupported('statement %s at line %d' % (type(n).__name__, n.lineno))

    def exec_try(self, n, st):
        # supported shape: body that may raise via contract-known raises; handlers by exception name
        for kind, st2, val in self.exec_block(n.body, st):
            if kind == 'raise':
                handled = False
                for h in n.handlers:
                    names = []
                    if h.type is None:
                        names = [val]
                    elif isinstance(h.type, ast.Tuple):
                        names = [ast.unparse(e).split('.')[-1] for e in h.type.elts]
                    else:
                        names = [ast.unparse(h.type).split('.')[-1]]
                    if val in names or 'Exception' in names:
                        handled = True
                        st3 = st2.copy()
                        if h.name:
                            st3.env[h.name] = Opaque('exc')
                        yield from self.exec_block(h.body, st3)
                        break
                if not handled:
                    yield (kind, st2, val)
            elif kind == 'fall':
                yield from self.exec_block(n.orelse + n.finalbody, st2)
            else:
                yield (kind, st2, val)

    def as_load(self, t):
        t2 = ast.parse(ast.unparse(t), mode='eval').body
        for x in ast.walk(t2):
            if hasattr(x, 'lineno'):
                x.lineno = getattr(t, 'lineno', 0); x.col_offset = getattr(t, 'col_offset', 0)
        return t2

    # ------------------------------------------------------------ assignment
    def assign(self, tgt, v, st, aug=False):
        st = st.copy()
        if isinstance(tgt, ast.Name):
            lk = getattr(self.c, 'local_kinds', {})
            if tgt.id in lk and isinstance(v, Ref) and isinstance(st.heap[v.oid], Arr):
                a = st.heap[v.oid]
                if a.meta.get('empty_literal'):
                    kind = lk[tgt.id]
                    if kind.startswith('tuple:'):
                        ks = kind[6:].split(',')
                        st.heap[v.oid] = Arr(tuple(z3.K(z3.IntSort(), self.fresh('dflt', k)) for k in ks), (0,), 'tuple', meta={'list': True})
                    elif kind == 'count':
                        # a list of objects the contract only counts (e.g. a list of per-path arrays)
                        st.heap[v.oid] = Arr(z3.K(z3.IntSort(), z3.IntVal(0)), (0,), 'count', meta={'list': True})
                    elif kind == 'aranges':
                        zc = z3.K(z3.IntSort(), z3.IntVal(0))
                        st.heap[v.oid] = Arr((zc, zc, z3.K(z3.IntSort(), z3.IntVal(1)), zc), (0,), 'aranges', meta={'list': True})
                    elif kind.startswith('slices:'):
                        base = self.deref(st, st.env[kind[7:]])
                        st.heap[v.oid] = Arr((z3.K(z3.IntSort(), z3.IntVal(0)), z3.K(z3.IntSort(), z3.IntVal(0))), (0,), 'slices', meta={'list': True, 'base': base})
                    else:
                        st.heap[v.oid] = Arr(z3.K(z3.IntSort(), self.fresh('dflt', kind)), (0,), kind, meta={'list': True})
            if tgt.id in getattr(self.c, 'opaque_locals', ()) and is_sym(v) and not isinstance(v, Arr) and (z3.is_real(v) or z3.is_int(v)) \
                    and not z3.is_const(v):
                # the contract asks to name this intermediate value: a fresh constant with a defining fact (keeps later terms small,
                # and the definition is available to local proofs as 'def:<name>')
                k_ = self.fresh(tgt.id, 'real' if z3.is_real(v) else 'int')
                eq_ = (k_ == v)
                st.pc.append(eq_)
                key_, n_ = 'def:' + tgt.id, 1
                while (key_ if n_ == 1 else '%s#%d' % (key_, n_)) in st.facts:
                    n_ += 1
                st.facts[key_ if n_ == 1 else '%s#%d' % (key_, n_)] = eq_
                v = k_
            st.env[tgt.id] = v
            return st
        if isinstance(tgt, (ast.Tuple, ast.List)):
            if isinstance(v, Tup):
                items = v.items
            elif is_sym(v) and v.sort().name() == 'Obj':
                items = [z3.Function('ITEM%d' % k, v.sort(), v.sort())(v) for k in range(len(tgt.elts))]
            elif isinstance(v, Ref) and isinstance(st.heap[v.oid], Arr):
                a = st.heap[v.oid]
                self.emit(self.site('unpack', tgt), st, a.shape[0] == len(tgt.elts))
                if a.ndim == 1:
                    items = [a[k] for k in range(len(tgt.elts))]
                elif a.ndim == 2 and not isinstance(a.term, tuple):
                    # rows of a 2-d array (NumPy hands out views: a store into one of them is outside the subset, see store())
                    items = []
                    for k in range(len(tgt.elts)):
                        j_ = z3.Int('j!row')
                        items.append(self.new_obj(st, Arr(z3.Lambda([j_], a[z3.IntVal(k), j_]), (a.shape[1],), a.kind, meta={'view_of': v.oid})))
                else:
                    raise Unsupported('unpacking an n-d array')
            else:
                raise Unsupported('unpacking %r' % (v,))
            if len(items) != len(tgt.elts):
                raise Unsupported('unpack arity')
            for t, x in zip(tgt.elts, items):
                st = self.assign(t, x, st)
            return st
        if isinstance(tgt, ast.Subscript):
            (st1, base), = list(self.eval(tgt.value, st))
            (st1, idx), = list(self.eval_index(tgt.slice, st1))
            return self.store(base, idx, v, st1, tgt)
        if isinstance(tgt, ast.Attribute):
            (st1, base), = list(self.eval(tgt.value, st))
            if isinstance(base, Ref) and isinstance(st1.heap[base.oid], RecV):
                st1 = st1.copy()
                r = st1.heap[base.oid]
                r2 = RecV(r.cls, r.fields)
                r2.fields[tgt.attr] = v
                st1.heap[base.oid] = r2
                return st1
            raise Unsupported('attribute store on %r' % (base,))
        raise Unsupported('assign target %s' % type(tgt).__name__)

    # store / subscript / binop / compare / call / method are in engine_np (mixed in)

    # ------------------------------------------------------------ loops
    def modified(self, body, st=None):
        """names rebound / objects mutated in a loop body (syntactic)"""
        rebound, mutated = [], []

        def add(lst, x):
            if x not in lst:
                lst.append(x)
        for n in ast.walk(ast.Module(body=list(body), type_ignores=[])):
            if isinstance(n, (ast.Assign, ast.AugAssign, ast.For)):
                tgts = n.targets if isinstance(n, ast.Assign) else [n.target]
                for t in tgts:
                    for m in ([t] if not isinstance(t, (ast.Tuple, ast.List)) else list(ast.walk(t))):
                        if isinstance(m, ast.Name) and isinstance(m.ctx, ast.Store):
                            add(rebound, m.id)
                        if isinstance(m, ast.Subscript):
                            b = m.value
                            while isinstance(b, ast.Subscript):
                                b = b.value
                            if isinstance(b, ast.Name):
                                add(mutated, b.id)
                        if isinstance(m, ast.Attribute) and isinstance(m.value, ast.Name) and isinstance(m.ctx, ast.Store):
                            add(mutated, m.value.id)
                if isinstance(n, ast.AugAssign) and isinstance(n.target, ast.Name):
                    add(mutated, n.target.id)      # a += b mutates arrays in place
            if isinstance(n, ast.Call):
                if isinstance(n.func, ast.Attribute) and isinstance(n.func.value, ast.Name) and \
                        n.func.attr in ('append', 'fill', 'pop', 'extend', 'sort', 'insert', 'remove'):
                    add(mutated, n.func.value.id)
                callee = self.resolve_callee(n.func, st)
                fname_ = ast.unparse(n.func)
                if callee is None and not self.known_pure(fname_, n, st):
                    # unknown callee: conservatively every object passed may be mutated
                    for a in list(n.args) + [k.value for k in n.keywords]:
                        if isinstance(a, ast.Name):
                            add(mutated, a.id)
                if callee is not None:
                    cc = self.registry[callee]
                    names = self.src.param_names(callee)
                    bound = dict(zip(names, n.args))
                    for k in n.keywords:
                        if k.arg:
                            bound[k.arg] = k.value
                    for p in cc.modifies:
                        a = bound.get(p)
                        if isinstance(a, ast.Name):
                            add(mutated, a.id)
                for a in n.args:
                    pass
            if isinstance(n, ast.With):
                for it in n.items:
                    if it.optional_vars is not None and isinstance(it.optional_vars, ast.Name):
                        add(rebound, it.optional_vars.id)
        return rebound, mutated

    def known_pure(self, fname, node, st):
        head = fname.split('.')[0]
        if head in ('logger', 'logging', 'warnings', 'np', 'numpy', 'scipy', 'mpi', 'log', 'exception', 'numbers') or self.prims.has(fname):
            return True
        if isinstance(node.func, ast.Attribute):
            return True          # method calls: receivers handled above (append/fill/...); array methods are pure
        if fname in ('len', 'range', 'enumerate', 'zip', 'list', 'tuple', 'int', 'float', 'min', 'max', 'abs', 'sum', 'isinstance',
                     'hasattr', 'type', 'print', 'all', 'any', 'callable', 'str', 'prange', 'sorted', 'bool', 'iter', 'next'):
            return True
        if st is not None and isinstance(node.func, ast.Name):
            v = st.env.get(node.func.id, UNDEF)
            if isinstance(v, Metric):
                return True      # metric callables are pure by their contract
        if fname[:1].isupper():
            return True          # constructors / exception classes
        return False

    def havoc_value(self, name, old, h, in_place):
        """fresh unknown of the same kind as old"""
        lk = getattr(self.c, 'local_kinds', {})
        resizable = getattr(self.c, 'resizable', ())
        if isinstance(old, Maybe):
            inner = self.havoc_value(name, old.val, h, in_place)
            return Maybe(self.fresh('def_' + name, 'bool'), inner)
        if isinstance(old, Ref):
            a = h.heap[old.oid]
            if isinstance(a, Arr) and isinstance(a.term, tuple):
                shape = (self.fresh(name + '_len', 'int'),) if name in resizable else a.shape
                if name in resizable:
                    h.pc.append(shape[0] >= 0)
                new = Arr(tuple(self.fresh(name + '_c%d' % k, t.sort()) for k, t in enumerate(a.term)), shape, a.kind, None, a.meta)
                if in_place:
                    h.heap[old.oid] = new
                    return old
                return self.new_obj(h, new)
            if isinstance(a, Arr):
                if in_place:
                    shape = tuple(self.fresh(name + '_len', 'int') for _ in a.shape) if name in resizable else a.shape
                    h.heap[old.oid] = Arr(self.fresh(name, a.term.sort()), shape, a.kind,
                                          None if a.init is None else self.fresh(name + '_init', a.init.sort()), a.meta)
                    if name in resizable:
                        for s in shape:
                            h.pc.append(s >= 0)
                    return old
                spec = lk.get(name + ':shape')
                shape = tuple(self.fresh(name + '_len', 'int') for _ in a.shape) if (name in resizable or spec == 'fresh') else a.shape
                for s in shape:
                    if not z3.is_int_value(s):
                        h.pc.append(s >= 0)
                return self.new_obj(h, Arr(self.fresh(name, a.term.sort()), shape, a.kind, None, a.meta))
            if isinstance(a, RecV):
                if in_place:
                    return old
                return old
            raise Unsupported('havoc of heap value %r' % (a,))
        if is_sym(old):
            return self.fresh(name, old.sort())
        if isinstance(old, bool):
            return self.fresh(name, 'bool')
        if isinstance(old, int):
            return self.fresh(name, 'int')
        if isinstance(old, float):
            return self.fresh(name, 'real')
        if isinstance(old, (NoneV, Str, Opaque, Func, Metric, KindTag)):
            return old
        if isinstance(old, Tup):
            return Tup([self.havoc_value('%s_%d' % (name, k), x, h, in_place) for k, x in enumerate(old.items)])
        raise Unsupported('havoc of %r (%s)' % (old, name))

    def local_of_kind(self, name, h):
        lk = getattr(self.c, 'local_kinds', {})
        if name not in lk:
            return None
        spec = lk[name]
        if callable(spec):
            return spec(self, h)
        if spec.startswith('list:') or spec.startswith('array:'):
            kind = spec.split(':')[1]
            ln = self.fresh(name + '_len', 'int')
            h.pc.append(ln >= 0)
            return self.new_obj(h, Arr(self.fresh(name, self.arr_sort(kind)), (ln,), kind, meta={'list': spec.startswith('list:')}))
        if spec in ('int', 'real', 'bool') or spec.islower() and ':' not in spec:
            return self.fresh(name, spec)
        raise Unsupported('local kind spec %r' % (spec,))

    def loop_common(self, st, n, guard_fn, body_fn, rebound, mutated, auto_inv=None, alias=None):
        k = self.loop_ids[id(n)]
        L = self.L
        invs = getattr(self.c, 'invariants', {})
        inv = invs.get(k)
        if inv is None:
            raise Unsupported('loop #%d of %s has no invariant in the contract' % (k, self.cur))
        st = st.copy()
        for m in rebound:
            if m not in st.env:
                st.env[m] = UNDEF

        def all_inv(s_):
            out = []
            if auto_inv:
                out += auto_inv(s_)
            if alias:
                s_ = s_.copy()
                for a_, c_ in alias.items():
                    s_.env[a_] = s_.env[c_]
            out += list(inv(L, View(self, s_, old=self.A, ghost=self.ghost)))
            return out
        gspec = getattr(self.c, 'ghost_loops', {}).get(k)
        def set_ghost(s_, vals):
            for gname, gv in vals.items():
                s_.env[gname] = self.new_obj(s_, gv) if isinstance(gv, Arr) else gv
        if gspec:
            g0_ = gspec['init'](L, View(self, st, old=self.A, ghost=self.ghost))
            set_ghost(st, g0_)
            # only this loop's own ghost variables change in it (ghost state of earlier loops is kept as it is)
            rebound = list(rebound) + [g_ for g_ in g0_ if g_ not in rebound]
        for name, g in all_inv(st):
            self.emit('loop%d.init' % k, st, g, clause=name)
        h = st.copy()
        for m in mutated:
            old = h.env.get(m, UNDEF)
            if old is not UNDEF and m not in rebound:
                h.env[m] = self.havoc_value(m, old, h, in_place=True)
        for m in rebound:
            old = h.env.get(m, UNDEF)
            if old is UNDEF:
                val = self.local_of_kind(m, h)
                h.env[m] = Maybe(self.fresh('def_' + m, 'bool'), val) if val is not None else Maybe(self.fresh('def_' + m, 'bool'), UNDEF)
            else:
                if isinstance(old, Ref) and m in mutated:
                    # object may be mutated in place AND the name rebound: havoc both
                    self.havoc_value(m, old, h, in_place=True)
                h.env[m] = self.havoc_value(m, old, h, in_place=False)
        h.facts = dict(h.facts)
        for name, g in all_inv(h):
            h.pc.append(_z(g))
            h.facts['inv%d:%s' % (k, name)] = _z(g)       # the invariant at the loop head, for local proofs
        for h1, g in guard_fn(h):
            for h2, truth in self.split(h1, g, n):
                if not truth:
                    self.reached.add((self.cur, 'loop%d.exit' % k))
                    if len(h2.pc) > len(h1.pc):
                        h2.facts = dict(h2.facts)
                        h2.facts['exit%d' % k] = h2.pc[-1]          # the negated guard, for local proofs
                    yield ('fall', h2, None)
                    continue
                self.reached.add((self.cur, 'loop%d.body' % k))
                for kind, h3, v in body_fn(h2):
                    if kind in ('fall', 'continue'):
                        if gspec:
                            h3 = h3.copy()
                            set_ghost(h3, gspec['step'](L, View(self, h2, old=self.A, ghost=self.ghost), View(self, h3, old=self.A, ghost=self.ghost)))
                        for name, gg in all_inv(h3):
                            self.emit('loop%d.preserve' % k, h3, gg, clause=name)
                    elif kind == 'break':
                        h3 = h3.copy()
                        h3.env['__broke'] = k         # left by `break`: the loop variable keeps the value of the interrupted iteration
                        yield ('fall', h3, None)
                    else:
                        yield (kind, h3, v)

    def exec_for(self, n, st):
        it = n.iter
        rebound, mutated = self.modified(n.body, st)
        if n.orelse:
            raise Unsupported('for-else')
        fname = ast.unparse(it.func) if isinstance(it, ast.Call) else None
        if fname in ('range', 'prange'):
            argvals = []
            st1 = st
            for a in it.args:
                (st1, v), = list(self.eval(a, st1))
                argvals.append(to_z3(v))
            if len(argvals) == 1:
                lo, hi, step = z3.IntVal(0), argvals[0], None
            elif len(argvals) == 2:
                lo, hi, step = argvals[0], argvals[1], None
            else:
                lo, hi, step = argvals
                if not (z3.is_int_value(step) and step.as_long() == 1):
                    raise Unsupported('range with step')
            var = n.target.id
            st1 = st1.copy()
            cnt = '__it%d' % self.loop_ids[id(n)]
            st1.env[cnt] = lo
            rb = [m for m in rebound if m != var] + [cnt]
            if var not in st1.env:
                st1.env[var] = UNDEF
            # the loop variable keeps its last value after the loop; model: var == cnt-1 when cnt>lo
            def auto(s_):
                c_ = to_z3(s_.env[cnt])
                return [('range', z3.And(lo <= c_, z3.Or(c_ <= hi, c_ == lo)))]
            def guard(h):
                yield h, to_z3(h.env[cnt]) < hi
            def body(h):
                h = h.copy()
                h.env[var] = h.env[cnt]
                for kind, h2, val in self.exec_block(n.body, h):
                    if kind in ('fall', 'continue'):
                        h2 = h2.copy()
                        h2.env[cnt] = to_z3(h2.env[cnt]) + 1
                    yield kind, h2, val
            # after the loop `var` is maybe-defined (defined iff at least one iteration ran)
            for kind, h, v in self.loop_common(st1, n, guard, body, rb + [var], mutated, auto, alias={var: cnt}):
                if kind == 'fall' and h.env.get('__broke') == self.loop_ids[id(n)]:
                    h = h.copy()
                    del h.env['__broke']
                elif kind == 'fall':
                    h = h.copy()
                    c_ = to_z3(h.env[cnt])
                    old = st1.env.get(var, UNDEF)
                    if old is UNDEF:
                        h.env[var] = Maybe(c_ > lo, c_ - 1)
                    else:
                        h.env[var] = z3.If(c_ > lo, c_ - 1, to_z3(old)) if is_sym(to_z3(old)) or isinstance(old, int) else Maybe(z3.BoolVal(True), c_ - 1)
                yield kind, h, v
            return
        # enumerate(seq) / plain sequence
        is_enum = fname == 'enumerate'
        seq_node = it.args[0] if is_enum else it
        (st1, seq), = list(self.eval(seq_node, st))
        a = self.deref(st1, seq)
        if isinstance(a, Tup):
            # concrete tuple: unroll
            yield from self.unroll_tuple(n, a, st1, is_enum)
            return
        if not isinstance(a, Arr):
            raise Unsupported('for over %r' % (a,))
        a_snapshot = a
        if is_enum:
            iv, xv = n.target.elts[0].id, n.target.elts[1]
        else:
            iv, xv = None, n.target
        cnt = '__it%d' % self.loop_ids[id(n)]
        st1 = st1.copy()
        st1.env[cnt] = z3.IntVal(0)
        names = [m.id for m in ast.walk(xv) if isinstance(m, ast.Name)] + ([iv] if iv else [])
        rb = [m for m in rebound if m not in names] + [cnt]
        length = a_snapshot.shape[0]
        def auto(s_):
            c_ = to_z3(s_.env[cnt])
            return [('range', z3.And(0 <= c_, c_ <= length))]
        def guard(h):
            yield h, to_z3(h.env[cnt]) < length
        def body(h):
            h = h.copy()
            c_ = to_z3(h.env[cnt])
            if iv:
                h.env[iv] = c_
            elem = self.element(a_snapshot, c_, h)
            h = self.assign(xv, elem, h)
            for kind, h2, val in self.exec_block(n.body, h):
                if kind in ('fall', 'continue'):
                    h2 = h2.copy()
                    h2.env[cnt] = to_z3(h2.env[cnt]) + 1
                yield kind, h2, val
        for kind, h, v in self.loop_common(st1, n, guard, body, rb, mutated, auto, alias=({iv: cnt} if iv else None)):
            if kind == 'fall' and h.env.get('__broke') == self.loop_ids[id(n)]:
                h = h.copy()
                del h.env['__broke']
            elif kind == 'fall':
                h = h.copy()
                for nm in names:
                    if st1.env.get(nm, UNDEF) is UNDEF:
                        h.env[nm] = Maybe(to_z3(h.env[cnt]) > 0, UNDEF)
            yield kind, h, v

    def unroll_tuple(self, n, tup, st, is_enum):
        def rec(k, st):
            if k == len(tup.items):
                yield ('fall', st, None)
                return
            st = st.copy()
            if is_enum:
                st.env[n.target.elts[0].id] = k
                st = self.assign(n.target.elts[1], tup.items[k], st)
            else:
                st = self.assign(n.target, tup.items[k], st)
            for kind, st2, v in self.exec_block(n.body, st):
                if kind in ('fall', 'continue'):
                    yield from rec(k + 1, st2)
                elif kind == 'break':
                    yield ('fall', st2, None)
                else:
                    yield kind, st2, v
        yield from rec(0, st)

    def element(self, a, i, st):
        """a[i] for iteration: scalar for 1-d, row snapshot for 2-d"""
        if a.ndim == 1:
            return a[i]
        j = [z3.Int('i!%d' % k) for k in range(a.ndim - 1)]
        return self.new_obj(st, Arr(z3.Lambda(j, z3.Select(a.term, i, *j)), a.shape[1:], a.kind))

    def exec_while(self, n, st):
        rebound, mutated = self.modified(n.body, st)
        if n.orelse:
            raise Unsupported('while-else')
        def guard(h):
            yield from self.eval(n.test, h)
        def body(h):
            yield from self.exec_block(n.body, h)
        for kind, h, v in self.loop_common(st, n, guard, body, rebound, mutated):
            if kind == 'fall' and '__broke' in h.env:
                h = h.copy()
                del h.env['__broke']
            yield kind, h, v

    # ------------------------------------------------------------ expressions
    def eval_index(self, n, st):
        if isinstance(n, ast.Slice):
            def part(x, st):
                if x is None:
                    return st, None
                (st, v), = list(self.eval(x, st))
                return st, (None if isinstance(v, NoneV) else v)
            st, lo = part(n.lower, st)
            st, hi = part(n.upper, st)
            st, step = part(n.step, st)
            yield st, Slice(lo, hi, step)
            return
        if isinstance(n, ast.Tuple):
            def rec(elts, st, acc):
                if not elts:
                    yield st, Tup(acc)
                    return
                for st1, v in self.eval_index(elts[0], st):
                    yield from rec(elts[1:], st1, acc + [v])
            yield from rec(n.elts, st, [])
            return
        yield from self.eval(n, st)

    def read_name(self, n, st):
        v = st.env.get(n.id, UNDEF)
        if isinstance(v, Maybe):
            self.emit(self.site('defined', n), st, v.defbit, 'name %s may be unbound here' % n.id)
            if v.val is UNDEF:
                raise Unsupported('value of loop-local %s read after the loop (declare its kind in the contract)' % n.id)
            st = st.copy()
            st.pc.append(v.defbit)
            return st, v.val
        if v is UNDEF:
            if n.id in self.assigned or n.id in self.param_names:
                self.emit(self.site('defined', n), st, z3.BoolVal(False), 'name %s is unbound on this path' % n.id)
                return None, None
            return st, self.global_name(n.id, st)
        return st, v

    def global_name(self, name, st):
        r = self.resolve_name(name)
        if r is not None:
            return Func(r)
        if self.prims.has(name):
            return Func(name)
        g = self.cur_mod.globals_const.get(name)
        if g is not None:
            return g
        if name in ('True', 'False'):
            return name == 'True'
        return Func(name)

    def resolve_name(self, name):
        """a bare or dotted name -> registry key of a function under contract (or None)"""
        last = name.split('.')[-1]
        own = '%s::%s' % (self.cur_mod.relpath, last)
        if '.' not in name and own in self.registry:
            return own
        if '.' not in name and own + '.__init__' in self.registry and last in getattr(self.cur_mod, 'classes', {}):
            return own + '.__init__'          # ClassName(...) in its own module: the constructor's contract
        if '.' in name:
            modname = name.split('.')[-2]
            for q in self.registry:
                rel, qual = q.split('::')
                if qual == last and rel.endswith('/%s.py' % modname) or (qual == last and rel.endswith('/%s.pyx' % modname)):
                    return q
        elif name in getattr(self.cur_mod, 'imports', {}):
            modpath, orig = self.cur_mod.imports[name]
            if orig is None:
                # `from . import name`: a module, or a name re-exported by the package's __init__
                import os
                pkg = os.path.dirname(modpath)
                init = os.path.join(pkg, '__init__.py')
                if not os.path.exists(os.path.join(self.src.repo, modpath + '.py')) and os.path.exists(os.path.join(self.src.repo, init)):
                    imp = self.src.module(init).imports.get(name)
                    if imp is not None and imp[1] is not None:
                        modpath, orig = imp
            if orig is not None:
                for ext in ('.py', '.pyx'):
                    k = '%s%s::%s' % (modpath, ext, orig)
                    if k in self.registry:
                        return k
        return None

    def eval(self, n, st):
        if isinstance(n, ast.Constant):
            v = n.value
            if v is None:
                yield st, NONE
            elif isinstance(v, str):
                yield st, Str(v)
            else:
                yield st, v
            return
        if isinstance(n, ast.Name):
            st1, v = self.read_name(n, st)
            if st1 is not None:
                yield st1, v
            return
        if isinstance(n, ast.Attribute):
            yield from self.eval_attr(n, st)
            return
        if isinstance(n, ast.UnaryOp):
            for st1, v in self.eval(n.operand, st):
                yield st1, self.unary(n.op, v, st1)
            return
        if isinstance(n, ast.BinOp):
            for st1, a in self.eval(n.left, st):
                for st2, b in self.eval(n.right, st1):
                    yield st2, self.binop(n.op, a, b, st2, n)
            return
        if isinstance(n, ast.BoolOp):
            yield from self.boolop(n.op, n.values, st, n)
            return
        if isinstance(n, ast.Compare):
            yield from self.compare(n, st)
            return
        if isinstance(n, (ast.Tuple,)):
            def rec(elts, st, acc):
                if not elts:
                    yield st, Tup(acc)
                    return
                for st1, v in self.eval(elts[0], st):
                    yield from rec(elts[1:], st1, acc + [v])
            yield from rec(n.elts, st, [])
            return
        if isinstance(n, ast.List):
            yield from self.eval_list(n, st)
            return
        if isinstance(n, ast.Dict):
            if n.keys:
                d = {}
                st1 = st
                for k, v in zip(n.keys, n.values):
                    (st1, vv), = list(self.eval(v, st1))
                    d[k.value] = vv
                yield st1, ('dict', d)
            else:
                yield st, ('dict', {})
            return
        if isinstance(n, ast.Subscript):
            for st1, base in self.eval(n.value, st):
                for st2, idx in self.eval_index(n.slice, st1):
                    st2 = st2.copy()
                    yield st2, self.subscript(base, idx, st2, n)
            return
        if isinstance(n, ast.Call):
            yield from self.call(n, st)
            return
        if isinstance(n, ast.IfExp):
            for st1, c in self.eval(n.test, st):
                for st2, truth in self.split(st1, c, n):
                    yield from self.eval(n.body if truth else n.orelse, st2)
            return
        if isinstance(n, ast.JoinedStr):
            st1 = st
            for v in n.values:
                if isinstance(v, ast.FormattedValue):
                    for st1, _ in self.eval(v.value, st1):
                        break
            yield st1, Str()
            return
        if isinstance(n, ast.ListComp):
            yield from self.listcomp(n, st)
            return
        if isinstance(n, ast.Lambda):
            yield st, Opaque('lambda')
            return
        raise Unsupported('expression %s at line %d' % (type(n).__name__, n.lineno))

    def unary(self, op, v, st):
        if isinstance(op, ast.Not):
            b = to_bool(v)
            return (not b) if isinstance(b, bool) else z3.Not(b)
        if isinstance(op, ast.USub):
            A = self.deref(st, v)
            if isinstance(A, Arr):
                return self.new_obj(st, self.lam(lambda *ix: -A[tuple(ix)], A.shape, A.kind))
            if isinstance(v, (int, float)) and not isinstance(v, bool):
                return -v
            return -to_z3(v)
        if isinstance(op, ast.Invert):
            A = self.deref(st, v)
            if isinstance(A, Arr) and A.kind == 'bool':
                return self.new_obj(st, self.lam(lambda *ix: z3.Not(A[tuple(ix)]), A.shape, 'bool'))
        raise Unsupported('unary %s' % type(op).__name__)

    def boolop(self, op, values, st, node):
        first, rest = values[0], values[1:]
        for st1, v in self.eval(first, st):
            if not rest:
                yield st1, v
                continue
            for st2, truth in self.split(st1, v, node):
                if isinstance(op, ast.And):
                    if truth:
                        yield from self.boolop(op, rest, st2, node)
                    else:
                        yield st2, v if not is_sym(v) else False
                else:
                    if truth:
                        yield st2, v if not is_sym(v) else True
                    else:
                        yield from self.boolop(op, rest, st2, node)

    def compare(self, n, st):
        def rec(left, ops, comps, st, acc):
            if not ops:
                yield st, acc
                return
            for st1, r in self.eval(comps[0], st):
                c = self.cmp(ops[0], left, r, st1, n)
                if acc is None:
                    acc2 = c
                elif is_sym(acc) or is_sym(c):
                    acc2 = z3.And(_z(acc), _z(c))
                else:
                    acc2 = acc and c
                yield from rec(r, ops[1:], comps[1:], st1, acc2)
        for st0, l in self.eval(n.left, st):
            yield from rec(l, n.ops, n.comparators, st0.copy(), None)
