import sys, os, argparse, importlib, json, traceback
ROOT = os.path.dirname(os.path.dirname(os.path.abspath(__file__)))
sys.path.insert(0, ROOT)


def main():
    ap = argparse.ArgumentParser()
    ap.add_argument('prop')
    ap.add_argument('--tier', default=os.environ.get('VERIF_TIER', 'quick'))
    ap.add_argument('--update-lock', action='store_true')
    ap.add_argument('--replay', default=None)
    a = ap.parse_args()
    seed = int(os.environ.get('VERIF_SEED', '0') or 0)
    if a.replay:
        from pyvc import overlay
        obj = json.load(open(a.replay))
        payload = obj.get('replay_payload') or obj.get('bounded_failure')
        print(json.dumps(obj, indent=1)[:3000])
        if obj.get('replay_payload'):
            p = overlay.run_py(os.path.join(ROOT, 'bounded', a.prop + '.py'), ['--replay', '-'], input_text=json.dumps(obj['replay_payload']))
            print(p.stdout[-2000:], p.stderr[-500:])
        return 0
    try:
        mod = importlib.import_module('props.' + a.prop)
        rc = mod.run(a.tier, seed, update_lock=a.update_lock)
    except Exception:
        traceback.print_exc()
        print('CHECKER-FAULT: exception in the checker')
        rc = 3
    sys.exit(rc)


if __name__ == '__main__':
    main()
