"""Registered primitives = assumed (trusted) contracts on NumPy / stdlib calls (DESIGN 2.4).
Every primitive used by a run is recorded in `used` and listed in the evidence."""
import z3
from .logic import Arr, _z, INF, sort_of
from .engine import (Unsupported, Ref, Tup, RecV, Func, NONE, NoneV, UNDEF, Maybe, Slice, MaskedSel,
                     Metric, Str, KindTag, Opaque, is_sym, to_z3, to_bool)


class Prims:
    def __init__(self):
        self.fns = {}
        self.methods = {}
        self.used = set()

    def has(self, name):
        return name in self.fns

    def call(self, e, name, argv, kw, st, node):
        self.used.add(name)
        n0 = len(st.pc)
        r = self.fns[name](e, st, node, *argv, **kw)
        if hasattr(r, '__next__'):
            yield from r
        else:
            if len(st.pc) > n0:        # facts assumed from the primitive's contract get a name (usable in local proofs)
                k, key = 1, 'prim:' + name
                while (key if k == 1 else '%s#%d' % (key, k)) in st.facts:
                    k += 1
                st.facts[key if k == 1 else '%s#%d' % (key, k)] = z3.And(*st.pc[n0:])
            yield st, r

    def method(self, e, name, recv, argv, kw, st, node):
        if name not in self.methods:
            raise Unsupported('method .%s()' % name)
        self.used.add('.' + name)
        r = self.methods[name](e, st, node, recv, *argv, **kw)
        if hasattr(r, '__next__'):
            yield from r
        else:
            yield st, r


P = Prims()


def prim(*names):
    def deco(f):
        for n in names:
            P.fns[n] = f
        return f
    return deco


def method(*names):
    def deco(f):
        for n in names:
            P.methods[n] = f
        return f
    return deco


def kind_of_dtype(dt, default='real'):
    if dt is None:
        return default
    if isinstance(dt, KindTag):
        return dt.kind
    if isinstance(dt, Func):
        return {'int': 'int', 'float': 'real', 'bool': 'bool'}.get(dt.name, default)
    if isinstance(dt, Str):
        s = dt.s
        if s.startswith(('int', 'uint', 'i', 'u')):
            return 'int'
        if s.startswith(('float', 'f', 'd')):
            return 'real'
        if s.startswith('bool'):
            return 'bool'
    return default


def shape_of(e, st, n):
    n = e.deref(st, n)
    if isinstance(n, Tup):
        return tuple(to_z3(x) for x in n.items)
    return (to_z3(n),)


def zero(kind):
    return {'int': z3.IntVal(0), 'real': z3.RealVal(0), 'bool': z3.BoolVal(False)}[kind]


def const_arr(e, st, shape, kind, val):
    t = z3.K(z3.IntSort(), val)
    if len(shape) > 1:
        vs = [z3.Int('i!%d' % k) for k in range(len(shape))]
        t = z3.Lambda(vs, val)
    return e.new_obj(st, Arr(t, shape, kind))


def qrange(e, a, f):
    """forall valid indices of a. f(idx tuple)"""
    vs = [e.L.var('q') for _ in a.shape]
    g = [c for v, s in zip(vs, a.shape) for c in (v >= 0, v < s)]
    return z3.ForAll(vs, z3.Implies(z3.And(*g), f(tuple(vs) if len(vs) > 1 else vs[0])))


# ------------------------------------------------------------------ builtins
@prim('np.ndim')
def _ndim(e, st, node, x):
    v = e.deref(st, x)
    if isinstance(v, Arr):
        return v.ndim
    if is_sym(to_z3(v)) or isinstance(v, (int, float)):
        return 0
    raise Unsupported('np.ndim of %r' % (v,))


@prim('len')
def _len(e, st, node, x):
    v = e.deref(st, x)
    if isinstance(v, Arr):
        return v.shape[0]
    if isinstance(v, Tup):
        return len(v.items)
    if isinstance(v, MaskedSel):
        c = e.fresh('cnt', 'int')
        st.pc.append(z3.And(c >= 0, c <= v.arr.shape[0]))
        return c
    if isinstance(v, RecV) and '__len__' in v.fields:
        return v.fields['__len__']
    if is_sym(v) and v.sort().name() == 'Obj':
        ln = z3.Function('LEN', v.sort(), z3.IntSort())(v)
        st.pc.append(ln >= 0)
        return ln
    raise Unsupported('len of %r' % (v,))


@prim('int')
def _int(e, st, node, x=0):
    x = to_z3(x)
    if is_sym(x) and z3.is_real(x):
        # int() truncates toward zero; exact only for values known integral / non-negative
        r = e.fresh('trunc', 'int')
        st.pc.append(z3.If(x >= 0, z3.And(z3.ToReal(r) <= x, x < z3.ToReal(r) + 1),
                           z3.And(z3.ToReal(r) >= x, x > z3.ToReal(r) - 1)))
        return r
    return x


@prim('float')
def _float(e, st, node, x=0.0):
    if isinstance(x, Str):
        return INF() if x.s == 'inf' else Unsupported
    x = to_z3(x)
    return z3.ToReal(x) if is_sym(x) and z3.is_int(x) else x


@prim('bool')
def _bool(e, st, node, x=False):
    return to_bool(x)


@prim('abs', 'np.abs', 'np.absolute', 'fabs')
def _abs(e, st, node, x):
    A = e.deref(st, x)
    if isinstance(A, Arr):
        return e.new_obj(st, e.lam(lambda *ix: z3.If(A[tuple(ix)] >= 0, A[tuple(ix)], -A[tuple(ix)]), A.shape, A.kind))
    x = to_z3(x)
    return z3.If(x >= 0, x, -x)


@prim('min', 'max')
def _minmax(e, st, node, *xs):
    is_min = 'min' in (node.func.id if hasattr(node.func, 'id') else '')
    if len(xs) == 1:
        a = e.deref(st, xs[0])
        if isinstance(a, Arr):
            return _reduce_extreme(e, st, node, a, not is_min)
        raise Unsupported('min/max of %r' % (a,))
    r = to_z3(xs[0])
    for y in xs[1:]:
        y = to_z3(y)
        if z3.is_int(r) and z3.is_real(y): r = z3.ToReal(r)
        if z3.is_real(r) and z3.is_int(y): y = z3.ToReal(y)
        r = z3.If(r <= y, r, y) if is_min else z3.If(r >= y, r, y)
    return r


def _reduce_extreme(e, st, node, a, is_max):
    m = e.fresh('max' if is_max else 'min', a.kind)
    for sdim in a.shape:
        e.emit(e.site('nonempty', node), st, sdim > 0)
    js = [e.L.var('q') for _ in a.shape]
    ws = [e.fresh('w', 'int') for _ in a.shape]
    rng = z3.And(*[c for j, sdim in zip(js, a.shape) for c in (j >= 0, j < sdim)])
    cell = a[tuple(js)] if len(js) > 1 else a[js[0]]
    wcell = a[tuple(ws)] if len(ws) > 1 else a[ws[0]]
    st.pc.append(z3.ForAll(js, z3.Implies(rng, (cell <= m) if is_max else (cell >= m))))
    st.pc.append(z3.And(*[c for w, sdim in zip(ws, a.shape) for c in (w >= 0, w < sdim)], wcell == m))
    return m


@prim('list', 'tuple')
def _list(e, st, node, x=None):
    if x is None:
        return e.new_obj(st, Arr(z3.K(z3.IntSort(), z3.IntVal(0)), (0,), 'int', meta={'list': True, 'empty_literal': True}))
    a = e.deref(st, x)
    if isinstance(a, Arr):
        return e.new_obj(st, Arr(a.term, a.shape, a.kind, a.init, dict(a.meta, list=True)))
    if isinstance(a, Tup):
        return Tup(a.items)
    raise Unsupported('list(%r)' % (a,))


@prim('type')
def _type(e, st, node, x):
    a = e.deref(st, x)
    if isinstance(a, Arr):
        kt = KindTag(a.kind)
        kt.cls = 'list' if a.meta.get('list') else 'ndarray'
        return kt
    if isinstance(a, RecV):
        kt = KindTag('object')
        kt.cls = a.cls
        return kt
    v = to_z3(x)
    if is_sym(v):
        kt = KindTag('int' if z3.is_int(v) else 'real' if z3.is_real(v) else 'bool')
        kt.cls = 'scalar'
        return kt
    raise Unsupported('type()')


@prim('np.issubdtype')
def _issub(e, st, node, a, b):
    return a.kind == b.kind


@prim('issubclass')
def _issubclass(e, st, node, a, b):
    """issubclass(arr.dtype.type, numbers.Integral / np.integer / np.floating): decided by the array's kind"""
    if isinstance(b, Func) and b.name.split('.')[-1].replace('method:', '') == 'Integral':
        b = KindTag('int')
    if not (isinstance(a, KindTag) and isinstance(b, KindTag)):
        raise Unsupported('issubclass form')
    return a.kind == b.kind


@prim('isinstance')
def _isinstance(e, st, node, x, cls):
    v = e.deref(st, x)
    names = []
    def collect(c):
        if isinstance(c, Tup):
            for y in c.items: collect(y)
        elif isinstance(c, Func): names.append(c.name.split('.')[-1].replace('method:', ''))
        elif isinstance(c, KindTag): names.append('kind:' + c.kind)
    collect(cls)
    zv = to_z3(v) if not isinstance(v, (Arr, Tup, RecV, Str, NoneV, MaskedSel, Opaque, Func, Metric)) else None
    for nm in names:
        if nm in ('Integral', 'int', 'kind:int', 'integer') and zv is not None and z3.is_int(zv): return True
        if nm in ('float', 'Real', 'Number', 'kind:real', 'floating') and zv is not None and (z3.is_real(zv) or (nm in ('Real', 'Number') and z3.is_int(zv))): return True
        if nm == 'ndarray' and isinstance(v, Arr) and not v.meta.get('list'): return True
        if nm == 'list' and isinstance(v, Arr) and v.meta.get('list'): return True
        if nm in ('tuple',) and isinstance(v, Tup): return True
        if nm == 'slice' and isinstance(v, Slice): return True
        if nm == 'str' and isinstance(v, Str): return True
        if isinstance(v, RecV) and nm == v.cls: return True
    return False


@prim('hasattr')
def _hasattr(e, st, node, o, name):
    v = e.deref(st, o)
    if isinstance(v, RecV):
        return name.s in v.fields
    if isinstance(v, Arr):
        if name.s == '__len__':
            return True
        return name.s in ('shape', 'dtype', 'size', 'T', 'copy', 'astype') and not v.meta.get('list')
    if isinstance(v, Tup) and name.s == '__len__':
        return True
    return False


@prim('_is_iterable')
def _is_iterable_prim(e, st, node, x):
    """enspara.ra.ra._is_iterable: iterable and not a string (arrays, lists, tuples: yes; numbers: no)"""
    v = e.deref(st, x)
    if isinstance(v, (Arr, Tup, RArr)):
        return True
    if isinstance(v, Str):
        return False
    if is_sym(to_z3(v)) or isinstance(v, (int, float)):
        return False
    raise Unsupported('_is_iterable(%r)' % (v,))


@prim('callable')
def _callable(e, st, node, o):
    if is_sym(o) and o.sort().name() == 'Obj':
        return z3.Function('IS_CALLABLE', o.sort(), z3.BoolSort())(o)
    return isinstance(o, (Func, Metric))


@prim('getattr')
def _getattr(e, st, node, o, name, *default):
    base = o.name if isinstance(o, Func) else str(o)
    if isinstance(name, Str):
        return Func('%s.%s' % (base, name.s))
    if is_sym(name) and name.sort().name() == 'Obj':
        return z3.Function('GETATTR_' + base.replace('.', '_'), name.sort(), name.sort())(name)
    raise Unsupported('getattr')


@prim('zip')
def _zip(e, st, node, *xs):
    return Tup([Opaque('zip')] + list(xs))


@prim('range')
def _range(e, st, node, *xs):
    return Tup([Opaque('range')] + [to_z3(x) for x in xs])


@prim('TrimMapping')
def _trimmapping(e, st, node, pairs=None):
    """TrimMapping(zip(range(n), range(n))) = the identity mapping on n states"""
    O = sort_of('obj')
    p = e.deref(st, pairs)
    if isinstance(p, Tup) and isinstance(p.items[0], Opaque) and p.items[0].tag == 'zip' and len(p.items) == 3:
        a, b = p.items[1], p.items[2]
        if isinstance(a, Tup) and isinstance(b, Tup) and len(a.items) == 2 and len(b.items) == 2 and z3.eq(a.items[1], b.items[1]):
            return z3.Function('IDENTITY_MAPPING', z3.IntSort(), O)(a.items[1])
    raise Unsupported('TrimMapping of a general pair list')


@prim('sum', 'np.sum')
def _sum(e, st, node, x, axis=None):
    a = e.deref(st, x)
    if isinstance(a, Arr):
        return _arr_sum(e, st, node, a, axis)
    if isinstance(a, MaskedSel) and a.arr.ndim == 1:
        # sum of the selected cells: a ghost function of (array, mask, length)
        k = a.arr.kind if a.arr.kind != 'bool' else 'int'
        f = z3.Function('MASKSUM_%s' % k, a.arr.term.sort(), a.mask.term.sort(), z3.IntSort(), sort_of(k))
        return f(a.arr.term, a.mask.term, a.arr.shape[0])
    raise Unsupported('sum of %r' % (a,))


def _arr_sum(e, st, node, a, axis=None):
    """sums are ghost functions of the array term: SUM(a) / row sums RSUM(a)[i]; contracts that
    need more than functional consistency unfold them with lemmas"""
    k = a.kind if a.kind != 'bool' else 'int'
    if axis is None or isinstance(axis, NoneV):
        so = a.meta.get('slice_of') if a.ndim == 1 else None
        if so is not None and so[0].ndim == 1 and not isinstance(so[0].term, tuple):
            # sum of a contiguous slice base[lo:lo+n]: a ghost function of (base, lo, hi) - contracts define it by its recurrence
            base_, lo_, n_ = so
            return z3.Function('RANGESUM_%s' % k, base_.term.sort(), z3.IntSort(), z3.IntSort(), sort_of(k))(base_.term, lo_, lo_ + n_)
        f = z3.Function('SUM%d_%s' % (a.ndim, k), a.term.sort(), *[z3.IntSort()] * a.ndim, sort_of(k))
        s = f(a.term, *a.shape)
        if a.kind == 'bool' and a.ndim == 1:
            # counting: 0 <= count <= n, and count > 0 exactly when some cell is true (witness w)
            w, i = e.fresh('cntw', 'int'), e.L.var('q')
            st.pc += [s >= 0, s <= a.shape[0], z3.Implies(s > 0, z3.And(w >= 0, w < a.shape[0], a[w])),
                      z3.ForAll([i], z3.Implies(z3.And(i >= 0, i < a.shape[0], a[i]), s > 0))]
        return s
    ax = axis if isinstance(axis, int) else to_z3(axis).as_long()
    if ax < 0:
        ax += a.ndim
    if a.ndim == 2:
        f = z3.Function('AXSUM%d_%s' % (ax, k), a.term.sort(), z3.IntSort(), z3.IntSort(), z3.IntSort(), sort_of(k))
        n_out = a.shape[1 - ax]
        return e.new_obj(st, e.lam(lambda i: f(a.term, a.shape[0], a.shape[1], i), (n_out,), k))
    raise Unsupported('sum over axis of %d-d array' % a.ndim)


# ------------------------------------------------------------------ numpy constructors
@prim('np.zeros', 'np.ones', 'np.full', 'np.empty')
def _alloc(e, st, node, shape, fill=None, dtype=None):
    name = node.func.attr
    if name != 'full' and fill is not None and dtype is None:
        dtype, fill = fill, None
    shp = shape_of(e, st, shape)
    for s in shp:
        e.emit(e.site('alloc', node), st, s >= 0)
    kind = kind_of_dtype(dtype, 'real' if name != 'full' else ('int' if isinstance(fill, int) and not isinstance(fill, bool) else 'real'))
    if name == 'empty':
        a = Arr(e.fresh('uninit', e.arr_sort(kind, len(shp))), shp, kind,
                init=z3.K(z3.IntSort(), z3.BoolVal(False)) if len(shp) == 1 else
                z3.Lambda([z3.Int('i!%d' % k) for k in range(len(shp))], z3.BoolVal(False)))
        return e.new_obj(st, a)
    val = {'zeros': 0, 'ones': 1}.get(name, fill)
    return const_arr(e, st, shp, kind, e.num(val, kind))


@prim('np.zeros_like', 'np.ones_like', 'np.empty_like', 'np.full_like')
def _alloc_like(e, st, node, x, fill=None, dtype=None):
    a = e.deref(st, x)
    name = node.func.attr
    kind = kind_of_dtype(dtype, a.kind)
    if name == 'empty_like':
        return e.new_obj(st, Arr(e.fresh('uninit', e.arr_sort(kind, a.ndim)), a.shape, kind,
                                 init=z3.Lambda([z3.Int('i!%d' % k) for k in range(a.ndim)], z3.BoolVal(False))))
    val = {'zeros_like': 0, 'ones_like': 1}.get(name, fill)
    return const_arr(e, st, a.shape, kind, e.num(val, kind))


def alen_term(e, st, lo, hi, step):
    """number of elements of range(lo, hi, step), step >= 1 (facts added to the path condition)"""
    lo, hi, step = to_z3(lo), to_z3(hi), to_z3(step)
    if z3.is_int_value(step) and step.as_long() == 1:
        return z3.If(hi > lo, hi - lo, z3.IntVal(0))
    m = z3.Function('ALEN', z3.IntSort(), z3.IntSort(), z3.IntSort(), z3.IntSort())(lo, hi, step)
    st.pc += [m >= 0, z3.Implies(hi <= lo, m == 0),
              z3.Implies(hi > lo, z3.And(m >= 1, e.nl_mul(m - 1, step) < hi - lo, hi - lo <= e.nl_mul(m, step)))]
    return m


@prim('np.arange')
def _arange(e, st, node, n, hi=None, step=None):
    if hi is None:
        a = e.lam(lambda i: i, (to_z3(n),), 'int')
        a.meta = {'arange': True}
        return e.new_obj(st, a)
    lo, hi = to_z3(n), to_z3(hi)
    if step is None:
        a = e.lam(lambda i: lo + i, (z3.If(hi > lo, hi - lo, 0),), 'int')
        a.meta = {'arange_of': (lo, hi, z3.IntVal(1), a.shape[0])}
        return e.new_obj(st, a)
    sp = to_z3(step)
    e.emit(e.site('arange-step-positive', node), st, sp >= 1)
    m = alen_term(e, st, lo, hi, sp)
    one = z3.is_int_value(sp) and sp.as_long() == 1
    a = e.lam(lambda i: lo + (i if one else e.nl_mul(i, sp)), (m,), 'int')
    a.meta = {'arange_of': (lo, hi, sp, m)}
    return e.new_obj(st, a)


@prim('np.random.default_rng', 'np.random.RandomState', 'np.random.seed')
def _rng(e, st, node, *a, **k):
    return Opaque('rng')


@prim('np.cumsum')
def _cumsum(e, st, node, x, axis=None, dtype=None):
    """cumsum(a)[k] = a[0] + ... + a[k]: a fresh array defined by its recurrence (prefix sums)"""
    a = e.deref(st, x)
    if not (isinstance(a, Arr) and a.ndim == 1 and a.kind in ('int', 'real')):
        raise Unsupported('cumsum form')
    Cs = e.fresh('cumsum', e.arr_sort(a.kind))
    k = e.L.var('q')
    st.pc += [z3.Implies(a.shape[0] > 0, z3.Select(Cs, 0) == a[0]),
              z3.ForAll([k], z3.Implies(z3.And(k >= 1, k < a.shape[0]), z3.Select(Cs, k) == z3.Select(Cs, k - 1) + a[k]))]
    return e.new_obj(st, Arr(Cs, a.shape, a.kind))


@prim('np.maximum', 'np.minimum', 'np.fmax', 'np.fmin')
def _maxmin(e, st, node, x, y):
    # fmax / fmin differ from maximum / minimum only on NaN operands (not modelled: reals)
    big = node.func.attr in ('maximum', 'fmax')
    X, Y = e.deref(st, x), e.deref(st, y)
    arrs = [v for v in (X, Y) if isinstance(v, Arr)]
    if not arrs:
        a, b = to_z3(X), to_z3(Y)
        return z3.If((a >= b) if big else (a <= b), a, b)
    if len(arrs) == 2:
        e.emit(e.site('shape', node), st, z3.And(*[s == t for s, t in zip(X.shape, Y.shape)]))
    shape = arrs[0].shape
    kinds = [v.kind if isinstance(v, Arr) else ('real' if (isinstance(v, float) or (is_sym(to_z3(v)) and z3.is_real(to_z3(v)))) else 'int') for v in (X, Y)]
    kind = 'real' if 'real' in kinds else 'int'
    g = lambda v, ix: e.num(v[tuple(ix)] if isinstance(v, Arr) else to_z3(v), kind)
    def f(*ix):
        a, b = g(X, ix), g(Y, ix)
        return z3.If((a >= b) if big else (a <= b), a, b)
    return e.new_obj(st, e.lam(f, shape, kind))


@prim('np.meshgrid')
def _meshgrid(e, st, node, x, y, indexing=None, **kw):
    """two 1-d vectors: 'ij' -> (len x, len y) grids X[i,j]=x[i], Y[i,j]=y[j]; default 'xy' -> (len y, len x) grids X[i,j]=x[j], Y[i,j]=y[i]"""
    X, Y = e.deref(st, x), e.deref(st, y)
    if kw or not all(isinstance(v, Arr) and v.ndim == 1 for v in (X, Y)):
        raise Unsupported('meshgrid form')
    if indexing is not None and not (isinstance(indexing, Str) and indexing.s in ('ij', 'xy')):
        raise Unsupported('meshgrid indexing')
    ij = indexing is not None and indexing.s == 'ij'
    shape = (X.shape[0], Y.shape[0]) if ij else (Y.shape[0], X.shape[0])
    gx = e.lam((lambda i, j: X[i]) if ij else (lambda i, j: X[j]), shape, X.kind)
    gy = e.lam((lambda i, j: Y[j]) if ij else (lambda i, j: Y[i]), shape, Y.kind)
    return Tup([e.new_obj(st, gx), e.new_obj(st, gy)])


@prim('np.divide', 'np.true_divide')
def _divide(e, st, node, x, y, out=None, **kw):
    """element-wise real quotient of equal-shape arrays (or array / scalar); with out= the quotient is stored into that array, which is returned.
    Division by zero does not raise in NumPy (inf / nan): the quotient by 0 is left unspecified (z3's total division)."""
    if kw:
        raise Unsupported('np.divide keywords %r' % (sorted(kw),))
    X, Y = e.deref(st, x), e.deref(st, y)
    if not isinstance(X, Arr):
        raise Unsupported('np.divide of a scalar')
    if isinstance(Y, Arr):
        if Y.ndim != X.ndim:
            raise Unsupported('np.divide broadcasting')
        e.emit(e.site('shape', node), st, z3.And(*[s == t for s, t in zip(X.shape, Y.shape)]))
    g = lambda v, ix: e.num(v[tuple(ix)] if isinstance(v, Arr) else to_z3(v), 'real')
    q = e.lam(lambda *ix: g(X, ix) / g(Y, ix), X.shape, 'real')
    if out is None or isinstance(out, NoneV):
        return e.new_obj(st, q)
    O = e.deref(st, out)
    if not isinstance(O, Arr) or O.ndim != X.ndim or O.kind != 'real':
        raise Unsupported('np.divide out=')
    e.emit(e.site('out-shape', node), st, z3.And(*[s == t for s, t in zip(X.shape, O.shape)]))
    st.heap[out.oid] = Arr(q.term, O.shape, 'real', None, O.meta)
    return out


@prim('itertools.repeat')
def _repeat(e, st, node, x, n):
    v = to_z3(x)
    kind = 'real' if z3.is_real(v) else 'int'
    return e.new_obj(st, Arr(z3.K(z3.IntSort(), v), (to_z3(n),), kind, meta={'list': True}))


@prim('itertools.product')
def _product(e, st, node, a, b):
    return Tup([Opaque('product'), a, b])


def seq_view(e, st, v):
    """(length, getter) of a 1-d integer sequence: array / list / range object"""
    a = e.deref(st, v)
    if isinstance(a, Arr) and a.ndim == 1:
        return a.shape[0], (lambda i: a[i])
    if isinstance(a, Tup) and a.items and isinstance(a.items[0], Opaque) and a.items[0].tag == 'range':
        xs = [to_z3(x) for x in a.items[1:]]
        if len(xs) == 1:
            return z3.If(xs[0] > 0, xs[0], z3.IntVal(0)), (lambda i: i)
        lo, hi = xs[0], xs[1]
        sp = xs[2] if len(xs) > 2 else z3.IntVal(1)
        m = alen_term(e, st, lo, hi, sp)
        one = z3.is_int_value(sp) and sp.as_long() == 1
        return m, (lambda i: lo + (i if one else e.nl_mul(i, sp)))
    raise Unsupported('sequence %r' % (a,))


@prim('np.array', 'np.asarray', 'np.ascontiguousarray', 'np.copy')
def _array(e, st, node, x, dtype=None, copy=None):
    a = e.deref(st, x)
    if isinstance(a, Arr):
        kind = kind_of_dtype(dtype, a.kind)
        if kind != a.kind:
            return e.new_obj(st, e.lam(lambda *ix: e.num(a[tuple(ix)], kind), a.shape, kind))
        meta = {k: v for k, v in a.meta.items() if k not in ('list', 'view_of')}
        fname = getattr(node.func, 'attr', None)
        if fname is None:        # called through a local name bound to the function (`sparsetype = np.array`)
            fv = st.env.get(getattr(node.func, 'id', None), None)
            if not isinstance(fv, Func):
                raise Unsupported('array constructor reached through %r' % (fv,))
            fname = fv.name.split('.')[-1]
        if fname == 'asarray' and not a.meta.get('list') and isinstance(x, Ref):
            return x       # asarray of an ndarray is the same object
        return e.new_obj(st, Arr(a.term, a.shape, a.kind, a.init, meta))
    if isinstance(a, Tup) and a.items and isinstance(a.items[0], Opaque) and a.items[0].tag == 'repeat-rows':
        row, cnt = e.deref(st, a.items[1]), to_z3(a.items[2])
        return e.new_obj(st, e.lam(lambda i, j: row[j], (cnt, row.shape[0]), row.kind))      # np.array([row] * n): n equal rows
    if isinstance(a, Tup) and a.items and isinstance(a.items[0], Opaque) and a.items[0].tag == 'product':
        # np.array(list(itertools.product(xs, ys))): row p*len(ys)+q is the pair (xs[p], ys[q])   (trusted)
        (n1, g1), (n2, g2) = seq_view(e, st, a.items[1]), seq_view(e, st, a.items[2])
        Pm = e.fresh('product', e.arr_sort('int', 2))
        p_, q_ = e.L.var('q'), e.L.var('q')
        st.pc.append(z3.ForAll([p_, q_], z3.Implies(z3.And(p_ >= 0, p_ < n1, q_ >= 0, q_ < n2),
                                                    z3.And(z3.Select(Pm, e.nl_mul(p_, n2) + q_, 0) == g1(p_), z3.Select(Pm, e.nl_mul(p_, n2) + q_, 1) == g2(q_)))))
        return e.new_obj(st, Arr(Pm, (e.nl_mul(n1, n2), z3.IntVal(2)), 'int'))
    if isinstance(a, Tup) and all(is_sym(to_z3(v)) for v in a.items):
        items = [to_z3(v) for v in a.items]
        kind = 'real' if any(z3.is_real(v) for v in items) else 'int'
        t = z3.K(z3.IntSort(), zero(kind))
        for k, v in enumerate(items):
            t = z3.Store(t, k, e.num(v, kind))
        return e.new_obj(st, Arr(t, (len(items),), kind))
    raise Unsupported('np.array(%r)' % (a,))


@prim('np.eye', 'np.identity')
def _eye(e, st, node, n, dtype=None):
    n = to_z3(n)
    kind = kind_of_dtype(dtype, 'real')
    return e.new_obj(st, e.lam(lambda i, j: z3.If(i == j, e.num(1, kind), e.num(0, kind)), (n, n), kind))


# ------------------------------------------------------------------ reductions / searches
@prim('np.argmax', 'np.argmin')
def _argmax(e, st, node, x):
    a = e.deref(st, x)
    if not isinstance(a, Arr) or a.ndim != 1:
        raise Unsupported('argmax of %r' % (a,))
    is_max = node.func.attr == 'argmax'
    m = e.fresh(node.func.attr, 'int')
    e.emit(e.site('nonempty', node), st, a.shape[0] > 0)
    j = e.L.var('q')
    st.pc.append(z3.And(m >= 0, m < a.shape[0]))
    st.pc.append(z3.ForAll([j], z3.Implies(z3.And(j >= 0, j < a.shape[0]), (a[j] <= a[m]) if is_max else (a[j] >= a[m]))))
    st.pc.append(z3.ForAll([j], z3.Implies(z3.And(j >= 0, j < m), (a[j] < a[m]) if is_max else (a[j] > a[m]))))
    return m


@method('argmax', 'argmin')
def _margmax(e, st, node, recv, axis=None):
    return _argmax(e, st, node, recv)


@prim('copy.copy', 'copy.deepcopy')
def _copycopy(e, st, node, x):
    a = e.deref(st, x)
    if isinstance(a, Arr):
        return e.new_obj(st, Arr(a.term, a.shape, a.kind, a.init, a.meta))
    if isinstance(a, (int, float, bool)) or is_sym(a):
        return a
    raise Unsupported('copy.copy(%r)' % (a,))


@prim('np.max', 'np.amax', 'np.min', 'np.amin')
def _npmax(e, st, node, x):
    a = e.deref(st, x)
    return _reduce_extreme(e, st, node, a, node.func.attr in ('max', 'amax'))


@prim('np.all', 'all')
def _all(e, st, node, x):
    a = e.deref(st, x)
    if isinstance(a, Arr):
        return qrange(e, a, lambda ix: to_bool(a[ix]))
    if isinstance(a, bool) or is_sym(a):
        return a
    raise Unsupported('all(%r)' % (a,))


@prim('np.any', 'any')
def _any(e, st, node, x):
    a = e.deref(st, x)
    if isinstance(a, Arr):
        return z3.Not(qrange(e, a, lambda ix: z3.Not(to_bool(a[ix]))))
    if isinstance(a, bool) or is_sym(a):
        return a
    raise Unsupported('any(%r)' % (a,))


@prim('np.count_nonzero')
def _cnz(e, st, node, x):
    a = e.deref(st, x)
    r = e.fresh('cnt', 'int')
    st.pc.append(z3.And(r >= 0, r <= a.shape[0]))
    return r


@prim('np.where')
def _where(e, st, node, mask, x=None, y=None):
    m = e.deref(st, mask)
    if x is not None:
        X, Y = e.deref(st, x), e.deref(st, y)
        kinds = [v.kind if isinstance(v, Arr) else ('real' if (isinstance(v, float) or (is_sym(to_z3(v)) and z3.is_real(to_z3(v)))) else 'int') for v in (X, Y)]
        kind = 'real' if 'real' in kinds else kinds[0]
        g = lambda v, ix: e.num(v[tuple(ix)] if isinstance(v, Arr) else to_z3(v), kind)
        return e.new_obj(st, e.lam(lambda *ix: z3.If(m[tuple(ix)], g(X, ix), g(Y, ix)), m.shape, kind))
    if m.ndim == 2:
        return _where2d(e, st, node, m)
    if m.ndim != 1:
        raise Unsupported('np.where on n-d mask')
    if m.kind in ('int', 'real'):
        m = e.lam(lambda i: m_[i] != 0, m.shape, 'bool') if (m_ := m) is not None else m      # np.where(numbers): the non-zero positions
    W = e.fresh('where', e.arr_sort('int'))
    cnt = e.fresh('cnt', 'int')
    rk = e.fresh_fn('rk', [z3.IntSort()], z3.IntSort())
    j, i = e.L.var('q'), e.L.var('q')
    st.pc += [cnt >= 0, cnt <= m.shape[0],
              z3.ForAll([j], z3.Implies(z3.And(j >= 0, j < cnt), z3.And(W[j] >= 0, W[j] < m.shape[0], m[W[j]]))),
              z3.ForAll([i, j], z3.Implies(z3.And(0 <= i, i < j, j < cnt), W[i] < W[j])),
              z3.ForAll([i], z3.Implies(z3.And(i >= 0, i < m.shape[0], m[i]), z3.And(rk(i) >= 0, rk(i) < cnt, W[rk(i)] == i)))]
    t = Tup([e.new_obj(st, Arr(W, (cnt,), 'int', meta={'distinct': True}))])
    t.where_mask = m
    return t


@prim('np.digitize')
def _digitize(e, st, node, x, bins):
    b = e.deref(st, bins)
    x = to_z3(x)
    r = e.fresh('dig', 'int')
    # bins increasing (as in all call sites): r = number of bins <= x
    st.pc.append(z3.And(r >= 0, r <= b.shape[0]))
    j = e.L.var('q')
    st.pc.append(z3.ForAll([j], z3.Implies(z3.And(j >= 0, j < r), b[j] <= x)))
    st.pc.append(z3.ForAll([j], z3.Implies(z3.And(j >= r, j < b.shape[0]), x < b[j])))
    return r


@prim('np.unique')
def _unique(e, st, node, x):
    a = e.deref(st, x)
    if a.ndim != 1:
        raise Unsupported('unique of n-d')
    U = e.fresh('uniq', e.arr_sort(a.kind))
    cnt = e.fresh('ucnt', 'int')
    pos = e.fresh_fn('upos', [z3.IntSort()], z3.IntSort())   # witness: where each unique value occurs
    rk = e.fresh_fn('urk', [z3.IntSort()], z3.IntSort())     # rank of each element's value
    i, j = e.L.var('q'), e.L.var('q')
    st.pc += [cnt >= 0, cnt <= a.shape[0], z3.Implies(a.shape[0] > 0, cnt > 0),
              z3.ForAll([i, j], z3.Implies(z3.And(0 <= i, i < j, j < cnt), U[i] < U[j])),
              z3.ForAll([j], z3.Implies(z3.And(0 <= j, j < cnt), z3.And(pos(j) >= 0, pos(j) < a.shape[0], a[pos(j)] == U[j]))),
              z3.ForAll([i], z3.Implies(z3.And(0 <= i, i < a.shape[0]), z3.And(rk(i) >= 0, rk(i) < cnt, U[rk(i)] == a[i])))]
    return e.new_obj(st, Arr(U, (cnt,), a.kind))


@prim('np.allclose', 'np.isclose')
def _allclose(e, st, node, a, b, rtol=None, atol=None):
    """floating-point closeness: an unconstrained boolean (nothing is assumed about it)"""
    return e.fresh('close', 'bool')


@prim('np.isinf')
def _isinf(e, st, node, x):
    v = to_z3(x)
    return z3.Or(v == INF(), v == -INF())       # +inf and -inf


@prim('np.sqrt', 'sqrt')
def _sqrt(e, st, node, x):
    A = e.deref(st, x)
    f = e.L.func('sqrt', 'real', 'real')
    if isinstance(A, Arr):
        return e.new_obj(st, e.lam(lambda *ix: f(e.num(A[tuple(ix)], 'real')), A.shape, 'real'))
    return f(e.num(x, 'real'))


@prim('np.square')
def _square(e, st, node, x):
    A = e.deref(st, x)
    if isinstance(A, Arr):
        return e.new_obj(st, e.lam(lambda *ix: e.nl_sq(A[tuple(ix)]), A.shape, A.kind))
    return e.nl_sq(to_z3(x))


@prim('np.log', 'log', 'np.log10', 'log10')
def _log(e, st, node, x):
    A = e.deref(st, x)
    nm = node.func.attr if hasattr(node.func, 'attr') else node.func.id
    f = e.L.func('log10' if nm == 'log10' else 'ln', 'real', 'real')
    if isinstance(A, Arr):
        return e.new_obj(st, e.lam(lambda *ix: f(e.num(A[tuple(ix)], 'real')), A.shape, 'real'))
    return f(e.num(x, 'real'))


@prim('np.mean')
def _mean(e, st, node, x):
    a = e.deref(st, x)
    f = z3.Function('MEAN_%s' % a.kind, a.term.sort(), z3.IntSort(), z3.RealSort())
    e.emit(e.site('nonempty', node), st, a.shape[0] > 0)
    return f(a.term, a.shape[0])


@prim('np.hstack', 'np.concatenate', 'np.append')
def _concat(e, st, node, *xs, axis=None):
    if node.func.attr == 'append':
        parts = [e.deref(st, xs[0]), e.deref(st, xs[1])]
    else:
        t = e.deref(st, xs[0])
        if not isinstance(t, Tup):
            raise Unsupported('concatenate of a symbolic-length sequence')
        parts = [e.deref(st, p) for p in t.items]
    out = None
    for p in parts:
        if not isinstance(p, Arr):
            if is_sym(to_z3(p)):
                kind = 'real' if z3.is_real(to_z3(p)) else 'int'
                p = Arr(z3.K(z3.IntSort(), to_z3(p)), (1,), kind)
            else:
                raise Unsupported('concatenate part %r' % (p,))
        if p.ndim != 1:
            raise Unsupported('n-d concatenate')
        if out is None:
            out = p
        else:
            a, b = out, p
            kind = 'real' if 'real' in (a.kind, b.kind) else a.kind
            out = e.lam(lambda i, a=a, b=b: z3.If(i < a.shape[0], e.num(a[i], kind), e.num(b[i - a.shape[0]], kind)), (a.shape[0] + b.shape[0],), kind)
    return e.new_obj(st, out)


@prim('check_random_state')
def _crs(e, st, node, x=None):
    return Opaque('rng')


@prim('timed', 'log.timed', 'warnings.catch_warnings')
def _timed(e, st, node, *a, **k):
    return NONE


@prim('mpi.rank', 'mpi.comm.Get_rank')
def _rank(e, st, node):
    return 0


@prim('mpi.size', 'mpi.comm.Get_size')
def _size(e, st, node):
    return 1


# ------------------------------------------------------------------ methods
@method('copy')
def _copy(e, st, node, recv):
    a = e.deref(st, recv)
    if isinstance(a, Arr):
        return e.new_obj(st, Arr(a.term, a.shape, a.kind, a.init, a.meta))
    raise Unsupported('copy of %r' % (a,))


@method('append')
def _append(e, st, node, recv, x):
    a = e.deref(st, recv)
    if not isinstance(recv, Ref) and isinstance(recv, Maybe):
        recv = recv.val
    if isinstance(a, Arr) and a.ndim == 1:
        v = e.deref(st, x)
        if isinstance(v, Arr) and v.meta.get('slice_of') is not None and (a.meta.get('empty_literal') or a.kind == 'slices'):
            base, lo, n = v.meta['slice_of']
            if a.meta.get('empty_literal'):
                a = Arr((z3.K(z3.IntSort(), z3.IntVal(0)), z3.K(z3.IntSort(), z3.IntVal(0))), (0,), 'slices', meta={'list': True, 'base': base})
            if a.meta['base'] is not base and not z3.eq(a.meta['base'].term, base.term):
                raise Unsupported('list of slices of different arrays')
            st.heap[recv.oid] = Arr((z3.Store(a.term[0], a.shape[0], lo), z3.Store(a.term[1], a.shape[0], n)), (a.shape[0] + 1,), 'slices', None, a.meta)
            return NONE
        if a.kind == 'count':
            st.heap[recv.oid] = Arr(a.term, (a.shape[0] + 1,), 'count', None, a.meta)
            return NONE
        if isinstance(v, Arr) and a.kind == 'aranges':
            if v.meta.get('arange_of') is None:
                raise Unsupported('append of a general array to a list of aranges')
            st.heap[recv.oid] = Arr(tuple(z3.Store(c, a.shape[0], t) for c, t in zip(a.term, v.meta['arange_of'])), (a.shape[0] + 1,), 'aranges', None, a.meta)
            return NONE
        if isinstance(v, Tup) and all(is_sym(to_z3(t)) for t in v.items) and (a.meta.get('empty_literal') or a.kind == 'tuple'):
            items = [to_z3(t) for t in v.items]
            if a.meta.get('empty_literal'):
                a = Arr(tuple(z3.K(z3.IntSort(), t) for t in items), (0,), 'tuple', meta={'list': True})
            st.heap[recv.oid] = Arr(tuple(z3.Store(c, a.shape[0], t) for c, t in zip(a.term, items)), (a.shape[0] + 1,), 'tuple', None, a.meta)
            return NONE
        if isinstance(v, (Arr, Tup)) and a.meta.get('empty_literal'):
            raise Unsupported('list of arrays (declare its kind in the contract)')
        if a.meta.get('empty_literal'):
            vz = to_z3(x)
            kind = 'real' if z3.is_real(vz) else 'int' if z3.is_int(vz) else str(vz.sort()).lower()
            a = Arr(z3.K(z3.IntSort(), vz), (0,), kind, meta={'list': True})
        st.heap[recv.oid] = Arr(z3.Store(a.term, a.shape[0], e.num(x, a.kind)), (a.shape[0] + 1,), a.kind, a.init, a.meta)
        return NONE
    raise Unsupported('append to %r' % (a,))


@method('extend')
def _extend(e, st, node, recv, xs):
    a, b = e.deref(st, recv), e.deref(st, xs)
    if not (isinstance(a, Arr) and isinstance(b, Arr) and a.ndim == 1 and b.ndim == 1):
        raise Unsupported('extend form')
    if a.meta.get('empty_literal'):
        a = Arr(z3.K(z3.IntSort(), zero(b.kind)), (0,), b.kind, meta={'list': True})
    kind = a.kind
    new = e.lam(lambda i: z3.If(i < a.shape[0], a[i], e.num(b[i - a.shape[0]], kind)), (a.shape[0] + b.shape[0],), kind)
    new.meta = dict(a.meta)
    st.heap[recv.oid] = new
    return NONE


@method('pop')
def _pop(e, st, node, recv, i=None):
    a = e.deref(st, recv)
    if i is None:
        e.emit(e.site('nonempty', node), st, a.shape[0] > 0)
        v = a[a.shape[0] - 1]
        st.heap[recv.oid] = Arr(a.term, (a.shape[0] - 1,), a.kind, a.init, a.meta)
        return v
    i = e.norm_index(i, a.shape[0], st, node)
    v = a[i]
    st.heap[recv.oid] = e.lam(lambda j: z3.If(j < i, a[j], a[j + 1]), (a.shape[0] - 1,), a.kind)
    st.heap[recv.oid].meta = a.meta
    return v


@method('max', 'min')
def _mmax(e, st, node, recv, axis=None):
    a = e.deref(st, recv)
    return _reduce_extreme(e, st, node, a, node.func.attr == 'max')


@method('fill')
def _fill(e, st, node, recv, v):
    a = e.deref(st, recv)
    val = e.num(v, a.kind)
    t = z3.K(z3.IntSort(), val) if a.ndim == 1 else z3.Lambda([z3.Int('i!%d' % k) for k in range(a.ndim)], val)
    st.heap[recv.oid] = Arr(t, a.shape, a.kind, None, a.meta)
    return NONE


@method('astype')
def _astype(e, st, node, recv, dt, **kw):
    a = e.deref(st, recv)
    kind = kind_of_dtype(dt, a.kind)
    if kind == a.kind:
        return e.new_obj(st, Arr(a.term, a.shape, a.kind, a.init, a.meta))
    if kind == 'real':
        return e.new_obj(st, e.lam(lambda *ix: e.num(a[tuple(ix)], 'real'), a.shape, 'real'))
    if kind == 'bool' and a.kind in ('real', 'int'):
        return e.new_obj(st, e.lam(lambda *ix: a[tuple(ix)] != 0, a.shape, 'bool'))
    if kind == 'int' and a.kind == 'bool':
        return e.new_obj(st, e.lam(lambda *ix: z3.If(a[tuple(ix)], z3.IntVal(1), z3.IntVal(0)), a.shape, 'int'))
    if kind == 'int' and a.kind == 'real':
        # exact only for integral values: emitted as an obligation (truncation is not modelled)
        vs = [e.L.var('q') for _ in a.shape]
        e.emit(e.site('astype-integral', node), st, z3.ForAll(vs, z3.Implies(z3.And(*[c for v, s in zip(vs, a.shape) for c in (v >= 0, v < s)]), z3.IsInt(a[tuple(vs)]))))
        return e.new_obj(st, e.lam(lambda *ix: z3.ToInt(a[tuple(ix)]), a.shape, 'int'))
    raise Unsupported('astype %s -> %s' % (a.kind, kind))


@method('sum')
def _msum(e, st, node, recv, axis=None):
    return _arr_sum(e, st, node, e.deref(st, recv), axis)


@method('mean')
def _mmean(e, st, node, recv):
    return _mean(e, st, node, recv)


@method('flatten', 'ravel', 'squeeze')
def _flatten(e, st, node, recv):
    a = e.deref(st, recv)
    if a.ndim == 1:
        return e.new_obj(st, Arr(a.term, a.shape, a.kind, a.init, {}))
    raise Unsupported('flatten of n-d')


@method('format')
def _format(e, st, node, recv, *a, **k):
    return Str()


@method('tolist')
def _tolist(e, st, node, recv):
    a = e.deref(st, recv)
    return e.new_obj(st, Arr(a.term, a.shape, a.kind, a.init, dict(a.meta, list=True)))


@method('all')
def _mall(e, st, node, recv):
    return _all(e, st, node, recv)


@method('any')
def _many(e, st, node, recv):
    return _any(e, st, node, recv)


@method('choice')
def _choice(e, st, node, recv, seq, **kw):
    """random_state.choice(a): a nondeterministic member of a (every seed is covered)"""
    a = e.deref(st, seq)
    if not isinstance(a, Arr):
        raise Unsupported('choice from %r' % (a,))
    e.emit(e.site('nonempty', node), st, a.shape[0] > 0)
    k = e.fresh('pick', 'int')
    st.pc.append(z3.And(k >= 0, k < a.shape[0]))
    return a[k]


def _where2d(e, st, node, m):
    R_, C_ = e.fresh('wrows', e.arr_sort('int')), e.fresh('wcols', e.arr_sort('int'))
    cnt = e.fresh('cnt', 'int')
    rk = e.fresh_fn('rk2', [z3.IntSort(), z3.IntSort()], z3.IntSort())
    i, j, k = e.L.var('q'), e.L.var('q'), e.L.var('q')
    st.pc += [cnt >= 0,
              z3.ForAll([k], z3.Implies(z3.And(k >= 0, k < cnt), z3.And(R_[k] >= 0, R_[k] < m.shape[0], C_[k] >= 0, C_[k] < m.shape[1], m[R_[k], C_[k]]))),
              z3.ForAll([i, j], z3.Implies(z3.And(0 <= i, i < j, j < cnt), z3.Or(R_[i] < R_[j], z3.And(R_[i] == R_[j], C_[i] < C_[j])))),
              z3.ForAll([i, j], z3.Implies(z3.And(0 <= i, i < m.shape[0], 0 <= j, j < m.shape[1], m[i, j]),
                                           z3.And(rk(i, j) >= 0, rk(i, j) < cnt, R_[rk(i, j)] == i, C_[rk(i, j)] == j)))]
    t = Tup([e.new_obj(st, Arr(R_, (cnt,), 'int')), e.new_obj(st, Arr(C_, (cnt,), 'int'))])
    t.where_mask = m          # indexing with this tuple is indexing with the mask itself
    return t


@prim('ra.where')
def _rawhere(e, st, node, mask):
    m = e.deref(st, mask)
    if isinstance(m, Arr) and m.ndim == 2:
        return _where2d(e, st, node, m)
    raise Unsupported('ra.where on %r' % (m,))


@prim('np.bincount')
def _bincount(e, st, node, x, minlength=None):
    a = e.deref(st, x)
    if not isinstance(a, Arr) or a.ndim != 1:
        raise Unsupported('bincount of %r' % (a,))
    j = e.L.var('q')
    e.emit(e.site('nonneg', node), st, z3.ForAll([j], z3.Implies(z3.And(j >= 0, j < a.shape[0]), a[j] >= 0)))
    Lb = e.fresh('binlen', 'int')
    ml = z3.IntVal(0) if minlength is None else to_z3(minlength)
    w = e.fresh('w', 'int')
    st.pc += [Lb >= ml, Lb >= 0, z3.ForAll([j], z3.Implies(z3.And(j >= 0, j < a.shape[0]), a[j] < Lb)),
              z3.Implies(Lb > ml, z3.And(w >= 0, w < a.shape[0], a[w] == Lb - 1))]
    BC = z3.Function('BINCOUNT', a.term.sort(), z3.IntSort(), z3.IntSort(), z3.IntSort())
    return e.new_obj(st, e.lam(lambda v: BC(a.term, a.shape[0], v), (Lb,), 'int'))


@prim('ra.RaggedArray', 'RaggedArray')
def _ragged(e, st, node, array, lengths=None, **kw):
    """constructor contract (flat data + lengths form): rows are the consecutive windows of `array`"""
    if lengths is None:
        raise Unsupported('RaggedArray from nested lists')
    a = e.deref(st, array)
    # the real constructor never sets _data for empty input (ra.py: `elif len(array) > 0`)
    e.emit(e.site('ctor-data-nonempty', node), st, a.shape[0] > 0)
    return e.new_obj(st, RecV('RaggedArray', {'_data': array, 'lengths': lengths}))


@prim('np.row_stack', 'np.vstack')
def _rowstack(e, st, node, tup):
    t = e.deref(st, tup)
    if not isinstance(t, Tup):
        raise Unsupported('row_stack of a symbolic-length sequence')
    rows = [e.deref(st, r) for r in t.items]
    if not all(isinstance(r, Arr) and r.ndim == 1 for r in rows):
        raise Unsupported('row_stack of non 1-d rows')
    for r in rows[1:]:
        e.emit(e.site('shape', node), st, r.shape[0] == rows[0].shape[0])
    kind = 'real' if any(r.kind == 'real' for r in rows) else rows[0].kind
    def f(i, j):
        v = e.num(rows[-1][j], kind)
        for k in range(len(rows) - 2, -1, -1):
            v = z3.If(i == k, e.num(rows[k][j], kind), v)
        return v
    return e.new_obj(st, e.lam(f, (z3.IntVal(len(rows)), rows[0].shape[0]), kind))


@prim('util._get_distance_method', '_get_distance_method')
def _gdm(e, st, node, m):
    """name -> compiled kernel, callable -> itself; the kernels obey the metric contract by C13"""
    return m


@prim('util.ClusterResult', 'ClusterResult')
def _cluster_result(e, st, node, **kw):
    return e.new_obj(st, RecV('ClusterResult', kw))


@prim('mpi.ops.striped_array_mean')
def _striped_mean(e, st, node, x):
    """serial mode (mpi.size()==1): the plain mean"""
    return _mean(e, st, node, x)


@prim('mpi.ops.striped_array_max')
def _striped_max(e, st, node, x):
    return _reduce_extreme(e, st, node, e.deref(st, x), True)


@method('reshape')
def _reshape(e, st, node, recv, *shape):
    """only the shapes the targets use: 1-d -> (-1,1)/(n,1) column (a view), 1-d -> (-1,) / same length"""
    a = e.deref(st, recv)
    dims = [e.deref(st, d) for d in shape]
    if len(dims) == 1 and isinstance(dims[0], Tup):
        dims = [e.deref(st, d) for d in dims[0].items]
    def is_m1(d):
        return isinstance(d, int) and d == -1
    if isinstance(a, Arr) and a.ndim == 1:
        if len(dims) == 2 and (is_m1(dims[0]) or True) and isinstance(dims[1], int) and dims[1] == 1:
            return e.new_obj(st, Arr(a.term, a.shape, a.kind, a.init, dict(a.meta, column=True)))
        if len(dims) == 1:
            return e.new_obj(st, Arr(a.term, a.shape, a.kind, a.init, {k: v for k, v in a.meta.items() if k != 'list'}))
    raise Unsupported('reshape form')


@prim('str', 'repr')
def _str(e, st, node, x=None):
    return Str()


@prim('sparse.issparse', 'scipy.sparse.issparse', 'scipy.sparse.isspmatrix', 'sparse.isspmatrix')
def _issparse(e, st, node, x):
    """dense branch: the executor's arrays are dense ndarrays (sparse containers are covered by the bounded drivers)"""
    return False


@prim('scipy.sparse.linalg.spsolve', 'np.linalg.solve', 'spsolve')
def _solve(e, st, node, M, R):
    """exact solution X of M X = R (trusted); the relation is a ghost predicate used by the Lean lemmas"""
    m, r = e.deref(st, M), e.deref(st, R)
    if not (isinstance(m, Arr) and m.ndim == 2 and isinstance(r, Arr)):
        raise Unsupported('solve form')
    e.emit(e.site('shape', node), st, z3.And(m.shape[0] == m.shape[1], r.shape[0] == m.shape[0]))
    X = e.fresh('solution', r.term.sort())
    rel = z3.Function('SOLVES_%dd' % r.ndim, m.term.sort(), r.term.sort(), r.term.sort(), z3.BoolSort())
    st.pc.append(rel(m.term, r.term, X))
    return e.new_obj(st, Arr(X, r.shape, 'real'))


@prim('np.linalg.inv', 'scipy.linalg.inv')
def _inv(e, st, node, M):
    """exact inverse (trusted): a fresh matrix Z related to M by the ghost predicate INVERSE_OF(M, Z)  (M Z = I; used by lemmas/MfptAll.lean)"""
    m = e.deref(st, M)
    if not (isinstance(m, Arr) and m.ndim == 2):
        raise Unsupported('inv form')
    e.emit(e.site('shape', node), st, m.shape[0] == m.shape[1])
    Z = e.fresh('inverse', m.term.sort() if m.kind == 'real' else e.arr_sort('real', 2))
    rel = z3.Function('INVERSE_OF', m.term.sort(), Z.sort(), z3.BoolSort())
    st.pc.append(rel(m.term, Z))
    return e.new_obj(st, Arr(Z, m.shape, 'real', meta={'inverse_of': m}))


@prim('np.argsort')
def _argsort(e, st, node, x, axis=None, kind=None):
    """indices that sort x in non-decreasing order: a permutation of 0..n-1 (trusted)"""
    a = e.deref(st, x)
    if not (isinstance(a, Arr) and a.ndim == 1):
        raise Unsupported('argsort form')
    n = a.shape[0]
    O = e.fresh('order', e.arr_sort('int'))
    INV = e.fresh_fn('order_inv', [z3.IntSort()], z3.IntSort())
    i, j = e.L.var('q'), e.L.var('q')
    st.pc += [z3.ForAll([i], z3.Implies(z3.And(i >= 0, i < n), z3.And(z3.Select(O, i) >= 0, z3.Select(O, i) < n, INV(z3.Select(O, i)) == i))),
              z3.ForAll([i], z3.Implies(z3.And(i >= 0, i < n), z3.And(INV(i) >= 0, INV(i) < n, z3.Select(O, INV(i)) == i))),       # a permutation
              z3.ForAll([i, j], z3.Implies(z3.And(i >= 0, i <= j, j < n), a[z3.Select(O, i)] <= a[z3.Select(O, j)]))]               # sorted
    return e.new_obj(st, Arr(O, (n,), 'int', meta={'distinct': True}))


@prim('np.real')
def _real(e, st, node, x):
    """real part: the executor's numbers are reals (complex eigenpairs are outside the model: assumed real)"""
    return x


@prim('scipy.linalg.eig', 'np.linalg.eig')
def _eig(e, st, node, M, left=None, right=None):
    """eigen-decomposition (trusted LAPACK): fresh values / vectors related to M by the ghost predicate EIGENPAIRS_OF(M, vals, vecs)
    (column k of vecs is an eigenvector of M for vals[k]); values assumed real"""
    m = e.deref(st, M)
    if not (isinstance(m, Arr) and m.ndim == 2):
        raise Unsupported('eig form')
    e.emit(e.site('shape', node), st, m.shape[0] == m.shape[1])
    mt = m.term if m.kind == 'real' else e.lam(lambda i_, j_: e.num(m[i_, j_], 'real'), m.shape, 'real').term
    # the solver's output as (uninterpreted) functions of the matrix: contracts can name them without quantifying over them
    vals = z3.Function('EIGVALS', mt.sort(), e.arr_sort('real'))(mt)
    vecs = z3.Function('EIGVECS', mt.sort(), e.arr_sort('real', 2))(mt)
    rel = z3.Function('EIGENPAIRS_OF', mt.sort(), vals.sort(), vecs.sort(), z3.BoolSort())
    st.pc.append(rel(mt, vals, vecs))
    return Tup([e.new_obj(st, Arr(vals, (m.shape[0],), 'real', meta={'eig_of': m})), e.new_obj(st, Arr(vecs, (m.shape[0], m.shape[0]), 'real', meta={'eig_of': m}))])


@prim('np.diag')
def _diag(e, st, node, M):
    m = e.deref(st, M)
    if isinstance(m, Arr) and m.ndim == 2:
        e.emit(e.site('shape', node), st, m.shape[0] == m.shape[1])
        return e.new_obj(st, e.lam(lambda i: m[i, i], (m.shape[0],), m.kind))
    raise Unsupported('np.diag form')


@prim('time.perf_counter', 'time.time', 'time.process_time')
def _clock(e, st, node):
    return e.fresh('clock', 'real')        # wall-clock readings: unconstrained reals (only ever stored in runtime_ attributes)


@prim('warnings.simplefilter')
def _simplefilter(e, st, node, *a, **k):
    return NONE


_old_reshape = P.methods['reshape']


@method('reshape')
def _reshape2(e, st, node, recv, *shape):
    a = e.deref(st, recv)
    dims = [e.deref(st, d) for d in shape]
    if len(dims) == 1 and isinstance(dims[0], Tup):
        dims = [e.deref(st, d) for d in dims[0].items]
    if isinstance(a, Arr) and a.ndim == 2 and len(dims) == 2:
        d0, d1 = to_z3(dims[0]), to_z3(dims[1])
        if is_sym(d0) and is_sym(d1) and z3.eq(z3.simplify(d0), z3.simplify(a.shape[0])) and z3.eq(z3.simplify(d1), z3.simplify(a.shape[1])):
            return e.new_obj(st, Arr(a.term, a.shape, a.kind, a.init, a.meta))      # same shape: identity
        raise Unsupported('2-d reshape to a different shape')
    return _old_reshape(e, st, node, recv, *shape)


@prim('np.ix_')
def _ix(e, st, node, a, b):
    A, B = e.deref(st, a), e.deref(st, b)
    t = Tup([a, b])
    t.ix_grid = (A, B)
    return t


@prim('connected_components', 'scipy.sparse.csgraph.connected_components', 'csgraph.connected_components')
def _scc(e, st, node, graph, connection=None, directed=None, **kw):
    """SciPy's strongly connected components (assumed contract): labels in [0, n_components), every label used, and the
    labelling IS the SCC partition of the positive-entry digraph - the last fact is the ghost predicate SCC_LABELS"""
    g = e.deref(st, graph)
    if not (isinstance(g, Arr) and g.ndim == 2) or not (isinstance(connection, Str) and connection.s == 'strong'):
        raise Unsupported('connected_components form')
    n = g.shape[0]
    nc = e.fresh('n_components', 'int')
    lab = e.fresh('labels', e.arr_sort('int'))
    rep = e.fresh_fn('rep', [z3.IntSort()], z3.IntSort())
    q = e.L.var('q')
    rel = z3.Function('SCC_LABELS', g.term.sort(), z3.IntSort(), lab.sort(), z3.BoolSort())
    st.pc += [nc >= 0, z3.Implies(n > 0, nc >= 1), z3.ForAll([q], z3.Implies(z3.And(q >= 0, q < n), z3.And(lab[q] >= 0, lab[q] < nc))),
              z3.ForAll([q], z3.Implies(z3.And(q >= 0, q < nc), z3.And(rep(q) >= 0, rep(q) < n, lab[rep(q)] == q))), rel(g.term, n, lab)]
    return Tup([nc, e.new_obj(st, Arr(lab, (n,), 'int'))])


_old_trimmapping = P.fns['TrimMapping']


@prim('TrimMapping')
def _trimmapping2(e, st, node, pairs=None):
    p = e.deref(st, pairs)
    if isinstance(p, Tup) and isinstance(p.items[0], Opaque) and p.items[0].tag == 'zip' and len(p.items) == 3:
        a, b = e.deref(st, p.items[1]), e.deref(st, p.items[2])
        if isinstance(a, Arr) and a.ndim == 1:
            if isinstance(b, Arr):
                mapped = b
            elif isinstance(b, Tup) and isinstance(b.items[0], Opaque) and b.items[0].tag == 'range':
                mapped = e.lam(lambda i: i, (to_z3(b.items[1]),), 'int')
            else:
                raise Unsupported('TrimMapping pair list form')
            return e.new_obj(st, RecV('TrimMapping', {'original': e.new_obj(st, a), 'mapped': e.new_obj(st, mapped)}))
    return _old_trimmapping(e, st, node, pairs)


# ------------------------------------------------------------------ ragged lists (lists of arrays of varying length)
from .engine import RArr


class ConcatR:
    """np.concatenate(list of 1-d arrays) kept lazily"""
    def __init__(self, ra_):
        self.ra = ra_


_old_array = P.fns['np.array']


@prim('np.array')
def _array_r(e, st, node, x, dtype=None, copy=None):
    a = e.deref(st, x)
    if isinstance(a, RArr):
        return x              # an object array of per-row arrays: same rows
    return _old_array(e, st, node, x, dtype=dtype, copy=copy)


_old_concat = P.fns['np.concatenate']


def concat_blocks(e, st, n, width, cell, kind, tag='cat'):
    """concatenation of n 1-d blocks: C[PS(c) + t] = block_c[t] for 0 <= t < width(c); PS = prefix sums of the widths (ghost).
    Trusted facts about prefix sums of non-negative widths (induction): 0 <= PS(c) <= PS(n); every position lies in one block."""
    PS = e.fresh_fn(tag.upper() + 'PS', [z3.IntSort()], z3.IntSort())
    BLK = e.fresh_fn(tag.upper() + 'BLK', [z3.IntSort()], z3.IntSort())
    C = e.fresh(tag, e.arr_sort(kind))
    c, t = e.L.var('q'), e.L.var('q')
    st.pc += [PS(0) == 0,
              z3.ForAll([c], z3.Implies(z3.And(c >= 0, c < n), z3.And(PS(c + 1) == PS(c) + width(c), width(c) >= 0))),
              z3.ForAll([c, t], z3.Implies(z3.And(c >= 0, c < n, t >= 0, t < width(c)), z3.Select(C, PS(c) + t) == cell(c, t))),
              z3.ForAll([c], z3.Implies(z3.And(c >= 0, c <= n), z3.And(PS(c) >= 0, PS(c) <= PS(n)))),
              z3.ForAll([c, t], z3.Implies(z3.And(c >= 0, c <= t, t <= n), PS(c) <= PS(t))),          # prefix_mono (lemmas/Sums.lean)
              z3.ForAll([t], z3.Implies(z3.And(t >= 0, t < PS(n)), z3.And(BLK(t) >= 0, BLK(t) < n, PS(BLK(t)) <= t, t < PS(BLK(t) + 1)))),
              # the same content read by position (a consequence of the lines above, stated so that C[k] can be rewritten directly)
              z3.ForAll([t], z3.Implies(z3.And(t >= 0, t < PS(n)), z3.Select(C, t) == cell(BLK(t), t - PS(BLK(t)))))]
    return e.new_obj(st, Arr(C, (PS(n),), kind, meta={'PS': PS, 'BLK': BLK, 'blocks': n}))


@prim('np.concatenate')
def _concat_r(e, st, node, *xs, axis=None, dtype=None):
    a = e.deref(st, xs[0])
    if isinstance(a, RArr) and a.tmpl.ndim == 1:
        if not getattr(e.c, 'concat_full', False):
            return ConcatR(a)
        return concat_blocks(e, st, a.n, lambda c: a.row(c).shape[0], lambda c, t: a.row(c)[t], a.kind)
    if isinstance(a, Arr) and a.kind == 'aranges':
        lo, hi, sp, m = a.term
        def cell(c, t):
            s = z3.simplify(sp[c])
            return lo[c] + (t if (z3.is_int_value(s) and s.as_long() == 1) else e.nl_mul(t, sp[c]))
        return concat_blocks(e, st, a.shape[0], lambda c: m[c], cell, 'int', tag='cata')
    return _old_concat(e, st, node, *xs, axis=axis)


_old_max_m = P.methods['max']


@method('max')
def _max_r(e, st, node, recv, axis=None):
    a = e.deref(st, recv)
    if isinstance(a, ConcatR):
        r = a.ra
        m = e.fresh('max', r.kind)
        c, i = e.L.var('q'), e.L.var('q')
        row = r.row(c)
        wc, wi = e.fresh('wc', 'int'), e.fresh('wi', 'int')
        e.emit(e.site('nonempty', node), st, z3.Exists([c], z3.And(c >= 0, c < r.n, row.shape[0] > 0)))
        st.pc.append(z3.ForAll([c, i], z3.Implies(z3.And(c >= 0, c < r.n, i >= 0, i < row.shape[0]), row[i] <= m)))
        wrow = r.row(wc)
        st.pc.append(z3.And(wc >= 0, wc < r.n, wi >= 0, wi < wrow.shape[0], wrow[wi] == m))
        return m
    return _old_max_m(e, st, node, recv, axis=axis)


_old_hstack = P.fns['np.hstack']


@prim('np.hstack')
def _hstack_r(e, st, node, *xs, axis=None):
    a = e.deref(st, xs[0])
    if isinstance(a, RArr) and a.tmpl.ndim == 2:
        # blocks (r x m_c) side by side: H[r, PS(c) + t] = block_c[r, t];  PS = prefix sums of the block widths (ghost)
        r = a
        PS = e.fresh_fn('HPS', [z3.IntSort()], z3.IntSort())
        H = e.fresh('hstack', e.arr_sort(r.kind, 2))
        c, t, q = e.L.var('q'), e.L.var('q'), e.L.var('q')
        blk = r.row(c)
        st.pc += [PS(0) == 0, z3.ForAll([c], z3.Implies(z3.And(c >= 0, c < r.n), z3.And(PS(c + 1) == PS(c) + blk.shape[1], blk.shape[1] >= 0))),
                  z3.ForAll([c, q, t], z3.Implies(z3.And(c >= 0, c < r.n, q >= 0, q < blk.shape[0], t >= 0, t < blk.shape[1]),
                                                  z3.Select(H, q, PS(c) + t) == blk[q, t]))]
        # trusted facts about a prefix sum of non-negative widths (induction): monotone, and every column lies in one block
        BLK = e.fresh_fn('HBLK', [z3.IntSort()], z3.IntSort())
        st.pc += [z3.ForAll([c], z3.Implies(z3.And(c >= 0, c <= r.n), z3.And(PS(c) >= 0, PS(c) <= PS(r.n)))),
                  z3.ForAll([t], z3.Implies(z3.And(t >= 0, t < PS(r.n)), z3.And(BLK(t) >= 0, BLK(t) < r.n, PS(BLK(t)) <= t, t < PS(BLK(t) + 1))))]
        rows0 = r.row(z3.IntVal(0)).shape[0]
        out = Arr(H, (rows0, PS(r.n)), r.kind, meta={'hstack_of': r, 'PS': PS, 'BLK': BLK})
        return e.new_obj(st, out)
    return _old_hstack(e, st, node, *xs, axis=axis)


@prim('scipy.sparse.coo_matrix', 'coo_matrix')
def _coo(e, st, node, arg, shape=None, **kw):
    """coo_matrix((data, coords), shape): entry (i,j) = sum of data[k] over k with coords[0,k]=i, coords[1,k]=j (trusted)"""
    a = e.deref(st, arg)
    if not (isinstance(a, Tup) and len(a.items) == 2):
        raise Unsupported('coo_matrix form')
    data, coords = e.deref(st, a.items[0]), e.deref(st, a.items[1])
    shp = e.deref(st, shape)
    if not (isinstance(coords, Arr) and coords.ndim == 2 and isinstance(shp, Tup)):
        raise Unsupported('coo_matrix form')
    e.emit(e.site('shape', node), st, z3.And(coords.shape[0] == 2, data.shape[0] == coords.shape[1]))
    k = e.L.var('q')
    e.emit(e.site('coo-coordinates-in-range', node), st,
           z3.ForAll([k], z3.Implies(z3.And(k >= 0, k < coords.shape[1]),
                                     z3.And(coords[0, k] >= 0, coords[0, k] < to_z3(shp.items[0]), coords[1, k] >= 0, coords[1, k] < to_z3(shp.items[1])))))
    return e.new_obj(st, RecV('coo_matrix', {'data': a.items[0], 'coords': a.items[1], 'shape': shape, 'n_rows': to_z3(shp.items[0]), 'n_cols': to_z3(shp.items[1])}))


@prim('numbers.Integral')
def _integral(e, st, node, *a):
    return Func('numbers.Integral')
