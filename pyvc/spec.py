"""Contract objects (sidecar specifications of real functions) and the run-time (concrete) checker.

A Contract is interpreted twice:
  * by pyvc.engine (symbolic, z3)   -> verification conditions, discharged for all inputs
  * by `runtime_check` (concrete)   -> the same requires/ensures/raises/frame clauses evaluated on the
    real function's actual arguments and results: counter-model replay and *bounded* stand-ins.
This module must import under /venv/bin/python (no z3) and python3-vt (no numpy).
"""
import copy


class Contract:
    key = None            # 'enspara/pkg/mod.py::qualname'
    modifies = ()         # parameters whose objects the function may mutate
    resizes = ()          # subset of modifies whose length may change
    invariants = {}       # loop ordinal (source order) -> lambda L, V: [(name, formula)]
    local_kinds = {}      # kinds of loop-local names / empty-list literals
    resizable = ()        # locals whose length changes inside loops
    abstract_nonlinear = True
    pure_result = True

    # ---- symbolic side only
    def params(self, e, st):
        raise NotImplementedError

    def result(self, e, st, args):
        """fresh symbolic result at a call site"""
        raise NotImplementedError('contract %s cannot be used at call sites' % self.key)

    def pins(self):
        return []

    def want(self):
        return {}

    # ---- both sides
    def ghost(self, L, A):
        return None, []

    def requires(self, L, A, G):
        return []

    def ensures(self, L, A, N, R, G, V):
        return []

    def raises(self, L, A, G):
        return {}


class ContractFailure(Exception):
    def __init__(self, key, clause, detail=''):
        Exception.__init__(self, '%s: clause %s failed %s' % (key, clause, detail))
        self.key, self.clause, self.detail = key, clause, detail


def _snapshot(x):
    try:
        return copy.deepcopy(x)
    except Exception:
        return x


def runtime_check(contract, func, args, L, stats=None, skip_frame=(), call_guard=None):
    """call the real function under the contract.  Returns ('vacuous'|'ok', result);
    raises ContractFailure naming the failed clause."""
    A = {k: _snapshot(v) for k, v in args.items()}
    G, _ = contract.ghost(L, A)
    pre = [(n, bool(p)) for n, p in contract.requires(L, A, G)]
    if stats is not None:
        stats['calls'] = stats.get('calls', 0) + 1
    if not all(p for _, p in pre):
        if stats is not None:
            stats['vacuous'] = stats.get('vacuous', 0) + 1
            why = '%s pre:%s' % (contract.key.split('::')[-1], [n for n, p in pre if not p][0])
            stats.setdefault('vacuous_by', {})
            stats['vacuous_by'][why] = stats['vacuous_by'].get(why, 0) + 1
        return 'vacuous', None
    allowed = contract.raises(L, A, G)
    try:
        if call_guard is not None:
            with call_guard():
                R = func(**args)
        else:
            R = func(**args)
    except Exception as ex:
        if type(ex).__name__ == 'CaseTimeout':
            raise
        name = type(ex).__name__
        if name in allowed and bool(allowed[name]):
            if stats is not None:
                stats['raised_ok'] = stats.get('raised_ok', 0) + 1
            return 'ok', ex
        raise ContractFailure(contract.key, 'raises:unexpected-%s' % name, repr(ex))
    for exc, cond in allowed.items():
        if bool(cond):
            raise ContractFailure(contract.key, 'post:must-raise-%s' % exc, 'returned normally')
    N = args
    for clause_ in contract.ensures(L, A, N, R, G, None):
        name, g = clause_[0], clause_[1]
        if not bool(g):
            raise ContractFailure(contract.key, 'post:' + name)
    mods = set(contract.modifies)
    for k in args:
        if k in mods or k in skip_frame:
            continue
        if not _same(A[k], args[k]):
            raise ContractFailure(contract.key, 'frame:' + k)
    if stats is not None:
        stats['checked'] = stats.get('checked', 0) + 1
    return 'ok', R


def _same(a, b):
    """value equality for the kinds of arguments whose frame we track; other objects are not compared"""
    try:
        import numpy as np
        if isinstance(a, np.ndarray) or isinstance(b, np.ndarray):
            a, b = np.asarray(a), np.asarray(b)
            if a.dtype == object or b.dtype == object:
                return a.shape == b.shape and all(_same(x, y) for x, y in zip(a.ravel(), b.ravel()))
            return a.shape == b.shape and a.dtype == b.dtype and bool(np.array_equal(a, b, equal_nan=a.dtype.kind == 'f'))
        if isinstance(a, (list, tuple)):
            return type(a) == type(b) and len(a) == len(b) and all(_same(x, y) for x, y in zip(a, b))
        if isinstance(a, dict):
            return isinstance(b, dict) and a.keys() == b.keys() and all(_same(a[k], b[k]) for k in a)
        if isinstance(a, (int, float, bool, str, type(None), np.generic)):
            return type(a) == type(b) and (a == b or (a != a and b != b))
        if hasattr(a, '_data') and hasattr(a, 'lengths'):          # RaggedArray
            return _same(np.asarray(a._data), np.asarray(b._data)) and _same(np.asarray(a.lengths), np.asarray(b.lengths))
        if hasattr(a, 'toarray') and hasattr(b, 'toarray'):        # scipy sparse
            return type(a) == type(b) and a.shape == b.shape and bool(np.array_equal(a.toarray(), b.toarray()))
        return True
    except Exception:
        return True
