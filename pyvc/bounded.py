"""Harness for the *bounded* stand-ins and for counter-model replay (runs under /venv/bin/python with
the overlay of /repo's current tree first on sys.path).  The contracts evaluated here are the same
objects the prover uses, interpreted concretely (pyvc.logic.ConL)."""
import sys
sys.modules['mpi4py'] = None          # enspara.mpi falls back to its serial DummyComm (libmpi is absent)
import os, json, time, argparse, warnings, logging, traceback
warnings.filterwarnings('ignore')
logging.disable(logging.CRITICAL)

from pyvc.logic import ConL
from pyvc.spec import runtime_check, ContractFailure


def jsonable(x, depth=0):
    try:
        import numpy as np
        if isinstance(x, np.ndarray):
            return {'ndarray': x.tolist(), 'dtype': str(x.dtype)} if x.size <= 400 else {'ndarray_shape': list(x.shape), 'dtype': str(x.dtype)}
        if isinstance(x, (np.integer,)):
            return int(x)
        if isinstance(x, (np.floating,)):
            return float(x)
        if isinstance(x, np.bool_):
            return bool(x)
    except Exception:
        pass
    if isinstance(x, dict):
        return {str(k): jsonable(v, depth + 1) for k, v in x.items()}
    if isinstance(x, (list, tuple)):
        return [jsonable(v, depth + 1) for v in x]
    if isinstance(x, (int, float, str, bool)) or x is None:
        return x
    if callable(x):
        return '<callable %s>' % getattr(x, '__name__', '?')
    return repr(x)[:200]


def main(cases_fn, replay_fn=None, describe=None):
    ap = argparse.ArgumentParser()
    ap.add_argument('--tier', default='quick')
    ap.add_argument('--seed', type=int, default=0)
    ap.add_argument('--replay', default=None)
    ap.add_argument('--max-failures', type=int, default=6)
    ap.add_argument('--record', type=int, default=0, help='record N real executions (arguments, result / exception) per function for the conformance check')
    a, rest = ap.parse_known_args()
    L = ConL()
    if a.replay is not None:
        payload = json.load(sys.stdin if a.replay == '-' else open(a.replay))
        import signal

        class ReplayTimeout(Exception):
            pass

        def on_alarm_r(signum, frame):
            raise ReplayTimeout()
        signal.signal(signal.SIGALRM, on_alarm_r)
        signal.setitimer(signal.ITIMER_REAL, float(os.environ.get('VERIF_CASE_TIMEOUT', '60')) * 2)
        try:
            out = replay_fn(L, payload)
        except ReplayTimeout:
            out = {'outcome': 'contract-failed', 'detail': 'the real function did not return within the replay time limit (non-termination?)', 'clause': 'raises:does-not-terminate'}
        except ContractFailure as cf:
            out = {'outcome': 'contract-failed', 'detail': str(cf), 'clause': cf.clause}
        except Exception as ex:
            out = {'outcome': 'error', 'detail': traceback.format_exc()[-800:]}
        print(json.dumps({'replay': jsonable(out)}))
        return
    if a.record:
        from pyvc.conform import enc
        import copy
        per, out, seen, skipc = {}, [], 0, {}
        stride = int(os.environ.get('VERIF_RECORD_STRIDE', '7'))
        want = set(x for x in os.environ.get('VERIF_RECORD_KEYS', '').split(',') if x)
        for (contract, func, args, label) in cases_fn(L, a.tier, a.seed):
            seen += 1
            if seen > 20000 or (want and all(per.get(k, 0) >= a.record for k in want)):
                break
            key = contract.key
            if (want and key not in want) or per.get(key, 0) >= a.record:
                continue
            skipc[key] = skipc.get(key, 0) + 1
            if (skipc[key] - 1) % stride:
                continue            # spread the samples over the case list
            try:
                A0 = {k: copy.deepcopy(v) for k, v in args.items()}
                G, _ = contract.ghost(L, A0)
                if not all(bool(p) for _, p in contract.requires(L, A0, G)):
                    continue
                rec = {'key': key, 'args': {k: enc(v) for k, v in A0.items()}}
            except Exception:
                continue
            try:
                res = func(**args)
                rec['result'] = enc(res)
            except Exception as ex:
                rec['raised'] = type(ex).__name__
            # spread the samples: keep every (seen-th) so that different shapes are recorded
            per[key] = per.get(key, 0) + 1
            out.append(rec)
        print(json.dumps({'samples': out}))
        return
    t0 = time.time()
    stats = {}
    failures, by_clause = [], {}
    n = 0
    labels = []
    per_key = {}
    import signal, resource
    try:
        resource.setrlimit(resource.RLIMIT_AS, (12 << 30, 12 << 30))
    except Exception:
        pass

    class CaseTimeout(Exception):
        pass

    def on_alarm(signum, frame):
        raise CaseTimeout()
    signal.signal(signal.SIGALRM, on_alarm)
    per_case = float(os.environ.get('VERIF_CASE_TIMEOUT', '60'))
    import contextlib

    @contextlib.contextmanager
    def guard():
        # time limit on the call of the real function only (not on evaluating the contract)
        signal.setitimer(signal.ITIMER_REAL, per_case)
        try:
            yield
        finally:
            signal.setitimer(signal.ITIMER_REAL, 0)
    progress = os.environ.get('VERIF_PROGRESS_FILE')
    for (contract, func, args, label) in cases_fn(L, a.tier, a.seed):
        n += 1
        per_key[contract.key] = per_key.get(contract.key, 0) + 1
        if progress:
            # the case about to run: if the real code kills the interpreter (segfault in a compiled kernel) the runner reports this input
            try:
                with open(progress, 'w') as pf:
                    pf.write(json.dumps({'key': contract.key, 'input': jsonable(label), 'n': n}))
            except OSError:
                pass
        try:
            runtime_check(contract, func, args, L, stats, call_guard=guard)
        except (CaseTimeout, MemoryError) as ex:
            k = (contract.key, 'raises:does-not-terminate' if isinstance(ex, CaseTimeout) else 'raises:MemoryError')
            by_clause[k] = by_clause.get(k, 0) + 1
            if by_clause[k] <= 2:
                failures.append({'key': contract.key, 'clause': k[1], 'detail': 'no result within %.0f s (or memory exhausted)' % per_case, 'input': jsonable(label)})
            if by_clause[k] >= 5:
                break
        except ContractFailure as cf:
            k = (cf.key, cf.clause)
            by_clause[k] = by_clause.get(k, 0) + 1
            if by_clause[k] <= 2 and len(failures) < a.max_failures * 4:
                failures.append({'key': cf.key, 'clause': cf.clause, 'detail': cf.detail[:300], 'input': jsonable(label)})
        except Exception as ex:
            k = (contract.key, 'harness-error')
            by_clause[k] = by_clause.get(k, 0) + 1
            if by_clause[k] <= 1:
                failures.append({'key': contract.key, 'clause': 'harness-error:' + type(ex).__name__, 'detail': traceback.format_exc()[-600:], 'input': jsonable(label)})
        if len(labels) < 3:
            labels.append(jsonable(label))
    out = {'cases': n, 'checked': stats.get('checked', 0) + stats.get('raised_ok', 0), 'vacuous': stats.get('vacuous', 0),
           'failures': failures, 'failure_counts': {'%s %s' % k: v for k, v in by_clause.items()},
           'samples': labels, 'per_function': per_key, 'vacuous_by': stats.get('vacuous_by', {}), 'secs_inner': round(time.time() - t0, 1)}
    if describe:
        out['scope'] = describe
    print(json.dumps({'bounded': out}))
