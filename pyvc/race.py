"""Race-freedom obligations for Cython `prange` loops (DESIGN 2.6): the DOALL conditions, decided syntactically.
 (W) every array write inside iteration v has v as its leading index;
 (R) an array written in the loop is read only at the iteration's own leading index;
 (S) scalars assigned in the body are not read before being assigned in the same iteration (Cython makes them thread-private).
If W, R, S hold, iterations commute and every schedule / thread count yields the sequential result proved by the loop VCs."""
import ast


def prange_loops(fn):
    return [n for n in ast.walk(fn) if isinstance(n, ast.For) and isinstance(n.iter, ast.Call) and ast.unparse(n.iter.func) == 'prange']


def check(fn):
    out = []
    loops = sorted(prange_loops(fn), key=lambda n: n.lineno)
    for k, loop in enumerate(loops, 1):
        v = loop.target.id
        written, probs = set(), []
        for n in ast.walk(ast.Module(body=loop.body, type_ignores=[])):
            tgts = []
            if isinstance(n, ast.Assign):
                tgts = n.targets
            elif isinstance(n, ast.AugAssign):
                tgts = [n.target]
            for t in tgts:
                if isinstance(t, ast.Subscript) and isinstance(t.value, ast.Name):
                    lead = t.slice.elts[0] if isinstance(t.slice, ast.Tuple) else t.slice
                    written.add(t.value.id)
                    if not (isinstance(lead, ast.Name) and lead.id == v):
                        probs.append('W: write %s not indexed by the loop variable %s first' % (ast.unparse(t), v))
        for n in ast.walk(ast.Module(body=loop.body, type_ignores=[])):
            if isinstance(n, ast.Subscript) and isinstance(n.value, ast.Name) and n.value.id in written:
                lead = n.slice.elts[0] if isinstance(n.slice, ast.Tuple) else n.slice
                if not (isinstance(lead, ast.Name) and lead.id == v):
                    probs.append('R: %s accesses an array written in the loop at a foreign index' % ast.unparse(n))
        # scalars: first occurrence in source order inside the body must be a store (loop variables of inner loops count as stores)
        first = {}
        for n in sorted([x for x in ast.walk(ast.Module(body=loop.body, type_ignores=[])) if isinstance(x, ast.Name)], key=lambda x: (x.lineno, x.col_offset)):
            first.setdefault(n.id, n)
        assigned = {x.id for x in ast.walk(ast.Module(body=loop.body, type_ignores=[])) if isinstance(x, ast.Name) and isinstance(x.ctx, ast.Store)}
        for name in assigned:
            node = first[name]
            stmt_is_aug = False
            if isinstance(node.ctx, ast.Load):
                probs.append('S: scalar %s is read before it is assigned in the iteration' % name)
        for n in ast.walk(ast.Module(body=loop.body, type_ignores=[])):
            if isinstance(n, ast.AugAssign) and isinstance(n.target, ast.Name):
                probs.append('S: scalar reduction %s %s= ... inside prange' % (n.target.id, type(n.op).__name__))
        out.append(('race#%d[for %s in prange]' % (k, v), not probs, probs))
    return out
