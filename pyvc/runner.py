"""Per-property orchestration: generate VCs from /repo's current source, discharge them, run canaries,
bounded run-time-contract drivers and Lean lemmas, replay counter-models on the real code, apply the
known-findings file, write /verif/evidence/<id>.json, print VIOLATION / KNOWN-FINDING lines, exit code.

Exit codes: 0 held | 1 VIOLATION | 2 undecided | 3 checker fault      (DESIGN.md section 1)
"""
import os, sys, json, time, hashlib, subprocess, traceback, importlib, shutil, re

ROOT = os.path.dirname(os.path.dirname(os.path.abspath(__file__)))
sys.path.insert(0, ROOT)

from . import overlay                                            # noqa: E402

TRUSTED = [
    'pyvc VC generator (this repository, Python) and its encoding of Python/NumPy semantics (DESIGN 2.3)',
    'z3 5.1 (python3-vt z3-solver wheel)',
    'primitive contracts for NumPy/SciPy/stdlib calls (pyvc/prims.py), cross-checked only by bounded runs',
    'floats treated as mathematical reals; NumPy integer arrays assumed not to wrap around',
]


class Unit:
    """a group of functions verified with one registry of contracts (one variant of the configuration)"""
    def __init__(self, name, registry, keys=None, axioms=None, mutants=(), budget=None):
        self.name, self.registry = name, registry
        self.keys = keys or list(registry)
        self.axioms = axioms or (lambda L: [])
        self.mutants = list(mutants)      # (label, relpath, old_text, new_text)
        self.budget = budget


class Run:
    def __init__(self, prop, level, tier='quick', seed=0):
        self.prop, self.level, self.tier, self.seed = prop, level, tier, seed
        self.t0 = time.time()
        self.functions = {}
        self.obls = {}            # obligation id -> {'status','by','secs', 'unit'}
        self.failed = []          # dicts
        self.bounded_res = []
        self.lemmas = []
        self.canaries = []
        self.assumptions = []
        self.notes = []
        self.samples = []
        self.drops = []
        self.prims_used = set()
        self.violations = []
        self.known_lines = []
        self.undecided = []
        self.faults = []
        self.clauses = []         # clause table for 'other' level
        self.solver_secs = 0.0
        self.phase = {}
        self.nproc = int(os.environ.get('VERIF_NPROC', '16'))
        self.budget = float(os.environ.get('VERIF_VC_BUDGET', '10' if tier == 'quick' else '40'))
        self.findings = load_findings(prop)
        import glob
        for old in glob.glob(os.path.join(ROOT, 'replays', prop + '-*.json')):
            try:
                os.remove(old)
            except OSError:
                pass
        self._overlay = None
        self.extra_cov = {}

    # ------------------------------------------------------------------ proving
    def _ph(self, name, t0):
        self.phase[name] = round(self.phase.get(name, 0.0) + time.time() - t0, 2)

    def prove(self, unit, src=None, canary=False):
        from .front import Sources
        from .engine_np import FullEngine
        from .prims import P
        from .logic import SymL
        from . import solve
        src = src or Sources()
        L = SymL()
        eng = FullEngine(src, unit.registry, L, P)
        P.used = set()
        t = time.time()
        for key in unit.keys:
            try:
                eng.verify(key)
            except KeyError as ex:
                eng.unsupported.append((key, 'contract does not bind: %s' % ex))
            except Exception as ex:
                if type(ex).__name__ == 'Unsupported':
                    eng.unsupported.append((key, str(ex)))
                else:
                    eng.unsupported.append((key, 'engine error: %s' % ''.join(traceback.format_exception_only(type(ex), ex)).strip()))
                    if not canary:
                        self.notes.append(traceback.format_exc()[-1500:])
        eng.finish_ids()
        self._ph('canary-exec' if canary else 'symbolic-exec', t)
        t = time.time()
        axioms = list(unit.axioms(L))
        pins, want = [], {}
        for key in unit.keys:
            c = unit.registry[key]
            pins += c.pins()
            want.update(c.want())
        if canary:      # a canary only has to fail: small budget, no retries, no models
            res = solve.discharge(eng.vcs, axioms, budget_s=min(unit.budget or self.budget, 6), nproc=self.nproc, pins=None, want=None, retry_factor=1)
        else:
            res = solve.discharge(eng.vcs, axioms, budget_s=max(unit.budget or 0, self.budget), nproc=self.nproc,
                                  pins=pins or None, want=want or None)
        out = []
        for vc, r in zip(eng.vcs, res):
            out.append((unit.name + '::' + vc.oid, vc, r))
        self._ph('canary-discharge' if canary else 'discharge', t)
        t = time.time()
        if canary:
            return out, eng
        if os.environ.get('VERIF_SECOND_OPINION', '1') != '0':
            done = [vc for vc, r in zip(eng.vcs, res) if r['status'] == 'unsat']
            ops = solve.second_opinion(done, axioms, budget_s=(6 if self.tier == 'thorough' else 2), nproc=self.nproc)
            tally = self.extra_cov.setdefault('second_opinion', {'solver': '/usr/bin/z3 4.8.12 on the SMT-LIB text of each discharged obligation', 'agrees': 0, 'no_opinion': 0, 'disagrees': 0})
            for vc, o in zip(done, ops):
                if o == 'unsat':
                    tally['agrees'] += 1
                elif o == 'sat':
                    tally['disagrees'] += 1
                    self.faults.append('second opinion: z3 4.8.12 finds a counter-model for %s::%s which z3 5.1 discharged' % (unit.name, vc.oid))
                else:
                    tally['no_opinion'] += 1
            self._ph('second-opinion', t)
            t = time.time()
        # vacuity guard: for every function at least one exit path must have satisfiable hypotheses
        exits = {}
        for vc in eng.vcs:
            f = vc.oid.split('/')[0]
            if '/post:' in vc.oid or '/raises:' in vc.oid:
                exits.setdefault(f, {}).setdefault((vc.path, '/raises:' in vc.oid), vc)
        cov_vcs = [(f, vc) for f, d in exits.items() for vc in list(d.values())[:6]]
        cres = solve.cover([vc for f, vc in cov_vcs], axioms, pins or None, budget_s=4, nproc=self.nproc)
        reach = {}
        for (f, vc), r in zip(cov_vcs, cres):
            reach.setdefault(f, []).append(r)
        for f, rs in reach.items():
            self.extra_cov.setdefault('reachable_exit_paths', {})[unit.name + '::' + f] = {x: rs.count(x) for x in set(rs)}
            if 'sat' not in rs and not any(u[0].endswith(f) for u in eng.unsupported):
                if all(x.startswith('unsat') for x in rs):
                    self.faults.append('vacuous: no exit path of %s (unit %s) has satisfiable hypotheses' % (f, unit.name))
                else:
                    self.notes.append('reachability of %s (unit %s) undetermined: %s' % (f, unit.name, rs))
        self._ph('cover', t)
        self.engines = getattr(self, 'engines', {})
        self.engines[unit.name] = eng
        self.prims_used |= set(P.used)
        self.solver_secs += sum(r.get('secs', r.get('wall', 0)) for r in res)
        for key in unit.keys:
            try:
                rel, q = key.split('::')
                m = src.module(rel)
                self.functions.setdefault(key, {'sha256': m.sha(q), 'units': [], 'vcs': 0})
                self.functions[key]['units'].append(unit.name)
                if m.drops and rel not in [d['file'] for d in self.drops]:
                    self.drops.append({'file': rel, 'dropped': ['%d: %s' % d for d in m.drops][:80], 'prange_lines': m.prange_lines})
            except Exception:
                pass
        for oid, vc, r in out:
            fkey = oid.split('::', 1)[1].split('/')[0]
            for key in self.functions:
                if key.endswith('::' + fkey.split('{')[0]):
                    self.functions[key]['vcs'] += 1
            cur = self.obls.get(oid)
            ok = r['status'] == 'unsat'
            if cur is None:
                self.obls[oid] = {'status': 'discharged' if ok else r['status'], 'by': r.get('by'), 'secs': r.get('secs', r.get('wall')), 'paths': 1}
            else:
                cur['paths'] += 1
                cur['secs'] = round((cur['secs'] or 0) + (r.get('secs') or 0), 3)
                if not ok and cur['status'] == 'discharged':
                    cur['status'] = r['status']
            if (r.get('secs') or 0) > 4 and (r.get('secs') or 0) >= self.obls[oid].get('slow_secs', 0):
                self.obls[oid]['slow_secs'] = r.get('secs')
                self.obls[oid]['ladder'] = ['%s:%s@%s' % (t_[0], t_[1], t_[2]) for t_ in (r.get('tried') or [])][:14]
            if not ok:
                self.failed.append({'oid': oid, 'unit': unit.name, 'status': r['status'], 'model': r.get('model'),
                                    'pin': r.get('pin'), 'tried': r.get('tried'), 'goal': str(vc.goal)[:600], 'note': vc.note,
                                    'line': vc.line, 'error': r.get('error')})
            elif len(self.samples) < 4 and ('post' in oid or 'preserve' in oid):
                self.samples.append({'obligation': oid, 'goal': str(vc.goal)[:400], 'hypotheses': len(vc.hyps), 'solver': r.get('by'), 'secs': r.get('secs')})
        for f, why in eng.unsupported:
            self.undecided.append({'oid': unit.name + '::' + f, 'why': 'outside supported subset / contract does not bind: ' + why})
        return out, eng

    def static_obligations(self, unit_name, results, by='dataflow'):
        """obligations decided without a solver (race-freedom of prange loops, call-site data flow)"""
        for oid, ok, detail in results:
            full = unit_name + '::' + oid
            self.obls[full] = {'status': 'discharged' if ok else 'sat', 'by': by, 'secs': 0.0, 'paths': 1}
            if not ok:
                self.failed.append({'oid': full, 'unit': unit_name, 'status': 'sat', 'model': None, 'pin': None, 'tried': [(by, 'refuted', 0)],
                                    'goal': '; '.join(detail)[:600], 'note': 'static obligation refuted', 'line': None, 'error': None})

    def conformance(self, script, units, per=8, args=()):
        """recorded real executions must be models of the symbolic exit paths (pyvc/conform.py)"""
        from . import conform
        path = os.path.join(ROOT, 'bounded', script)
        t = time.time()
        if self.tier != 'quick':
            per = per * 4          # thorough: more recorded executions per function
        keys = sorted({k for u in units for k in u.keys})
        env_keys = ','.join(keys)
        os.environ['VERIF_RECORD_KEYS'] = env_keys
        try:
            p = overlay.run_py(path, ['--tier', 'quick', '--seed', str(self.seed), '--record', str(per)] + list(args), overlay=self.ov(), timeout=600)
        except subprocess.TimeoutExpired:
            self.notes.append('conformance: recording timed out')
            return
        finally:
            os.environ.pop('VERIF_RECORD_KEYS', None)
        samples = None
        for line in p.stdout.splitlines()[::-1]:
            if line.startswith('{"samples"'):
                samples = json.loads(line)['samples']
                break
        if samples is None:
            self.faults.append('conformance: recording run of %s produced no samples: %s' % (script, (p.stderr or p.stdout)[-400:]))
            return
        tally = {}
        for smp in samples:
            for u in units:
                if smp['key'] not in u.keys or u.name not in getattr(self, 'engines', {}):
                    continue
                eng = self.engines[u.name]
                fname = smp['key'].split('::')[1]
                verdict, detail = conform.check_sample(eng.exits, fname, smp, axioms=list(u.axioms(eng.L)))
                if verdict == 'skipped' and 'no exit path' in detail:
                    continue
                tally.setdefault(u.name + '::' + fname, {}).setdefault(verdict, 0)
                tally[u.name + '::' + fname][verdict] += 1
                if verdict == 'excluded':
                    self.faults.append('conformance: a real execution of %s is excluded by the symbolic semantics of unit %s (%s): %s' % (fname, u.name, detail, json.dumps(smp)[:400]))
        self.extra_cov['conformance'] = {'recorded_executions': len(samples), 'per_function': tally,
                                         'meaning': 'consistent = the recorded (arguments, result) satisfy the path condition of a symbolic exit path; excluded would be a checker fault'}
        self._ph('conformance', t)

    def canary_check(self, unit):
        """in-memory rewrites of the real source must NOT verify (guards against an unsound engine)"""
        from .front import Sources
        if self.failed:
            self.canaries.append({'canary': 'skipped for unit %s' % unit.name, 'result': 'skipped: the real source already has undischarged obligations'})
            return
        lim = 2 if self.tier == 'quick' else len(unit.mutants)
        for (label, rel, old, new) in unit.mutants[:lim]:
            src = Sources()
            m = src.module(rel)
            if old not in m.text:
                self.canaries.append({'canary': label, 'result': 'not-applicable (anchor text absent in current source)'})
                continue
            txt = m.text.replace(old, new, 1)
            src.mods[rel] = _patched_module(rel, txt)
            out, eng = self.prove(unit, src=src, canary=True)
            bad = [oid for oid, vc, r in out if r['status'] != 'unsat']
            if not bad and not eng.unsupported:
                self.faults.append('canary %s of unit %s VERIFIED: engine unsound for this construct' % (label, unit.name))
                self.canaries.append({'canary': label, 'result': 'VERIFIED (fault)'})
            else:
                self.canaries.append({'canary': label, 'result': 'rejected', 'failing': sorted(set(bad))[:6] or [u[1] for u in eng.unsupported][:2]})

    # ------------------------------------------------------------------ lock
    def check_lock(self, update=False):
        path = os.path.join(ROOT, 'contracts', 'locks', self.prop + '.lock')
        ids = sorted(self.obls)
        if not ids and not self.functions and not os.path.exists(path):
            self.lock_size = 0
            return        # no deductive part for this property (bounded stand-in only, level `other`)
        if update:
            os.makedirs(os.path.dirname(path), exist_ok=True)
            open(path, 'w').write('\n'.join(ids) + '\n')
            return
        if not os.path.exists(path):
            self.faults.append('no obligation lock for %s' % self.prop)
            return
        want = [l.strip() for l in open(path) if l.strip()]
        missing = [w for w in want if w not in self.obls]
        self.lock_size = len(want)
        if not ids:
            self.faults.append('zero obligations generated')
        for m in missing:
            self.undecided.append({'oid': m, 'why': 'obligation in the lock was not generated from the current source (code moved / construct changed): contract must be re-bound'})
        self.new_ids = [i for i in ids if i not in set(want)]

    # ------------------------------------------------------------------ bounded + replay (real code)
    def ov(self):
        if self._overlay is None:
            self._overlay = overlay.build()
        return self._overlay

    def bounded(self, script, label, bound, args=(), timeout=1500):
        """run-time contracts on the real functions over an enumerated / seeded small scope (never counted as proved)"""
        path = os.path.join(ROOT, 'bounded', script)
        t = time.time()
        import tempfile
        fd, prog = tempfile.mkstemp(prefix='pyvc_progress_', suffix='.json')
        os.close(fd)
        try:
            p = overlay.run_py(path, ['--tier', self.tier, '--seed', str(self.seed)] + list(args), overlay=self.ov(), timeout=timeout,
                               env={'VERIF_PROGRESS_FILE': prog})
        except subprocess.TimeoutExpired:
            self.faults.append('bounded driver %s timed out' % script)
            os.unlink(prog)
            return None
        last = None
        try:
            last = json.load(open(prog))
        except Exception:
            pass
        os.unlink(prog)
        if p.returncode < 0 and last:
            # the interpreter was killed by a signal while the real code ran this case: that input crashes the code under test
            js = {'cases': last.get('n', 0), 'checked': max(0, last.get('n', 1) - 1), 'vacuous': 0, 'samples': [], 'per_function': {},
                  'failures': [{'key': last['key'], 'clause': 'raises:interpreter-killed-by-signal-%d' % (-p.returncode),
                                'detail': 'the real function did not return: the process died with signal %d on this input' % (-p.returncode), 'input': last['input']}],
                  'failure_counts': {'%s raises:interpreter-killed-by-signal-%d' % (last['key'], -p.returncode): 1}}
            js.update(label=label, bound=bound, secs=round(time.time() - t, 1), script='bounded/' + script, crashed=True)
            self.bounded_res.append(js)
            return js
        js = None
        for line in p.stdout.splitlines()[::-1]:
            if line.startswith('{"bounded"'):
                js = json.loads(line)
                break
        if js is None:
            self.faults.append('bounded driver %s produced no result (rc=%s): %s' % (script, p.returncode, (p.stderr or p.stdout)[-800:]))
            return None
        js = js['bounded']
        js.update(label=label, bound=bound, secs=round(time.time() - t, 1), script='bounded/' + script)
        self.bounded_res.append(js)
        return js

    def replay(self, script, payload):
        """replay a counter-model on the real function under the concrete contract; returns dict"""
        path = os.path.join(ROOT, 'bounded', script)
        try:
            p = overlay.run_py(path, ['--replay', '-'], overlay=self.ov(), input_text=json.dumps(payload), timeout=600)
        except subprocess.TimeoutExpired:
            return {'outcome': 'timeout'}
        for line in p.stdout.splitlines()[::-1]:
            if line.startswith('{"replay"'):
                return json.loads(line)['replay']
        return {'outcome': 'error', 'detail': (p.stderr or p.stdout)[-600:]}

    # ------------------------------------------------------------------ lemmas (Lean)
    def lemma(self, fname, statement_note):
        path = os.path.join(ROOT, 'lemmas', fname)
        t = time.time()
        try:
            p = subprocess.run(['lean', path], capture_output=True, text=True, timeout=1500)
            ok = p.returncode == 0 and 'error:' not in p.stdout and 'sorry' not in (p.stdout + p.stderr)
            out = (p.stdout + p.stderr)[-500:]
        except Exception as ex:
            ok, out = False, str(ex)
        text = open(path).read()
        code = re.sub(r'/-.*?-/', '', text, flags=re.S)
        code = re.sub(r'--.*', '', code)
        if re.search(r'\b(sorry|admit|axiom)\b', code):
            ok = False
            out += ' [contains sorry/admit/axiom]'
        self.lemmas.append({'file': 'lemmas/' + fname, 'ok': ok, 'secs': round(time.time() - t, 1), 'statement': statement_note,
                            'sha256': hashlib.sha256(text.encode()).hexdigest()[:16], 'output': '' if ok else out})
        if not ok:
            self.undecided.append({'oid': 'lemma:' + fname, 'why': 'Lean did not accept the lemma: ' + out[-300:]})
        return ok

    # ------------------------------------------------------------------ verdict
    def violation(self, what, replay_obj, no_input=False):
        os.makedirs(os.path.join(ROOT, 'replays'), exist_ok=True)
        h = hashlib.sha256(json.dumps(replay_obj, sort_keys=True, default=str).encode()).hexdigest()[:10]
        path = os.path.join(ROOT, 'replays', '%s-%s.json' % (self.prop, h))
        replay_obj = dict(replay_obj, property=self.prop, what=what)
        json.dump(replay_obj, open(path, 'w'), indent=1, default=str)
        self.violations.append({'what': what, 'replay': path, 'no_input': no_input})

    def known(self, finding, what):
        self.known_lines.append('KNOWN-FINDING: property=%s %s' % (self.prop, what))

    def excluded(self):
        """witness classes of listed (unrepaired) findings: contracts are re-verified with these excluded"""
        return sorted({f['class'] for f in self.findings if f.get('kind') == 'finding' and f.get('class')})

    def report_known(self, script):
        """replay every listed finding's witness on the real code (contract without exclusion)"""
        for f in self.findings:
            if f.get('kind') != 'finding' or not f.get('witness'):
                continue
            rep = self.replay(script, f['witness'])
            if rep.get('outcome') == 'contract-failed':
                self.known(f, '%s [class %s; witness %s fails clause %s]' % (f.get('what', ''), f.get('class'), json.dumps(f['witness'].get('inputs'))[:160], rep.get('clause')))
            elif rep.get('outcome') in ('contract-held', 'vacuous'):
                self.notes.append('listed finding %s no longer reproduces on this tree' % f.get('class'))
            else:
                self.faults.append('replay of listed finding %s failed: %s' % (f.get('class'), rep.get('detail')))

    def match_finding(self, oid=None, clause=None, witness=None):
        for f in self.findings:
            if f.get('kind') != 'finding':
                continue
            if oid and f.get('obligation') and f['obligation'] in oid:
                return f
            if clause and f.get('clause') and f['clause'] == clause:
                return f
        return None

    def finish(self, explanation='', update_lock=False, checker_cmd=None):
        self.check_lock(update=update_lock)
        n_obl = len(self.obls)
        n_dis = sum(1 for o in self.obls.values() if o['status'] == 'discharged')
        wall = round(time.time() - self.t0, 1)
        by = {}
        for o in self.obls.values():
            by[o.get('by') or 'none'] = by.get(o.get('by') or 'none', 0) + 1
        bounded_cases = sum(b.get('checked', 0) for b in self.bounded_res)
        cov = {
            'obligations': n_obl, 'discharged': n_dis,
            'checker_cmd': checker_cmd or './check %s --tier %s' % (self.prop, self.tier),
            'trusted_base': TRUSTED + sorted('primitive contract: ' + p for p in self.prims_used),
            'functions_under_contract': self.functions,
            'discharged_by_backend': by, 'solver_seconds': round(self.solver_secs, 2),
            'bounded': self.bounded_res, 'bounded_note': 'bounded stand-ins are run-time contracts on the real code over a stated finite scope; never counted in `discharged`',
            'lemmas': self.lemmas, 'canaries': self.canaries, 'phase_seconds': self.phase,
            'slowest_obligations': sorted([(round((o.get('secs') or 0) / max(1, o.get('paths', 1)), 2), k, o.get('by'), o.get('ladder') or []) for k, o in self.obls.items()], key=lambda t_: -t_[0])[:8],
            'traces_validated_against_impl': bounded_cases,
            'evaluations': max(1, n_obl + bounded_cases), 'distinct_nontrivial': max(2, n_dis + sum(b.get('distinct', b.get('checked', 0)) for b in self.bounded_res)),
            'rule': 'obligations are distinct ids generated from the current source; bounded cases are distinct inputs satisfying the contract precondition',
            'samples': self.samples or [{'note': 'no sample recorded'}],
            'explanation': explanation + (' | clause table: ' + json.dumps(self.clauses) if self.clauses else ''),
            'extraction_drops': self.drops,
            'undischarged': [{'oid': f['oid'], 'status': f['status']} for f in self.failed][:40],
            'undecided': self.undecided[:40], 'known_findings_reported': self.known_lines,
            'notes': self.notes[:10],
        }
        cov.update(self.extra_cov)
        ev = {'property_id': self.prop, 'tier': self.tier, 'seed': self.seed, 'level': self.level, 'coverage': cov,
              'assumptions': self.assumptions + TRUSTED, 'wall_s': wall, 'violations': len(self.violations)}
        os.makedirs(os.path.join(ROOT, 'evidence'), exist_ok=True)
        json.dump(ev, open(os.path.join(ROOT, 'evidence', self.prop + '.json'), 'w'), indent=1, default=str)
        for l in self.known_lines:
            print(l)
        print('%s: %d obligations, %d discharged (%s), %d bounded cases, %d lemmas, %.1fs' % (
            self.prop, n_obl, n_dis, ', '.join('%s=%d' % kv for kv in sorted(by.items())), bounded_cases, len(self.lemmas), wall))
        real = [v for v in self.violations if not v['no_input']]
        if self.faults and not real:
            for f in self.faults:
                print('CHECKER-FAULT: ' + f)
            return 3
        if self.faults:
            # a failing input reproduced on the real code does not depend on the prover: it stands even when the contracts no longer bind
            for f in self.faults:
                print('CHECKER-FAULT (reported next to a violation found on the real code): ' + f)
        if self.violations:
            for v in self.violations:
                print('VIOLATION property=%s replay=%s%s' % (self.prop, v['replay'], ' no-failing-input-found' if v['no_input'] else ''))
                print('  ' + v['what'])
            return 1
        if self.undecided:
            for u in self.undecided[:20]:
                print('UNDECIDED: %s -- %s' % (u['oid'], u['why']))
            return 2
        return 0


def _patched_module(rel, text):
    from .front import Module
    return Module(rel, text=text)


def _lean_path():
    base = '/opt/veriftools/mathlib4/.lake'
    paths = []
    pk = os.path.join(base, 'packages')
    if os.path.isdir(pk):
        for d in sorted(os.listdir(pk)):
            paths.append(os.path.join(pk, d, '.lake', 'build', 'lib', 'lean'))
    paths.append(os.path.join(base, 'build', 'lib', 'lean'))
    return ':'.join(paths)


def load_findings(prop):
    path = os.path.join(ROOT, 'known_findings.jsonl')
    out = []
    if os.path.exists(path):
        for l in open(path):
            l = l.strip()
            if l and not l.startswith('#'):
                try:
                    d = json.loads(l)
                except Exception:
                    continue
                if d.get('property') == prop:
                    out.append(d)
    return out


def resolve_failures(run, script, to_payload):
    """Standard handling of undischarged obligations (DESIGN 1, 2.8):
       definite `sat` -> replay the model on the real code; reproduced -> VIOLATION with the input;
       refuted but not reproducible / no input -> VIOLATION ... no-failing-input-found if the bounded driver
       also finds nothing; `unknown` -> bounded driver decides, else undecided (exit 2)."""
    bounded_fail = [f for b in run.bounded_res for f in b.get('failures', [])]
    handled_bounded = set()
    for f in run.failed:
        known = None     # listed findings are excluded from the preconditions by witness class (R.excluded()); whatever still fails is not listed
        payload = to_payload(f) if (f['status'] == 'sat' and f.get('model')) else None
        rep = run.replay(script, payload) if payload else None
        obj = {'obligation': f['oid'], 'solver_status': f['status'], 'solver_trace': f['tried'], 'model': f.get('model'),
               'pinned': f.get('pin'), 'goal': f['goal'], 'source_line': f['line'], 'note': f['note'], 'replay_payload': payload, 'replay_result': rep}
        if rep and rep.get('outcome') == 'contract-failed':
            if known:
                run.known(known, '%s still fails: %s (witness %s)' % (f['oid'], known.get('what', ''), json.dumps(payload.get('inputs'))[:200]))
            else:
                run.violation('obligation %s refuted; counter-model reproduced on the real code: %s' % (f['oid'], rep.get('detail', '')), obj)
            continue
        same = [b for b in bounded_fail if b.get('key') and b['key'].split('::')[-1] in f['oid']]
        if same:
            b = same[0]
            handled_bounded.add(id(b))
            obj['bounded_failure'] = b
            if known:
                run.known(known, '%s still fails: %s' % (f['oid'], known.get('what', '')))
            else:
                run.violation('obligation %s not discharged (%s); failing input found on the real code by the bounded driver: clause %s' % (f['oid'], f['status'], b.get('clause')), obj)
            continue
        if f['status'] == 'sat':
            if known:
                run.known(known, '%s refuted: %s' % (f['oid'], known.get('what', '')))
            elif rep and rep.get('outcome') == 'error':
                run.faults.append('replay of %s failed: %s' % (f['oid'], rep.get('detail')))
            else:
                run.violation('obligation %s definitely refuted (solver model attached); no failing input reproduced on the real code within the bounded scope' % f['oid'], obj, no_input=True)
        else:
            if known:
                run.known(known, '%s undischarged: %s' % (f['oid'], known.get('what', '')))
            else:
                run.undecided.append({'oid': f['oid'], 'why': 'solver answered %s (%s) and the bounded driver found no failing input' % (f['status'], f.get('error') or f['tried'])})
    reported_keys = set()
    for v in run.violations:
        m = re.search(r'obligation \S+::(\w[\w.]*)/', v['what'])
        if m:
            reported_keys.add(m.group(1))
    seen_bc = set()
    for b in bounded_fail:
        if id(b) in handled_bounded:
            continue
        short = b.get('key', '').split('::')[-1]
        if short in reported_keys or (short, b.get('clause')) in seen_bc:
            continue          # already reported through the refuted obligation of the same function / same clause
        seen_bc.add((short, b.get('clause')))
        known = None     # a failing input outside every listed witness class is a new violation, whatever clause it fails
        if known:
            run.known(known, 'bounded run-time contract %s %s still fails: %s' % (b.get('key'), b.get('clause'), known.get('what', '')))
        else:
            run.violation('run-time contract failed on the real code: %s clause %s on input %s' % (b.get('key'), b.get('clause'), json.dumps(b.get('input'))[:300]),
                          {'bounded_failure': b})
