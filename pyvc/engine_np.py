"""NumPy / list semantics for the executor (mixed into Engine): subscripts, stores, element-wise
operators, comparisons, attribute access, method calls, calls by contract.  DESIGN.md 2.3/2.4."""
import ast
import z3
from .logic import Arr, _z, INF, sort_of
from .engine import (Engine, Unsupported, Ref, Tup, RecV, Func, NONE, NoneV, UNDEF, Maybe, Slice, RArr,
                     MaskedSel, Metric, Str, KindTag, Opaque, is_sym, to_z3, to_bool, View)

_OPS = {ast.Add: lambda x, y: x + y, ast.Sub: lambda x, y: x - y, ast.Mult: lambda x, y: x * y}
_CMP = {ast.Lt: lambda x, y: x < y, ast.LtE: lambda x, y: x <= y, ast.Gt: lambda x, y: x > y,
        ast.GtE: lambda x, y: x >= y, ast.Eq: lambda x, y: x == y, ast.NotEq: lambda x, y: x != y}


def B_default(tag):
    return {'real': 'float64', 'int': 'int64', 'bool': 'bool'}.get(tag.kind, tag.kind)


def _coerce2(a, b):
    a, b = _z(a), _z(b)
    if z3.is_int(a) and z3.is_real(b):
        a = z3.RealVal(a.as_long()) if z3.is_int_value(a) else z3.ToReal(a)
    if z3.is_real(a) and z3.is_int(b):
        b = z3.RealVal(b.as_long()) if z3.is_int_value(b) else z3.ToReal(b)
    return a, b


class NPMixin:
    # ------------------------------------------------------------ index helpers
    def norm_index(self, i, length, st, node, what='index'):
        """Python index -> non-negative; emits the bounds obligation"""
        if is_sym(i) and z3.is_int_value(z3.simplify(i)):
            i = z3.simplify(i).as_long()
        if isinstance(i, int) and not isinstance(i, bool):
            if i < 0:
                self.emit(self.site(what, node), st, length >= -i)
                return length + i
            self.emit(self.site(what, node), st, length > i)
            return z3.IntVal(i)
        i = to_z3(i)
        if not z3.is_int(i):
            raise Unsupported('non-integer index')
        neg_ok = getattr(self.c, 'negative_index_ok', False)
        if neg_ok:
            self.emit(self.site(what, node), st, z3.And(i >= -length, i < length))
            return z3.If(i < 0, i + length, i)
        self.emit(self.site(what, node), st, z3.And(i >= 0, i < length))
        return i

    def slice_bounds(self, sl, length):
        """(lo, hi) of a step-1 slice per slice.indices(); symbolic"""
        def norm(v, dflt):
            if v is None:
                return dflt
            v = to_z3(v)
            v2 = z3.If(v < 0, v + length, v)
            return z3.If(v2 < 0, z3.IntVal(0), z3.If(v2 > length, length, v2))
        lo = norm(sl.lo, z3.IntVal(0))
        hi = norm(sl.hi, length)
        return z3.simplify(lo), z3.simplify(hi)

    # ------------------------------------------------------------ subscripts
    def subscript(self, base, idx, st, node):
        if isinstance(base, Maybe):
            base = base.val
        b = self.deref(st, base)
        if isinstance(b, Tup):
            if isinstance(idx, int):
                return b.items[idx]
            if isinstance(idx, Slice):
                lo = idx.lo if idx.lo is not None else 0
                hi = idx.hi if idx.hi is not None else len(b.items)
                if isinstance(lo, int) and isinstance(hi, int) and idx.step is None:
                    return Tup(b.items[lo:hi])
            i = to_z3(idx)
            if z3.is_int_value(i):
                return b.items[i.as_long()]
            raise Unsupported('symbolic index into tuple')
        if isinstance(b, tuple) and b and b[0] == 'dict':
            if isinstance(idx, Str):
                return b[1][idx.s]
            raise Unsupported('dict index')
        if isinstance(b, MaskedSel):
            raise Unsupported('subscript of a compressed selection')
        if is_sym(b) and not isinstance(b, Arr) and (z3.is_real(b) or z3.is_int(b)):
            ixs = idx.items if isinstance(idx, Tup) else [idx]
            if all(isinstance(x, NoneV) or type(x).__name__ == 'EllipsisV' or x is Ellipsis for x in ixs):
                return b        # scalar[..., None]: a NumPy scalar with new axes broadcasts like the scalar itself
        if not isinstance(b, Arr):
            raise Unsupported('subscript of %r' % (b,))
        ix = self.deref(st, idx)
        if isinstance(ix, Tup) and len(ix.items) == 1 and b.ndim == 1:
            idx = ix.items[0]              # a[(k,)] is a[k] for a 1-d array (np.where(...) tuples)
            ix = self.deref(st, idx)
        if isinstance(ix, Tup) and getattr(ix, 'ix_grid', None) is not None and b.ndim == 2:
            ra_, ca_ = ix.ix_grid
            for ar_, dim in ((ra_, 0), (ca_, 1)):
                jq = z3.Int('j!g')
                self.emit(self.site('index', node), st, z3.ForAll([jq], z3.Implies(z3.And(jq >= 0, jq < ar_.shape[0]), z3.And(ar_[jq] >= 0, ar_[jq] < b.shape[dim]))))
            return self.new_obj(st, self.lam(lambda i_, j_: b[ra_[i_], ca_[j_]], (ra_.shape[0], ca_.shape[0]), b.kind))
        if isinstance(ix, Tup):
            return self.subscript_nd(b, ix.items, st, node)
        if isinstance(ix, Slice):
            return self.slice_read(b, ix, st, node)
        if isinstance(ix, Arr):
            if ix.kind == 'bool':
                self.emit(self.site('shape', node), st, ix.shape[0] == b.shape[0])
                return MaskedSel(b, ix)
            if ix.kind == 'int':
                j = z3.Int('j!g')
                self.emit(self.site('index', node), st,
                          z3.ForAll([j], z3.Implies(z3.And(j >= 0, j < ix.shape[0]),
                                                    z3.And(ix[j] >= 0, ix[j] < b.shape[0]))))
                if b.ndim == 1:
                    out_ = self.lam(lambda i: b[ix[i]], ix.shape, b.kind)
                    if b.meta.get('distinct') and ix.meta.get('distinct'):
                        out_.meta = {'distinct': True}       # distinct values read at distinct positions are distinct
                    return self.new_obj(st, out_)
                return self.new_obj(st, self.lam(lambda i, *r: b[(ix[i],) + tuple(r)], ix.shape + b.shape[1:], b.kind))
            raise Unsupported('index array kind %s' % ix.kind)
        if isinstance(ix, NoneV):
            raise Unsupported('None index')
        i = self.norm_index(ix, b.shape[0], st, node)
        if isinstance(b.term, tuple):
            return Tup(list(b[i]))
        if b.ndim == 1:
            self.check_init(b, (i,), st, node)
            return b[i]
        return self.element(b, i, st)

    def subscript_nd(self, b, items, st, node):
        items = [self.deref(st, x) for x in items]
        if any(isinstance(x, NoneV) for x in items):
            # x[:, None] style reshape: keep as a broadcast marker
            if len(items) == 2 and isinstance(items[0], Slice) and isinstance(items[1], NoneV) and b.ndim == 1:
                a = Arr(b.term, b.shape, b.kind, b.init, dict(b.meta, column=True))
                return self.new_obj(st, a)
            if len(items) == 2 and isinstance(items[1], Slice) and isinstance(items[0], NoneV) and b.ndim == 1:
                a = Arr(b.term, b.shape, b.kind, b.init, dict(b.meta, row=True))
                return self.new_obj(st, a)
            raise Unsupported('newaxis form')
        if len(items) != b.ndim:
            raise Unsupported('partial n-d index')
        if all(not isinstance(x, (Slice, Arr)) for x in items):
            ii = tuple(self.norm_index(x, b.shape[k], st, node) for k, x in enumerate(items))
            self.check_init(b, ii, st, node)
            return b[ii]
        # mixtures of ints and full/step-1 slices
        outshape, fixed = [], []
        for k, x in enumerate(items):
            if isinstance(x, Slice):
                if x.step is not None:
                    raise Unsupported('strided n-d slice')
                lo, hi = self.slice_bounds(x, b.shape[k])
                outshape.append(b.shape[k] if (x.lo is None and x.hi is None) else z3.simplify(z3.If(hi > lo, hi - lo, 0)))
                fixed.append(('s', lo))
            elif isinstance(x, Arr) and x.kind == 'int' and x.ndim == 1:
                jq = z3.Int('j!g')
                self.emit(self.site('index', node), st, z3.ForAll([jq], z3.Implies(z3.And(jq >= 0, jq < x.shape[0]), z3.And(x[jq] >= 0, x[jq] < b.shape[k]))))
                outshape.append(x.shape[0])
                fixed.append(('a', x))
            elif isinstance(x, Arr):
                raise Unsupported('fancy n-d index')
            else:
                fixed.append(('i', self.norm_index(x, b.shape[k], st, node)))
        n_arr = sum(1 for kind, v in fixed if kind == 'a')
        if n_arr >= 2:
            # several index arrays are paired element by element (NumPy broadcasting of equal lengths), not an outer product
            if any(kind == 's' for kind, v in fixed):
                raise Unsupported('paired index arrays mixed with slices')
            arrs_ = [v for kind, v in fixed if kind == 'a']
            self.emit(self.site('shape', node), st, z3.And(*[a_.shape[0] == arrs_[0].shape[0] for a_ in arrs_[1:]]))
            return self.new_obj(st, self.lam(lambda k_: b[tuple(v if kind == 'i' else v[k_] for kind, v in fixed)], (arrs_[0].shape[0],), b.kind))
        def f(*vs):
            vs = list(vs)
            idx = []
            for kind, v in fixed:
                if kind == 'i':
                    idx.append(v)
                elif kind == 'a':
                    idx.append(v[vs.pop(0)])
                else:
                    idx.append(v + vs.pop(0))
            return b[tuple(idx)]
        return self.new_obj(st, self.lam(f, tuple(outshape), b.kind))

    def slice_read(self, b, sl, st, node):
        if sl.step is not None and sl.lo is None and sl.hi is None and b.ndim == 1:
            stp = z3.simplify(to_z3(sl.step))
            if z3.is_int_value(stp) and stp.as_long() == -1:
                a = self.lam(lambda i: b[b.shape[0] - 1 - i], b.shape, b.kind)       # x[::-1]
                a.meta = {k: v for k, v in b.meta.items() if k == 'list'}
                return self.new_obj(st, a)
        if sl.step is not None:
            step = to_z3(sl.step)
            if not (z3.is_int_value(step) and step.as_long() == 1):
                return self.strided_read(b, sl, st, node)
        lo, hi = self.slice_bounds(sl, b.shape[0])
        n = b.shape[0] if (sl.lo is None and sl.hi is None) else z3.simplify(z3.If(hi > lo, hi - lo, 0))
        if b.ndim == 1:
            a = self.lam(lambda i: b[lo + i], (n,), b.kind)
        else:
            a = self.lam(lambda i, *r: b[(lo + i,) + tuple(r)], (n,) + b.shape[1:], b.kind)
        a.meta = dict(b.meta, slice_of=(b, lo, n))
        return self.new_obj(st, a)

    def strided_read(self, b, sl, st, node):
        """a[lo:hi:step] with step > 0 (symbolic); length m characterised without division"""
        step = to_z3(sl.step)
        self.emit(self.site('slice-step', node), st, step != 0)
        st.pc.append(step > 0) if False else None
        lo, hi = self.slice_bounds(sl, b.shape[0])
        m = self.fresh('slen', 'int')
        # requires step > 0 (negative steps: unsupported -> obligation)
        self.emit(self.site('slice-step-positive', node), st, step > 0)
        st.pc.append(z3.And(m >= 0, z3.Implies(hi <= lo, m == 0),
                            z3.Implies(hi > lo, z3.And((m - 1) * step < hi - lo, hi - lo <= m * step))))
        if b.ndim != 1:
            raise Unsupported('strided slice of n-d array')
        a = self.lam(lambda i: b[lo + i * step], (m,), b.kind)
        return self.new_obj(st, a)

    def check_init(self, b, idx, st, node):
        if b.init is not None:
            self.emit(self.site('init', node), st, z3.Select(b.init, *idx), 'reads a cell that may be uninitialised')

    # ------------------------------------------------------------ stores
    def store(self, base, idx, v, st, node):
        if isinstance(base, Maybe):
            base = base.val
        if not isinstance(base, Ref):
            raise Unsupported('store into non-object')
        st = st.copy()
        arr = st.heap[base.oid]
        if not isinstance(arr, Arr):
            raise Unsupported('store into %r' % (arr,))
        if arr.meta and arr.meta.get('view_of') is not None:
            raise Unsupported('store into a row view of another array')
        ix = self.deref(st, idx)
        if isinstance(ix, Tup) and len(ix.items) == 1 and arr.ndim == 1:
            wm_ = getattr(ix, 'where_mask', None)
            if wm_ is not None and wm_.ndim == 1 and wm_.kind == 'bool' and not isinstance(self.deref(st, v), (Arr, MaskedSel)):
                idx = self.new_obj(st, wm_)          # a[np.where(mask)] = v  is  a[mask] = v
            else:
                idx = ix.items[0]
            ix = self.deref(st, idx)
        vv = self.deref(st, v)
        if isinstance(ix, Arr) and ix.kind == 'bool' and ix.ndim > 1:
            if ix.ndim != arr.ndim or isinstance(vv, (Arr, MaskedSel)):
                raise Unsupported('n-d boolean mask store form')
            self.emit(self.site('shape', node), st, z3.And(*[x == y for x, y in zip(ix.shape, arr.shape)]))
            new = self.lam(lambda *q: z3.If(ix[tuple(q)], self.num(vv, arr.kind), arr[tuple(q)]), arr.shape, arr.kind)
            new.meta = arr.meta
            st.heap[base.oid] = new
            return st
        if isinstance(ix, Arr) and ix.kind == 'bool':
            self.emit(self.site('shape', node), st, ix.shape[0] == arr.shape[0])
            if isinstance(vv, MaskedSel):
                if not z3.eq(vv.mask.term, ix.term):
                    raise Unsupported('masked assignment from a selection under a different mask')
                new = self.lam(lambda i: z3.If(ix[i], self.num(vv.arr[i], arr.kind), arr[i]), arr.shape, arr.kind)
            elif isinstance(vv, Arr):
                raise Unsupported('masked assignment from a compressed array')
            else:
                new = self.lam(lambda i: z3.If(ix[i], self.num(vv, arr.kind), arr[i]), arr.shape, arr.kind)
            new.meta = arr.meta
            if arr.init is not None:
                new.init = z3.Lambda([z3.Int('i!0')], z3.Or(ix[z3.Int('i!0')], arr.init[z3.Int('i!0')]))
            st.heap[base.oid] = new
            return st
        if isinstance(ix, Arr) and ix.kind == 'int' and ix.ndim == 1 and not isinstance(vv, (Arr, MaskedSel)):
            # a[idx] = scalar : every row (1-d: cell) whose index occurs in idx
            jq = z3.Int('j!g')
            self.emit(self.site('index', node), st, z3.ForAll([jq], z3.Implies(z3.And(jq >= 0, jq < ix.shape[0]), z3.And(ix[jq] >= 0, ix[jq] < arr.shape[0]))))
            val = self.num(vv, arr.kind)
            if arr.ndim == 1 and getattr(self.c, 'store_witness', False):
                # same store, stated with an explicit witness function (which index addressed a changed cell): friendlier to instantiation
                new = Arr(self.fresh('sstore', self.arr_sort(arr.kind)), arr.shape, arr.kind, arr.init, arr.meta)
                Wf = self.fresh_fn('swit', [z3.IntSort()], z3.IntSort())
                kq, qq = self.L.var('q'), self.L.var('q')
                st.pc.append(z3.ForAll([kq], z3.Implies(z3.And(kq >= 0, kq < ix.shape[0]), new[ix[kq]] == val)))
                st.pc.append(z3.ForAll([qq], z3.Implies(z3.And(qq >= 0, qq < arr.shape[0]),
                                                        z3.Or(new[qq] == arr[qq], z3.And(Wf(qq) >= 0, Wf(qq) < ix.shape[0], ix[Wf(qq)] == qq, new[qq] == val)))))
                st.facts['store:' + (ast.unparse(node)[:40] if node is not None else 'scalar')] = z3.And(*st.pc[-2:])
                st.heap[base.oid] = new
                return st
            if arr.ndim == 1:
                new = self.lam(lambda a_: z3.If(self.L.member(ix, a_), val, arr[a_]), arr.shape, arr.kind)
            else:
                new = self.lam(lambda a_, *r_: z3.If(self.L.member(ix, a_), val, arr[(a_,) + tuple(r_)]), arr.shape, arr.kind)
            new.meta = arr.meta
            st.heap[base.oid] = new
            return st
        if isinstance(ix, Arr) and ix.kind == 'int' and ix.ndim == 1 and arr.ndim == 1 and isinstance(vv, Arr) and vv.ndim == 1:
            # a[idx] = values : cell idx[k] receives values[k]; with repeated indices the last write wins (NumPy)
            jq, kq, iq = self.L.var('q'), self.L.var('q'), self.L.var('q')
            self.emit(self.site('index', node), st, z3.ForAll([jq], z3.Implies(z3.And(jq >= 0, jq < ix.shape[0]), z3.And(ix[jq] >= 0, ix[jq] < arr.shape[0]))))
            self.emit(self.site('shape', node), st, vv.shape[0] == ix.shape[0])
            new = Arr(self.fresh('fstore', self.arr_sort(arr.kind)), arr.shape, arr.kind, arr.init, arr.meta)
            inr = z3.And(jq >= 0, jq < ix.shape[0])
            if ix.meta.get('distinct'):
                st.pc.append(z3.ForAll([jq], z3.Implies(inr, new[ix[jq]] == self.num(vv[jq], arr.kind))))
            else:
                later = z3.ForAll([kq], z3.Implies(z3.And(kq > jq, kq < ix.shape[0]), ix[kq] != ix[jq]))
                st.pc.append(z3.ForAll([jq], z3.Implies(z3.And(inr, later), new[ix[jq]] == self.num(vv[jq], arr.kind))))
            st.pc.append(z3.ForAll([iq], z3.Implies(z3.And(iq >= 0, iq < arr.shape[0], z3.Not(self.L.member(ix, iq))), new[iq] == arr[iq])))
            st.heap[base.oid] = new
            return st
        if isinstance(ix, Arr) and ix.kind == 'int':
            raise Unsupported('fancy-index store of an array value')
        if isinstance(ix, Slice):
            if ix.step is not None:
                raise Unsupported('strided slice store')
            lo, hi = self.slice_bounds(ix, arr.shape[0])
            if arr.ndim != 1:
                raise Unsupported('n-d slice store')
            if isinstance(vv, Arr):
                self.emit(self.site('shape', node), st, vv.shape[0] == z3.If(hi > lo, hi - lo, 0))
                new = self.lam(lambda i: z3.If(z3.And(lo <= i, i < hi), self.num(vv[i - lo], arr.kind), arr[i]), arr.shape, arr.kind)
            else:
                new = self.lam(lambda i: z3.If(z3.And(lo <= i, i < hi), self.num(vv, arr.kind), arr[i]), arr.shape, arr.kind)
            new.meta = arr.meta
            if arr.init is not None:
                i0 = z3.Int('i!0')
                new.init = z3.Lambda([i0], z3.Or(z3.And(lo <= i0, i0 < hi), arr.init[i0]))
            st.heap[base.oid] = new
            return st
        if isinstance(ix, Tup) and getattr(ix, 'ix_grid', None) is not None and arr.ndim == 2:
            ra_, ca_ = ix.ix_grid
            if not (ra_.meta.get('arange') and ca_.meta.get('arange') and isinstance(vv, Arr) and vv.ndim == 2):
                raise Unsupported('np.ix_ store form')
            self.emit(self.site('shape', node), st, z3.And(vv.shape[0] == ra_.shape[0], vv.shape[1] == ca_.shape[0], ra_.shape[0] <= arr.shape[0], ca_.shape[0] <= arr.shape[1]))
            new = self.lam(lambda a_, b_: z3.If(z3.And(a_ < ra_.shape[0], b_ < ca_.shape[0]), self.num(vv[a_, b_], arr.kind), arr[a_, b_]), arr.shape, arr.kind)
            new.meta = arr.meta
            st.heap[base.oid] = new
            return st
        if isinstance(ix, Tup) and arr.ndim == 2 and len(ix.items) == 2 and not isinstance(vv, (Arr, MaskedSel)):
            its = [self.deref(st, x) for x in ix.items]
            wm = [getattr(x, 'where_mask', None) if isinstance(x, Tup) else None for x in its]
            fullsl = [isinstance(x, Slice) and x.lo is None and x.hi is None and x.step is None for x in its]
            if wm[0] is not None and wm[0].ndim == 1 and fullsl[1]:      # a[np.where(m), :] = v
                m_ = wm[0]
                self.emit(self.site('shape', node), st, m_.shape[0] == arr.shape[0])
                new = self.lam(lambda a_, b_: z3.If(m_[a_], self.num(vv, arr.kind), arr[a_, b_]), arr.shape, arr.kind)
                new.meta = arr.meta
                st.heap[base.oid] = new
                return st
            if wm[1] is not None and wm[1].ndim == 1 and fullsl[0]:      # a[:, np.where(m)] = v
                m_ = wm[1]
                self.emit(self.site('shape', node), st, m_.shape[0] == arr.shape[1])
                new = self.lam(lambda a_, b_: z3.If(m_[b_], self.num(vv, arr.kind), arr[a_, b_]), arr.shape, arr.kind)
                new.meta = arr.meta
                st.heap[base.oid] = new
                return st
        if isinstance(ix, Tup) and getattr(ix, 'where_mask', None) is not None and arr.ndim == 2:
            # a[np.where(mask)] = v  ==  a[mask] = v
            m = ix.where_mask
            self.emit(self.site('shape', node), st, z3.And(m.shape[0] == arr.shape[0], m.shape[1] == arr.shape[1]))
            if isinstance(vv, (Arr, MaskedSel)):
                raise Unsupported('array value in where-indexed store')
            new = self.lam(lambda a_, b_: z3.If(m[a_, b_], self.num(vv, arr.kind), arr[a_, b_]), arr.shape, arr.kind)
            new.meta = arr.meta
            st.heap[base.oid] = new
            return st
        if isinstance(ix, Tup):
            items = [self.deref(st, x) for x in ix.items]
            if len(items) != arr.ndim:
                raise Unsupported('partial n-d store')
            full = lambda x: isinstance(x, Slice) and x.lo is None and x.hi is None and x.step is None
            intarr = lambda x: isinstance(x, Arr) and x.kind == 'int' and x.ndim == 1
            if arr.ndim == 2 and not isinstance(vv, (Arr, MaskedSel)) and ((full(items[0]) and intarr(items[1])) or (intarr(items[0]) and full(items[1]))
                                                                            or (intarr(items[0]) and intarr(items[1]) and items[0] is items[1])):
                val = self.num(vv, arr.kind)
                ia = items[1] if full(items[0]) else items[0]
                jq = z3.Int('j!g')
                dim = 1 if full(items[0]) else 0
                self.emit(self.site('index', node), st, z3.ForAll([jq], z3.Implies(z3.And(jq >= 0, jq < ia.shape[0]), z3.And(ia[jq] >= 0, ia[jq] < arr.shape[dim]))))
                if full(items[0]):        # a[:, idx] = v
                    new = self.lam(lambda a_, b_: z3.If(self.L.member(ia, b_), val, arr[a_, b_]), arr.shape, arr.kind)
                elif full(items[1]):      # a[idx, :] = v
                    new = self.lam(lambda a_, b_: z3.If(self.L.member(ia, a_), val, arr[a_, b_]), arr.shape, arr.kind)
                else:                     # a[idx, idx] = v  (paired: the diagonal cells at idx)
                    new = self.lam(lambda a_, b_: z3.If(z3.And(a_ == b_, self.L.member(ia, a_)), val, arr[a_, b_]), arr.shape, arr.kind)
                new.meta = arr.meta
                st.heap[base.oid] = new
                return st
            if arr.ndim == 2 and all(isinstance(x, Arr) and x.meta.get('arange') for x in items):
                # a[(arange(n), arange(n))] = vec : the diagonal
                n0 = items[0].shape[0]
                self.emit(self.site('shape', node), st, z3.And(items[1].shape[0] == n0, n0 <= arr.shape[0], n0 <= arr.shape[1]))
                if isinstance(vv, Arr):
                    self.emit(self.site('shape', node), st, vv.shape[0] == n0)
                    val = lambda k: self.num(vv[k], arr.kind)
                else:
                    val = lambda k: self.num(vv, arr.kind)
                new = self.lam(lambda a_, b_: z3.If(z3.And(a_ == b_, a_ < n0), val(a_), arr[a_, b_]), arr.shape, arr.kind)
                new.meta = arr.meta
                st.heap[base.oid] = new
                return st
            if all(not isinstance(x, (Slice, Arr)) for x in items):
                ii = [self.norm_index(x, arr.shape[k], st, node) for k, x in enumerate(items)]
                st.heap[base.oid] = Arr(z3.Store(arr.term, *ii, self.num(v, arr.kind)), arr.shape, arr.kind,
                                        None if arr.init is None else z3.Store(arr.init, *ii, z3.BoolVal(True)), arr.meta)
                return st
            # a[:, j] = vec   /  a[i, :] = vec   (2-d)
            if arr.ndim == 2 and isinstance(items[0], Slice) and not isinstance(items[1], (Slice, Arr)) \
                    and items[0].lo is None and items[0].hi is None and items[0].step is None:
                j = self.norm_index(items[1], arr.shape[1], st, node)
                if isinstance(vv, Arr):
                    self.emit(self.site('shape', node), st, vv.shape[0] == arr.shape[0])
                    new = self.lam(lambda a, b_: z3.If(b_ == j, self.num(vv[a], arr.kind), arr[a, b_]), arr.shape, arr.kind)
                else:
                    new = self.lam(lambda a, b_: z3.If(b_ == j, self.num(vv, arr.kind), arr[a, b_]), arr.shape, arr.kind)
                new.meta = arr.meta
                st.heap[base.oid] = new
                return st
            if arr.ndim == 2 and isinstance(items[1], Slice) and not isinstance(items[0], (Slice, Arr)) \
                    and items[1].lo is None and items[1].hi is None and items[1].step is None:
                i = self.norm_index(items[0], arr.shape[0], st, node)
                if isinstance(vv, Arr):
                    self.emit(self.site('shape', node), st, vv.shape[0] == arr.shape[1])
                    new = self.lam(lambda a, b_: z3.If(a == i, self.num(vv[b_], arr.kind), arr[a, b_]), arr.shape, arr.kind)
                else:
                    new = self.lam(lambda a, b_: z3.If(a == i, self.num(vv, arr.kind), arr[a, b_]), arr.shape, arr.kind)
                new.meta = arr.meta
                st.heap[base.oid] = new
                return st
            if arr.ndim == 2 and intarr(items[0]) and intarr(items[1]):
                # a[r, c] = values : paired index arrays; with a repeated (row, column) pair the last write wins (NumPy)
                ra_, ca_ = items
                jq, kq, iq, i2 = self.L.var('q'), self.L.var('q'), self.L.var('q'), self.L.var('q')
                inr = z3.And(jq >= 0, jq < ra_.shape[0])
                self.emit(self.site('shape', node), st, ca_.shape[0] == ra_.shape[0])
                self.emit(self.site('index', node), st, z3.ForAll([jq], z3.Implies(inr, z3.And(ra_[jq] >= 0, ra_[jq] < arr.shape[0], ca_[jq] >= 0, ca_[jq] < arr.shape[1]))))
                if isinstance(vv, Arr):
                    self.emit(self.site('shape', node), st, vv.shape[0] == ra_.shape[0])
                    val = lambda k: self.num(vv[k], arr.kind)
                elif isinstance(vv, MaskedSel):
                    raise Unsupported('paired store of a compressed selection')
                else:
                    val = lambda k: self.num(vv, arr.kind)
                new = Arr(self.fresh('pstore', self.arr_sort(arr.kind, 2)), arr.shape, arr.kind, arr.init, arr.meta)
                later = z3.ForAll([kq], z3.Implies(z3.And(kq > jq, kq < ra_.shape[0]), z3.Or(ra_[kq] != ra_[jq], ca_[kq] != ca_[jq])))
                hit = z3.Exists([kq], z3.And(kq >= 0, kq < ra_.shape[0], ra_[kq] == iq, ca_[kq] == i2))
                st.pc.append(z3.ForAll([jq], z3.Implies(z3.And(inr, later), new[ra_[jq], ca_[jq]] == val(jq))))
                st.pc.append(z3.ForAll([iq, i2], z3.Implies(z3.And(iq >= 0, iq < arr.shape[0], i2 >= 0, i2 < arr.shape[1], z3.Not(hit)), new[iq, i2] == arr[iq, i2])))
                st.heap[base.oid] = new
                return st
            raise Unsupported('n-d store form')
        i = self.norm_index(ix, arr.shape[0], st, node)
        if arr.ndim != 1:
            raise Unsupported('row store')
        if isinstance(vv, (Arr, MaskedSel)):
            raise Unsupported('array stored into a cell')
        st.heap[base.oid] = Arr(z3.Store(arr.term, i, self.num(v, arr.kind)), arr.shape, arr.kind,
                                None if arr.init is None else z3.Store(arr.init, i, z3.BoolVal(True)), arr.meta)
        return st

    # ------------------------------------------------------------ operators
    def bshape(self, A, B):
        """broadcast shape + accessors for element-wise ops"""
        arrs = [x for x in (A, B) if isinstance(x, Arr)]
        if len(arrs) == 1:
            a = arrs[0]
            return a.shape, (lambda v, ix: v[tuple(ix)] if isinstance(v, Arr) else v), []
        a, b = arrs
        obl = []
        if a.ndim == b.ndim and not (a.meta.get('column') or b.meta.get('column') or a.meta.get('row') or b.meta.get('row')):
            obl = [x == y for x, y in zip(a.shape, b.shape)]
            return a.shape, (lambda v, ix: v[tuple(ix)]), obl
        # (n,1) op (m,) / (n,) column vs 2-d
        def acc(v, ix):
            if v.ndim == len(ix):
                return v[tuple(ix)]
            if v.meta.get('column'):
                return v[ix[0]]
            return v[ix[-1]]          # trailing-dimension broadcast (numpy rule), also explicit row
        big = a if a.ndim >= b.ndim else b
        small = b if big is a else a
        if big.ndim == 2 and small.ndim == 1:
            if small.meta.get('column'):
                obl = [small.shape[0] == big.shape[0]]
            else:
                obl = [small.shape[0] == big.shape[1]]
            return big.shape, acc, obl
        if big.ndim == 1 and small.ndim == 1:
            # column (n,1) with plain (m,) -> (n,m)
            col = a if a.meta.get('column') else (b if b.meta.get('column') else None)
            oth = b if col is a else a
            if col is not None and not oth.meta.get('column'):
                def acc2(v, ix):
                    return v[ix[0]] if v is col else v[ix[1]]
                return (col.shape[0], oth.shape[0]), acc2, []
        raise Unsupported('broadcast form')

    def binop(self, op, a, b, st, node):
        A, B = self.deref(st, a), self.deref(st, b)
        if isinstance(A, Str) or isinstance(B, Str):
            return Str()
        if isinstance(A, Tup) and isinstance(B, Tup) and isinstance(op, ast.Add):
            return Tup(A.items + B.items)
        if isinstance(A, MaskedSel) or isinstance(B, MaskedSel):
            sel = A if isinstance(A, MaskedSel) else B
            oth = B if sel is A else A
            if isinstance(oth, (Arr, MaskedSel)):
                if isinstance(oth, MaskedSel) and z3.eq(oth.mask.term, sel.mask.term):
                    full = self.deref(st, self.arr_binop(op, A.arr, B.arr, st, node))
                    return MaskedSel(full, sel.mask)
                raise Unsupported('arithmetic between a compressed selection and another array')
            full = self.deref(st, self.arr_binop(op, sel.arr if sel is A else oth, oth if sel is A else sel.arr, st, node))
            return MaskedSel(full, sel.mask)
        if isinstance(op, ast.Mult) and isinstance(A, Tup) and len(A.items) == 1 and isinstance(self.deref(st, A.items[0]), Arr) \
                and not isinstance(B, (Arr, Tup)) and is_sym(to_z3(b)) and z3.is_int(to_z3(b)):
            return Tup([Opaque('repeat-rows'), A.items[0], to_z3(b)])          # [row] * n  (a list of n references to the same row)
        if isinstance(A, Arr) or isinstance(B, Arr):
            return self.arr_binop(op, A, B, st, node)
        if isinstance(a, (int, float)) and isinstance(b, (int, float)):
            try:
                return self.concrete_binop(op, a, b)
            except ZeroDivisionError:
                self.emit(self.site('div', node), st, z3.BoolVal(False))
                raise Unsupported('constant division by zero')
        x, y = to_z3(a), to_z3(b)
        if not (is_sym(x) and is_sym(y)):
            raise Unsupported('binop on %r, %r' % (a, b))
        return self.scalar_binop(op, x, y, st, node)

    def concrete_binop(self, op, a, b):
        t = type(op)
        if t is ast.Add: return a + b
        if t is ast.Sub: return a - b
        if t is ast.Mult: return a * b
        if t is ast.Div: return a / b
        if t is ast.FloorDiv: return a // b
        if t is ast.Mod: return a % b
        if t is ast.Pow: return a ** b
        raise Unsupported('binop %s' % t.__name__)

    def scalar_binop(self, op, x, y, st, node):
        t = type(op)
        if z3.is_bool(x): x = z3.If(x, 1, 0)
        if z3.is_bool(y): y = z3.If(y, 1, 0)
        x, y = z3.simplify(x), z3.simplify(y)
        if t in _OPS:
            x, y = _coerce2(x, y)
            if t is ast.Mult and not (z3.is_int_value(x) or z3.is_rational_value(x) or z3.is_int_value(y) or z3.is_rational_value(y)):
                return self.nl_mul(x, y)
            return _OPS[t](x, y)
        if t is ast.Div:
            numpy_scalar = z3.is_app(y) and y.decl().name().split('_')[0].rstrip('0123456789') in ('SUM', 'MEAN', 'AXSUM', 'MASKSUM', 'MSQ')
            if (not numpy_scalar or getattr(self.c, 'strict_div', False)) and not getattr(self.c, 'division_may_raise', False):
                self.emit(self.site('div', node), st, y != 0)       # Python scalars raise ZeroDivisionError; NumPy reductions do not
            xr = z3.ToReal(x) if z3.is_int(x) else x
            yr = z3.ToReal(y) if z3.is_int(y) else y
            if z3.is_rational_value(yr) or z3.is_int_value(y):
                return xr / yr
            return self.nl_div(xr, yr)
        if t is ast.FloorDiv:
            if z3.is_int(x) and z3.is_int(y):
                self.emit(self.site('div', node), st, y != 0)
                return self.int_floordiv(x, y, st)
            raise Unsupported('real floor division')
        if t is ast.Mod:
            if z3.is_int(x) and z3.is_int(y):
                self.emit(self.site('div', node), st, y != 0)
                q = self.int_floordiv(x, y, st)
                return x - q * y if z3.is_int_value(y) else x - self.nl_mul(q, y)
            raise Unsupported('real modulo')
        if t is ast.Pow:
            if z3.is_int_value(y) and y.as_long() == 2:
                return self.nl_sq(x)
            raise Unsupported('power')
        raise Unsupported('binop %s' % t.__name__)

    def int_floordiv(self, x, y, st):
        """Python floor division for y > 0 (obligation), characterised linearly"""
        q = self.fresh('fdiv', 'int')
        if z3.is_int_value(y) and y.as_long() > 0:
            st.pc.append(z3.And(q * y <= x, x < q * y + y))
            return q
        self.emit('div-positive', st, y > 0)
        st.pc.append(z3.And(self.nl_mul(q, y) <= x, x < self.nl_mul(q, y) + y))
        return q

    # non-linear sub-terms: by default real multiplication is kept (z3 nlsat) unless the contract
    # asks for term abstraction (uninterpreted mul/sq/div), see DESIGN 2.3
    def nl_mul(self, x, y):
        if getattr(self.c, 'abstract_nonlinear', False):
            f = self.L.func('mul', 'real', 'real', 'real') if z3.is_real(x) else self.L.func('imul', 'int', 'int', 'int')
            return f(x, y)
        return x * y

    def nl_div(self, x, y):
        if getattr(self.c, 'abstract_nonlinear', False):
            return self.L.func('div', 'real', 'real', 'real')(x, y)
        return x / y

    def nl_sq(self, x):
        if getattr(self.c, 'abstract_nonlinear', True):
            k = 'real' if z3.is_real(x) else 'int'
            return self.L.func('sq' if k == 'real' else 'isq', k, k)(x)
        return x * x

    def arr_binop(self, op, A, B, st, node):
        t = type(op)
        if t in (ast.BitAnd, ast.BitOr):
            shape, acc, obl = self.bshape(A, B)
            for o in obl:
                self.emit(self.site('shape', node), st, o)
            kinds_ = [x.kind if isinstance(x, Arr) else ('bool' if (isinstance(x, bool) or (is_sym(x) and z3.is_bool(x))) else 'int') for x in (A, B)]
            if 'int' in kinds_ and t is ast.BitAnd:
                # integer & boolean (True = 1): the lowest bit of the integer where the boolean holds; integer & integer is not modelled
                if kinds_ == ['int', 'int']:
                    raise Unsupported('bitwise and of two integer arrays')
                iv, bv = (A, B) if kinds_[0] == 'int' else (B, A)
                gi = lambda ix: acc(iv, ix) if isinstance(iv, Arr) else to_z3(iv)
                gb = lambda ix: _z(acc(bv, ix)) if isinstance(bv, Arr) else _z(to_bool(bv))
                return self.new_obj(st, self.lam(lambda *ix: z3.If(gb(ix), gi(ix) % 2, z3.IntVal(0)), shape, 'int'))
            f = z3.And if t is ast.BitAnd else z3.Or
            return self.new_obj(st, self.lam(lambda *ix: f(_z(acc(A, ix)), _z(acc(B, ix))), shape, 'bool'))
        shape, acc, obl = self.bshape(A, B)
        for o in obl:
            self.emit(self.site('shape', node), st, o)
        kinds = [x.kind if isinstance(x, Arr) else ('real' if isinstance(x, float) or (is_sym(x) and z3.is_real(x)) else 'int') for x in (A, B)]
        kind = 'real' if (t is ast.Div or 'real' in kinds) else 'int'
        if 'bool' in kinds and kind == 'int' and t is ast.Mult:
            pass
        def g(v, ix):
            x = acc(v, ix) if isinstance(v, Arr) else to_z3(v)
            return self.num(x, kind)
        if t is ast.Div and getattr(self.c, 'strict_div', False):
            # element-wise division: obligation that every divisor is non-zero (NumPy itself would give inf/nan, not raise)
            if isinstance(B, Arr):
                vs = [self.L.var('q') for _ in B.shape]
                self.emit(self.site('div', node), st,
                          z3.ForAll(vs, z3.Implies(z3.And(*[c for v, s in zip(vs, B.shape) for c in (v >= 0, v < s)]), B[tuple(vs)] != 0)))
            else:
                self.emit(self.site('div', node), st, to_z3(B) != 0)
        dummy = st
        def f(*ix):
            x, y = g(A, ix), g(B, ix)
            if t in _OPS:
                if t is ast.Mult:
                    x, y = z3.simplify(x), z3.simplify(y)      # constant cells (np.ones(n)[i]) are numerals
                if t is ast.Mult and not (z3.is_rational_value(x) or z3.is_int_value(x) or z3.is_rational_value(y) or z3.is_int_value(y)):
                    return self.nl_mul(x, y)
                return _OPS[t](x, y)
            if t is ast.Div:
                if z3.is_rational_value(y):
                    return x / y
                return self.nl_div(x, y)
            if t is ast.Pow:
                if z3.is_int_value(y) and y.as_long() == 2 or z3.is_rational_value(y) and y.as_fraction() == 2:
                    return self.nl_sq(x)
            raise Unsupported('array binop %s' % t.__name__)
        return self.new_obj(st, self.lam(f, shape, kind))

    def cmp(self, op, a, b, st, node):
        if isinstance(op, (ast.Is, ast.IsNot)):
            if isinstance(a, Maybe): a = a.val
            if isinstance(b, Maybe): b = b.val
            if isinstance(a, NoneV) or isinstance(b, NoneV):
                r = isinstance(a, NoneV) and isinstance(b, NoneV)
            elif (is_sym(a) and z3.eq(a, INF())) or (is_sym(b) and z3.eq(b, INF())):
                x, y = to_z3(a), to_z3(b)
                r = z3.eq(x, y) if (is_sym(x) and is_sym(y)) else False
                if is_sym(x) and is_sym(y) and not z3.eq(x, y):
                    # identity with the np.inf singleton: a symbolic float is never *that object*
                    # unless the contract says so via an 'is_inf' flag value
                    r = False
            elif isinstance(a, KindTag) and isinstance(b, KindTag):
                r = (a.kind == b.kind and getattr(a, 'cls', None) == getattr(b, 'cls', None))
            elif (isinstance(a, KindTag) and isinstance(b, Func)) or (isinstance(b, KindTag) and isinstance(a, Func)):
                kt, fn = (a, b) if isinstance(a, KindTag) else (b, a)
                cls = getattr(kt, 'cls', None)
                short = fn.name.replace('method:', '').split('.')[-1]
                if cls is None or short not in ('ndarray', 'list', 'tuple'):
                    raise Unsupported('identity comparison of a type with %s' % fn.name)
                r = (cls == short)
            elif isinstance(a, Ref) and isinstance(b, Ref):
                r = a.oid == b.oid
            elif isinstance(a, bool) or isinstance(b, bool):
                r = (a is b)
            else:
                raise Unsupported('identity comparison of %r, %r' % (a, b))
            return r if isinstance(op, ast.Is) else (not r)
        if isinstance(op, (ast.In, ast.NotIn)):
            B = self.deref(st, b)
            if isinstance(B, Tup):
                xs = [self.cmp(ast.Eq(), a, x, st, node) for x in B.items]
                r = z3.Or(*[_z(x) for x in xs]) if any(is_sym(x) for x in xs) else any(xs)
            elif isinstance(B, Arr) and B.ndim == 1:
                j = self.L.var('m')
                r = z3.Exists([j], z3.And(j >= 0, j < B.shape[0], B[j] == to_z3(a)))
            else:
                raise Unsupported('membership in %r' % (B,))
            if isinstance(op, ast.NotIn):
                return (not r) if isinstance(r, bool) else z3.Not(r)
            return r
        A, B = self.deref(st, a), self.deref(st, b)
        if isinstance(A, KindTag) and isinstance(B, KindTag) and isinstance(op, (ast.Eq, ast.NotEq)):
            same = A.kind == B.kind and (getattr(A, 'dtype', None) or B_default(A)) == (getattr(B, 'dtype', None) or B_default(B))
            return same if isinstance(op, ast.Eq) else not same
        if isinstance(A, Arr) or isinstance(B, Arr):
            shape, acc, obl = self.bshape(A, B)
            for o in obl:
                self.emit(self.site('shape', node), st, o)
            f = _CMP[type(op)]
            def g(v, ix):
                return acc(v, ix) if isinstance(v, Arr) else to_z3(v)
            def h(*ix):
                x, y = _coerce2(g(A, ix), g(B, ix))
                return f(x, y)
            return self.new_obj(st, self.lam(h, shape, 'bool'))
        if isinstance(A, Str) and isinstance(B, Str):
            r = A.s == B.s
            return r if isinstance(op, ast.Eq) else (not r) if isinstance(op, ast.NotEq) else None
        if isinstance(A, NoneV) or isinstance(B, NoneV):
            r = isinstance(A, NoneV) and isinstance(B, NoneV)
            if isinstance(op, ast.Eq): return r
            if isinstance(op, ast.NotEq): return not r
            raise Unsupported('ordering comparison with None')
        if isinstance(A, Tup) and isinstance(B, Tup) and isinstance(op, (ast.Eq, ast.NotEq)):
            if len(A.items) != len(B.items):
                r = False
            else:
                xs = [self.cmp(ast.Eq(), x, y, st, node) for x, y in zip(A.items, B.items)]
                r = z3.And(*[_z(x) for x in xs]) if any(is_sym(x) for x in xs) else all(xs)
            return r if isinstance(op, ast.Eq) else ((not r) if isinstance(r, bool) else z3.Not(r))
        if not is_sym(A) and not is_sym(B) and isinstance(A, (int, float)) and isinstance(B, (int, float)):
            return _CMP[type(op)](A, B)
        x, y = to_z3(A), to_z3(B)
        if not (is_sym(x) and is_sym(y)):
            raise Unsupported('comparison of %r and %r' % (a, b))
        # an integer is always below +inf (np.inf as "no limit on the number of clusters")
        if z3.is_int(x) and z3.eq(y, INF()) and type(op) in (ast.Lt, ast.LtE, ast.NotEq):
            return True
        if z3.is_int(x) and z3.eq(y, INF()) and type(op) in (ast.Gt, ast.GtE, ast.Eq):
            return False
        if z3.is_int(y) and z3.eq(x, INF()) and type(op) in (ast.Gt, ast.GtE, ast.NotEq):
            return True
        if z3.is_int(y) and z3.eq(x, INF()) and type(op) in (ast.Lt, ast.LtE, ast.Eq):
            return False
        if z3.is_bool(x) != z3.is_bool(y):
            if z3.is_bool(x): x = z3.If(x, 1, 0)
            if z3.is_bool(y): y = z3.If(y, 1, 0)
        x, y = _coerce2(x, y)
        return _CMP[type(op)](x, y)

    # ------------------------------------------------------------ attributes
    def eval_attr(self, n, st):
        full = ast.unparse(n)
        if full in ('np.inf', 'numpy.inf'):
            yield st, INF()
            return
        if full in ('np.integer', 'np.int64', 'np.int32', 'np.int_', 'np.intp'):
            yield st, KindTag('int'); return
        if full in ('np.floating', 'np.float64', 'np.float32', 'np.double'):
            kt = KindTag('real')
            kt.dtype = 'float32' if full == 'np.float32' else 'float64'
            yield st, kt; return
        if full in ('np.bool_',):
            yield st, KindTag('bool'); return
        if full == 'np.newaxis':
            yield st, NONE; return
        r = self.resolve_callee(n, st)
        if r is not None:
            yield st, Func(r)
            return
        if self.prims.has(full):
            yield st, Func(full)
            return
        if full.split('.')[0] in ('logger', 'logging', 'warnings', 'sys', 'os', 'exception'):
            yield st, Func(full)
            return
        for st1, base in self.eval(n.value, st):
            b = self.deref(st1, base)
            if isinstance(b, Arr):
                if n.attr == 'shape':
                    yield st1, Tup(list(b.shape)); continue
                if n.attr == 'size':
                    s = b.shape[0]
                    for x in b.shape[1:]:
                        s = s * x
                    yield st1, s; continue
                if n.attr == 'ndim':
                    yield st1, b.ndim; continue
                if n.attr == 'dtype':
                    kt = KindTag(b.kind)
                    kt.dtype = b.meta.get('dtype')
                    yield st1, kt; continue
                if n.attr == 'T':
                    if b.ndim == 1:
                        yield st1, base; continue
                    if b.ndim == 2:
                        yield st1, self.new_obj(st1, self.lam(lambda i, j: b[j, i], (b.shape[1], b.shape[0]), b.kind)); continue
                yield st1, Func('method:' + n.attr, bound=base); continue
            if isinstance(b, KindTag) and n.attr == 'type':
                yield st1, b; continue          # dtype.type: the scalar class, same kind
            if isinstance(b, Slice) and n.attr in ('start', 'stop', 'step'):
                v = {'start': b.lo, 'stop': b.hi, 'step': b.step}[n.attr]
                yield st1, (NONE if v is None else v); continue
            if isinstance(b, RecV):
                if n.attr in b.fields:
                    yield st1, b.fields[n.attr]; continue
                key = self.method_key(b, n.attr)
                if key:
                    fdef = self.src.func(key)
                    if any(isinstance(d_, ast.Name) and d_.id == 'property' for d_ in fdef.decorator_list):
                        yield from self.call_contract(key, [base], {}, st1, n)      # a property: reading it calls the method
                        continue
                    yield st1, Func(key, bound=base); continue
                raise Unsupported('record %s has no attribute %s' % (b.cls, n.attr))
            if isinstance(b, (Func, Opaque, Str, Tup, MaskedSel, Metric, RArr)) or isinstance(b, tuple) or type(b).__name__ == 'ConcatR':
                yield st1, Func('method:' + n.attr, bound=base); continue
            if is_sym(b) and b.sort().name() == 'Obj':
                # opaque object (matrix, mapping, callable...): attributes are uninterpreted functions of it
                if n.attr == 'shape':
                    yield st1, Tup([z3.Function('NROWS', b.sort(), z3.IntSort())(b), z3.Function('NCOLS', b.sort(), z3.IntSort())(b)]); continue
                yield st1, z3.Function('ATTR_' + n.attr, b.sort(), b.sort())(b); continue
            raise Unsupported('attribute %s of %r' % (n.attr, b))

    def method_key(self, rec, attr):
        for q in self.registry:
            rel, qual = q.split('::')
            if qual == '%s.%s' % (rec.cls, attr):
                return q
        return None

    def resolve_callee(self, fn_node, st):
        """AST of the callee expression -> registry key, if it names a function under contract"""
        if isinstance(fn_node, ast.Name):
            if st is not None:
                v = st.env.get(fn_node.id, UNDEF)
                if isinstance(v, Func) and v.name in self.registry:
                    return v.name
                if v is not UNDEF:
                    return None
            return self.resolve_name(fn_node.id)
        if isinstance(fn_node, ast.Attribute):
            full = ast.unparse(fn_node)
            if full.count('(') == 0 and '[' not in full:
                return self.resolve_name(full)
        return None

    # ------------------------------------------------------------ lists
    def eval_list(self, n, st):
        if not n.elts:
            a = Arr(z3.K(z3.IntSort(), z3.IntVal(0)), (0,), 'int', meta={'list': True, 'empty_literal': True})
            yield st, self.new_obj(st, a)
            return
        def rec(elts, st, acc):
            if not elts:
                yield st, acc
                return
            for st1, v in self.eval(elts[0], st):
                yield from rec(elts[1:], st1, acc + [v])
        for st1, items in rec(n.elts, st, []):
            if all(isinstance(x, (int, float)) or is_sym(x) for x in items):
                kind = 'real' if any(isinstance(x, float) or (is_sym(x) and z3.is_real(x)) for x in items) else 'int'
                t = z3.K(z3.IntSort(), self.num(0, kind))
                for k, x in enumerate(items):
                    t = z3.Store(t, k, self.num(x, kind))
                yield st1, self.new_obj(st1, Arr(t, (len(items),), kind, meta={'list': True}))
            else:
                yield st1, Tup(items)

    def listcomp(self, n, st):
        if len(n.generators) != 1:
            raise Unsupported('nested comprehension')
        g = n.generators[0]
        if isinstance(g.iter, ast.Call) and ast.unparse(g.iter.func) == 'range' and len(g.iter.args) == 1:
            (st0, hi_), = list(self.eval(g.iter.args[0], st))
            rng = self.lam(lambda i_: i_, (to_z3(hi_),), 'int')
            rng.meta = {'arange': True}
            outs_ = [(st0, self.new_obj(st0, rng))]
        else:
            outs_ = list(self.eval(g.iter, st))
        for st1, it in outs_:
            src = self.deref(st1, it)
            if isinstance(src, Tup):
                # concrete unroll
                items, stc = [], st1
                for x in src.items:
                    stc = self.assign(g.target, x, stc)
                    if g.ifs:
                        raise Unsupported('filtered comprehension over tuple')
                    (stc, v), = list(self.eval(n.elt, stc))
                    items.append(v)
                yield stc, Tup(items)
                continue
            if not isinstance(src, (Arr, RArr)):
                raise Unsupported('comprehension over %r' % (src,))
            if g.ifs:
                raise Unsupported('filtered comprehension')
            if isinstance(n.elt, ast.Name) and isinstance(g.target, ast.Name) and n.elt.id == g.target.id:
                a = Arr(src.term, src.shape, src.kind, src.init, dict(src.meta, list=True))
                yield st1, self.new_obj(st1, a)
                continue
            # point-wise comprehension: evaluate the element expression on a symbolic index
            # (a fresh name: the element expression may itself build point-wise arrays bound over i!0)
            i = z3.Int('c!%d' % next(self.fresh_n))
            stc = st1.copy()
            stc.pc = stc.pc + [i >= 0, i < src.shape[0]]
            n_pc = len(stc.pc)
            elem0 = self.new_obj(stc, src.row(i)) if isinstance(src, RArr) else self.element(src, i, stc)
            stc = self.assign(g.target, elem0, stc)
            n_before = len(self.vcs)
            self.comp_vars = getattr(self, 'comp_vars', []) + [i]      # unknowns created below are skolem functions of i
            try:
                outs = list(self.eval(n.elt, stc))
            finally:
                self.comp_vars = self.comp_vars[:-1]
            if len(outs) != 1:
                raise Unsupported('branching comprehension element')
            stc2, v = outs[0]
            # facts learnt while evaluating the element hold for every index of the comprehension
            newf = stc2.pc[n_pc:]
            closed = [z3.ForAll([i], z3.Implies(z3.And(i >= 0, i < src.shape[0]), z3.And(*newf)))] if newf else []
            tname = g.target.id if isinstance(g.target, ast.Name) else 'x'
            ev = self.deref(stc2, v)
            if isinstance(ev, Arr):
                st2 = st1.copy()
                st2.pc = st1.pc + closed
                if closed:
                    st2.facts['comp:' + tname] = closed[0]
                yield st2, self.new_obj(st2, RArr(ev, i, src.shape[0]))
                continue
            vz = to_z3(v)
            if not is_sym(vz):
                raise Unsupported('comprehension element value')
            kind = 'real' if z3.is_real(vz) else ('bool' if z3.is_bool(vz) else ('int' if z3.is_int(vz) else None))
            if kind is None:
                kind = [k for k, s in [('frame', None)]][0]
                kind = str(vz.sort()).lower()
            a = Arr(z3.Lambda([i], vz), (src.shape[0],), kind, meta={'list': True})
            st2 = st1.copy()
            st2.pc = st1.pc + closed
            if closed:
                st2.facts['comp:' + tname] = closed[0]
            yield st2, self.new_obj(st2, a)

    # ------------------------------------------------------------ calls
    def eval_args(self, n, st):
        def rec(args, st, acc):
            if not args:
                yield st, acc
                return
            a = args[0]
            if isinstance(a, ast.Starred):
                # f(*t): only a tuple of statically known length is spliced
                for st1, v in self.eval(a.value, st):
                    t = self.deref(st1, v)
                    if not isinstance(t, Tup):
                        raise Unsupported('*args of a non-tuple')
                    yield from rec(args[1:], st1, acc + list(t.items))
                return
            for st1, v in self.eval(a, st):
                yield from rec(args[1:], st1, acc + [v])
        for st1, argv in rec(n.args, st, []):
            kw = {}
            st2 = st1
            for k in n.keywords:
                outs = list(self.eval(k.value, st2))
                if len(outs) != 1:
                    raise Unsupported('branching keyword argument')
                st2, v = outs[0]
                if k.arg is None:
                    d = self.deref(st2, v)
                    if isinstance(d, tuple) and d[0] == 'dict':
                        kw.update(d[1])
                    else:
                        raise Unsupported('**kwargs of unknown dict')
                else:
                    kw[k.arg] = v
            yield st2, argv, kw

    def call(self, n, st):
        fname = ast.unparse(n.func)
        head = fname.split('.')[0]
        if head in ('logger', 'logging', 'warnings') or fname in ('print', 'warn'):
            # arguments are still evaluated: definedness and index bounds (DESIGN 2.1)
            for st1, argv, kw in self.eval_args(n, st):
                yield st1, NONE
            return
        for st0, f in self.eval(n.func, st):
            for st1, argv, kw in self.eval_args(n, st0):
                st1 = st1.copy()
                yield from self.apply(f, argv, kw, st1, n)

    def apply(self, f, argv, kw, st, node):
        if isinstance(f, Maybe):
            f = f.val
        if isinstance(f, Metric):
            yield st, self.apply_metric(f, argv[0], argv[1], st, node)
            return
        if isinstance(f, Func):
            if f.name in self.registry:
                if f.bound is not None:
                    argv = [f.bound] + list(argv)
                yield from self.call_contract(f.name, argv, kw, st, node)
                return
            if f.name.startswith('method:'):
                yield from self.prims.method(self, f.name[7:], f.bound, argv, kw, st, node)
                return
            if self.prims.has(f.name):
                yield from self.prims.call(self, f.name, argv, kw, st, node)
                return
            raise Unsupported('call of unknown function %s (no contract, no primitive)' % f.name)
        if isinstance(f, KindTag):
            yield st, argv[0] if argv else 0
            return
        if is_sym(f) and f.sort().name() == 'Obj':
            # an opaque callable applied to opaque / scalar arguments: uninterpreted application (deterministic)
            zs = [to_z3(a) for a in argv] + [to_z3(kw[k]) for k in sorted(kw)]
            if not all(is_sym(z) for z in zs):
                raise Unsupported('opaque call with non-scalar arguments')
            fn = z3.Function('APPLY%d_%s' % (len(zs), '_'.join(str(z.sort()) for z in zs)), f.sort(), *[z.sort() for z in zs], f.sort())
            yield st, fn(f, *zs)
            return
        raise Unsupported('call of %r' % (f,))

    def apply_metric(self, m, X, y, st, node):
        d = self.L.func('d', 'frame', 'frame', 'real')
        Xv = self.deref(st, X)
        yv = self.deref(st, y)
        if isinstance(yv, Arr) or not is_sym(yv):
            raise Unsupported('metric target is not a single frame')
        if isinstance(Xv, MaskedSel):
            full = Xv.arr
            return MaskedSel(self.lam(lambda i: d(full[i], yv), full.shape, 'real'), Xv.mask)
        if not (isinstance(Xv, Arr) and Xv.kind == 'frame'):
            raise Unsupported('metric applied to %r' % (Xv,))
        return self.new_obj(st, self.lam(lambda i: d(Xv[i], yv), Xv.shape[:1], 'real'))

    def call_contract(self, key, argv, kw, st, node):
        c = self.registry[key]
        names = self.src.param_names(key)
        fn = self.src.func(key)
        if key.endswith('.__init__') and isinstance(getattr(node, 'func', None), ast.Name) and names and names[0] == 'self':
            names = names[1:]                 # ClassName(args): the new object is the contract's result()
        args = {}
        for nm, v in zip(names, argv):
            args[nm] = v
        for k, v in kw.items():
            if k not in names:
                raise Unsupported('unexpected keyword %s for %s' % (k, key))
            args[k] = v
        defaults = self._defaults(fn)
        for nm in names:
            if nm not in args:
                if nm in defaults:
                    (st_, v), = list(self.eval(defaults[nm], st))
                    args[nm] = v
                else:
                    raise Unsupported('missing argument %s in call of %s' % (nm, key))
        L = self.L
        # a range object passed where the contract speaks about an integer sequence: the same sequence as an array
        for nm in getattr(c, 'range_as_array', ()):
            v = self.deref(st, args.get(nm))
            if isinstance(v, Tup) and v.items and isinstance(v.items[0], Opaque) and v.items[0].tag == 'range':
                from .prims import seq_view
                ln_, get_ = seq_view(self, st, args[nm])
                a_ = self.lam(lambda i_: get_(i_), (ln_,), 'int')
                a_.meta = {'list': True}
                args[nm] = self.new_obj(st, a_)
        # a list literal of integers passed where the contract speaks about an integer sequence: the same sequence as an array
        for nm in getattr(c, 'tuple_as_array', ()):
            v = self.deref(st, args.get(nm))
            if isinstance(v, Tup) and v.items and not any(isinstance(x, Opaque) for x in v.items):
                items_ = [to_z3(x) for x in v.items]
                if all(z3.is_int(x) for x in items_):
                    t_ = z3.K(z3.IntSort(), z3.IntVal(0))
                    for k_, x in enumerate(items_):
                        t_ = z3.Store(t_, k_, x)
                    args[nm] = self.new_obj(st, Arr(t_, (z3.IntVal(len(items_)),), 'int', meta={'list': True}))
        # row-wise contracts lift through boolean masks: f(X[mask]) = f(X)[mask]   (DESIGN 2.5)
        lift_mask = None
        for nm in getattr(c, 'rowwise', ()):
            v = self.deref(st, args.get(nm))
            if isinstance(v, MaskedSel):
                lift_mask = v.mask
                args[nm] = self.new_obj(st, v.arr)
        A = {nm: self.wrap(v, st) for nm, v in args.items()}
        ghost, gax = c.ghost(L, A) if hasattr(c, 'ghost') else (None, [])
        short = key.split('::')[1]
        for name, p in c.requires(L, A, ghost):
            self.emit(self.site('call', getattr(node, 'func', node)), st, p, clause='pre:' + name)
        # exceptional exits of the callee propagate (contracts say when)
        allowed = c.raises(L, A, ghost) if hasattr(c, 'raises') else {}
        st = st.copy()
        for g in gax:
            st.pc.append(g)
        for nm, base, step, concl in self.lemma_terms(c, A, ghost):
            st.pc.append(concl)      # proved where the callee's own contract is verified
        for exc, cond in allowed.items():
            cz = _z(cond) if not isinstance(cond, bool) else z3.BoolVal(cond)
            cz = z3.simplify(cz)
            if z3.is_false(cz):
                continue
            # path on which the callee raises
            s_r = st.copy(); s_r.pc.append(cz)
            self._pending_raises.append((s_r, exc))
            if z3.is_true(cz):
                return              # the callee always raises here: no normal continuation
            st.pc.append(z3.Not(cz))
        # havoc what the callee modifies
        for p in c.modifies:
            v = args.get(p)
            if isinstance(v, Maybe):
                v = v.val
            if isinstance(v, Ref) and isinstance(st.heap[v.oid], Arr):
                a = st.heap[v.oid]
                grows = p in getattr(c, 'resizes', ())
                shape = tuple(self.fresh(p + '_len', 'int') for _ in a.shape) if grows else a.shape
                st.heap[v.oid] = Arr(self.fresh(p + "'", a.term.sort()), shape, a.kind, None, a.meta)
                for s in shape:
                    if grows:
                        st.pc.append(s >= 0)
        res = c.result(self, st, args)
        N = {nm: self.wrap(v, st) for nm, v in args.items()}
        R = self.wrap(res, st)
        for clause_ in c.ensures(L, A, N, R, ghost, None):
            name, g = clause_[0], clause_[1]
            gz = _z(g) if not isinstance(g, bool) else z3.BoolVal(g)
            st.pc.append(gz)
            fk, kk = '%s:%s' % (short, name), 1
            while (fk if kk == 1 else '%s#%d' % (fk, kk)) in st.facts:
                kk += 1
            st.facts[fk if kk == 1 else '%s#%d' % (fk, kk)] = gz
        if lift_mask is not None:
            def lift(v):
                o = self.deref(st, v)
                if isinstance(v, Tup):
                    return Tup([lift(x) for x in v.items])
                if isinstance(o, Arr):
                    return MaskedSel(o, lift_mask)
                return v
            res = lift(res)
        yield st, res


class FullEngine(NPMixin, Engine):
    def __init__(self, *a, **k):
        Engine.__init__(self, *a, **k)
        self._pending_raises = []

    def exec_stmt(self, n, st):
        # statements whose expression evaluation hit a callee 'raises' clause produce extra raise exits
        self._pending_raises = []
        for out in Engine.exec_stmt(self, n, st):
            pend, self._pending_raises = self._pending_raises, []
            for s_r, exc in pend:
                yield ('raise', s_r, exc)
            yield out
        pend, self._pending_raises = self._pending_raises, []
        for s_r, exc in pend:
            yield ('raise', s_r, exc)
