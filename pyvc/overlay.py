"""Build an importable overlay of /repo's *current working tree* outside /repo.

The in-tree package cannot import its compiled kernels (no built .so) and libmpi is absent,
so every check that replays on, or runs bounded contracts against, the real code builds this:

  rsync of <repo>/enspara (without test/, data/)  ->  <cache>/<treehash>/enspara
  cython -3 + gcc -O2 -fopenmp for the three .pyx files (libdist, libinfo, libmsm)

The directory is keyed by the sha256 of every .py/.pyx file under <repo>/enspara, so it is
rebuilt whenever the working tree changes and shared by concurrent checks of the same tree.
Stdlib only: runs under python3-vt and /venv/bin/python alike.
"""
import hashlib, os, shutil, subprocess, sys, tempfile, time, glob

VENV_PY = '/venv/bin/python'
PYX = ['enspara/info_theory/libinfo.pyx', 'enspara/geometry/libdist.pyx', 'enspara/msm/libmsm.pyx']
HERE = os.path.dirname(os.path.abspath(__file__))
CACHE = os.environ.get('VERIF_CACHE', os.path.join(os.path.dirname(HERE), '.cache'))


def tree_hash(repo='/repo'):
    h = hashlib.sha256()
    files = []
    for root, dirs, fs in os.walk(os.path.join(repo, 'enspara')):
        dirs[:] = sorted(d for d in dirs if d not in ('test', 'data', '__pycache__'))
        for f in sorted(fs):
            if f.endswith(('.py', '.pyx', '.pxd', '.json')):
                files.append(os.path.join(root, f))
    for p in files:
        h.update(os.path.relpath(p, repo).encode()); h.update(b'\0')
        with open(p, 'rb') as fh:
            h.update(fh.read())
        h.update(b'\0')
    return h.hexdigest()[:20]


def _includes():
    out = subprocess.check_output([VENV_PY, '-c',
        'import numpy,sysconfig;print(numpy.get_include());print(sysconfig.get_paths()["include"]);'
        'print(sysconfig.get_config_var("EXT_SUFFIX"))'], text=True).split()
    return out[0], out[1], out[2]


def build(repo='/repo', pyx=True, quiet=True):
    """returns the overlay root (a directory to put on PYTHONPATH)"""
    th = tree_hash(repo)
    root = os.path.join(CACHE, 'overlay', th)
    marker = os.path.join(root, '.built_pyx' if pyx else '.built_py')
    if os.path.exists(marker) or os.path.exists(os.path.join(root, '.built_pyx')):
        return root
    os.makedirs(os.path.join(CACHE, 'overlay'), exist_ok=True)
    # prune old overlays (disk is limited): keep the 3 most recent
    olds = sorted(glob.glob(os.path.join(CACHE, 'overlay', '*')), key=os.path.getmtime)
    for o in olds[:-3]:
        if os.path.basename(o) != th:
            shutil.rmtree(o, ignore_errors=True)
    tmp = tempfile.mkdtemp(prefix='ov_', dir=os.path.join(CACHE, 'overlay'))
    try:
        subprocess.check_call(['rsync', '-a', '--exclude', 'test', '--exclude', 'data', '--exclude', '__pycache__',
                               '--exclude', '*.so', '--exclude', '*.c',
                               os.path.join(repo, 'enspara'), tmp + '/'])
        if pyx:
            npinc, pyinc, suffix = _includes()
            procs = []
            for p in PYX:
                src = os.path.join(tmp, p)
                c = src[:-4] + '.c'
                subprocess.check_call([VENV_PY, '-m', 'cython', '-3', src, '-o', c],
                                      stdout=subprocess.DEVNULL if quiet else None,
                                      stderr=subprocess.DEVNULL if quiet else None)
                so = src[:-4] + suffix
                procs.append(subprocess.Popen(['gcc', '-shared', '-fPIC', '-O2', '-fopenmp', '-w',
                                               '-I', npinc, '-I', pyinc, c, '-o', so, '-lm']))
            for pr in procs:
                if pr.wait() != 0:
                    raise RuntimeError('gcc failed for a .pyx kernel')
        open(os.path.join(tmp, '.built_pyx' if pyx else '.built_py'), 'w').write(th)
        try:
            os.rename(tmp, root)
        except OSError:
            # somebody else built it meanwhile (or a py-only overlay exists): replace if we have more
            if pyx and not os.path.exists(os.path.join(root, '.built_pyx')):
                old = root + '.old%d' % os.getpid()
                os.rename(root, old); os.rename(tmp, root); shutil.rmtree(old, ignore_errors=True)
            else:
                shutil.rmtree(tmp, ignore_errors=True)
    except BaseException:
        shutil.rmtree(tmp, ignore_errors=True)
        raise
    return root


PRELUDE = ("import sys\nsys.modules['mpi4py'] = None\n")   # enspara.mpi falls back to its serial DummyComm


def run_py(script_path, args=(), overlay=None, env=None, timeout=3600, input_text=None):
    """run a script under /venv/bin/python with the overlay first on the path"""
    e = dict(os.environ)
    e['PYTHONPATH'] = (overlay or build()) + os.pathsep + os.path.dirname(HERE)
    e.setdefault('OMP_NUM_THREADS', '2')
    e['PYTHONDONTWRITEBYTECODE'] = '1'
    if env:
        e.update(env)
    return subprocess.run([VENV_PY, script_path] + list(args), env=e, text=True, capture_output=True,
                          timeout=timeout, input=input_text)


if __name__ == '__main__':
    t = time.time()
    repo = sys.argv[1] if len(sys.argv) > 1 else '/repo'
    r = build(repo, pyx=True, quiet=False)
    print(r)
    print('built in %.1fs' % (time.time() - t), file=sys.stderr)
