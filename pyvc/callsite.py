"""Repository-wide call-site obligations for C19 (DESIGN 4 C19 (d)), decided by data flow without a solver:
  (1) every call of a NumPy ufunc with a `where=` keyword must pass `out=`, and every reaching definition of that
      `out` inside the function must be an initialising allocator (zeros, zeros_like, ones, full, copy, an arithmetic result...);
      otherwise the cells where the mask is false hold whatever the allocator recycled (heap history).
  (2) every np.empty / np.empty_like result must be completely overwritten before it is read (.fill, a full-slice
      assignment, an MPI Bcast into it, or windows that provably cover it - the last is delegated to a named SMT obligation).
"""
import ast, os

UFUNCS = {'add', 'subtract', 'multiply', 'divide', 'true_divide', 'floor_divide', 'log', 'log2', 'log10', 'exp', 'sqrt', 'power',
          'negative', 'absolute', 'abs', 'reciprocal', 'square', 'maximum', 'minimum', 'fmin', 'fmax', 'sin', 'cos', 'log1p', 'expm1'}
INIT_ALLOC = {'zeros', 'zeros_like', 'ones', 'ones_like', 'full', 'full_like', 'copy', 'array', 'asarray', 'arange', 'eye', 'identity'}


def files(repo):
    for root, dirs, fs in os.walk(os.path.join(repo, 'enspara')):
        dirs[:] = sorted(d for d in dirs if d not in ('test', 'data', '__pycache__'))
        for f in sorted(fs):
            if f.endswith('.py'):
                yield os.path.join(root, f)


def np_call(node):
    if isinstance(node, ast.Call) and isinstance(node.func, ast.Attribute) and isinstance(node.func.value, ast.Name) \
            and node.func.value.id in ('np', 'numpy'):
        return node.func.attr
    return None


def enclosing_functions(tree):
    out = []
    for n in ast.walk(tree):
        if isinstance(n, (ast.FunctionDef, ast.AsyncFunctionDef)):
            out.append(n)
    return out


def classify_rhs(v):
    nm = np_call(v)
    if nm in INIT_ALLOC:
        return 'init'
    if nm in ('empty', 'empty_like'):
        return 'empty'
    if isinstance(v, ast.Call) and isinstance(v.func, ast.Attribute) and v.func.attr in ('copy', 'astype'):
        return 'init'
    if isinstance(v, (ast.BinOp, ast.UnaryOp, ast.Compare)):
        return 'init'
    if nm is not None and nm in UFUNCS and not any(k.arg == 'where' for k in v.keywords):
        return 'init'
    return 'unknown'


def scan(repo='/repo'):
    """-> list of (obligation id, ok, [detail])"""
    res = []
    for path in files(repo):
        rel = os.path.relpath(path, repo)
        try:
            tree = ast.parse(open(path).read())
        except SyntaxError:
            continue
        for fn in enclosing_functions(tree):
            calls = sorted([n for n in ast.walk(fn) if isinstance(n, ast.Call)], key=lambda n: (n.lineno, n.col_offset))
            k_w = 0
            for c in calls:
                nm = np_call(c)
                if nm in UFUNCS and any(k.arg == 'where' for k in c.keywords):
                    k_w += 1
                    oid = 'callsite[%s::%s masked np.%s #%d]' % (rel, fn.name, nm, k_w)
                    out_kw = [k.value for k in c.keywords if k.arg == 'out']
                    if not out_kw and len(c.args) >= 3:
                        out_kw = [c.args[2]]
                    if not out_kw:
                        res.append((oid, False, ['%s:%d np.%s(..., where=...) allocates its own output: cells where the mask is false are uninitialised' % (rel, c.lineno, nm)]))
                        continue
                    o = out_kw[0]
                    if not isinstance(o, ast.Name):
                        kind = classify_rhs(o)
                        res.append((oid, kind == 'init', ['%s:%d out=%s (%s)' % (rel, c.lineno, ast.unparse(o)[:60], kind)]))
                        continue
                    defs = [a for a in ast.walk(fn) if isinstance(a, ast.Assign) and a.lineno < c.lineno and
                            any(isinstance(t, ast.Name) and t.id == o.id for t in a.targets)]
                    params = {a.arg for a in fn.args.args}
                    if not defs and o.id in params:
                        res.append((oid, True, ['out is a caller-supplied buffer']))
                        continue
                    last = max(defs, key=lambda a: a.lineno) if defs else None
                    kind = classify_rhs(last.value) if last is not None else 'unknown'
                    # an earlier masked ufunc writing into the same buffer keeps it initialised
                    res.append((oid, kind == 'init', ['%s:%d out=%s defined at line %s as %s (%s)' % (rel, c.lineno, o.id, getattr(last, 'lineno', '?'),
                                                                                               ast.unparse(last.value)[:60] if last is not None else '?', kind)]))
            k_e = 0
            for a in sorted([x for x in ast.walk(fn) if isinstance(x, ast.Assign)], key=lambda n: n.lineno):
                if np_call(a.value) in ('empty', 'empty_like') and len(a.targets) == 1 and isinstance(a.targets[0], ast.Name):
                    k_e += 1
                    name = a.targets[0].id
                    oid = 'callsite[%s::%s np.%s -> %s #%d]' % (rel, fn.name, np_call(a.value), name, k_e)
                    later = [n for n in ast.walk(fn) if getattr(n, 'lineno', 0) > a.lineno]
                    ok, how = False, 'no complete overwrite found before use'
                    for n in sorted(later, key=lambda n: n.lineno):
                        if isinstance(n, ast.Call) and isinstance(n.func, ast.Attribute) and isinstance(n.func.value, ast.Name) and n.func.value.id == name and n.func.attr == 'fill':
                            ok, how = True, '.fill() at line %d' % n.lineno
                            break
                        if isinstance(n, ast.Call) and isinstance(n.func, ast.Attribute) and n.func.attr in ('Bcast', 'Allgatherv', 'Gatherv', 'Recv') and any(isinstance(x, ast.Name) and x.id == name for x in ast.walk(n)):
                            ok, how = True, 'MPI %s overwrites it at line %d (MPI contract, assumed)' % (n.func.attr, n.lineno)
                            break
                        if isinstance(n, ast.Assign) and any(isinstance(t, ast.Subscript) and isinstance(t.value, ast.Name) and t.value.id == name for t in n.targets):
                            t = [t for t in n.targets if isinstance(t, ast.Subscript)][0]
                            if isinstance(t.slice, ast.Slice) and t.slice.lower is None and t.slice.upper is None:
                                ok, how = True, 'full-slice assignment at line %d' % n.lineno
                            else:
                                ok, how = None, 'windowed writes starting at line %d: coverage must be proved separately' % n.lineno
                            break
                    res.append((oid, ok, ['%s:%d %s' % (rel, a.lineno, how)]))
    return res


if __name__ == '__main__':
    import sys
    for oid, ok, d in scan(sys.argv[1] if len(sys.argv) > 1 else '/repo'):
        print('OK ' if ok else ('?? ' if ok is None else 'BAD'), oid, d)
