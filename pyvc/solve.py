"""Discharge of verification conditions.

Each VC is decided in its own forked worker with a hard wall-clock kill (z3's soft timeout is not
respected on quantified/non-linear queries).  Strategies (all sound: they only weaken hypotheses
or hand the exact query to the solver; `unsat` from any discharges the VC):
  inst : index-set instantiation of universally quantified hypotheses with the ground index terms
         of the skolemised goal and quantifier-free hypotheses (+ contract hint terms) -> QF query
  z3   : the exact query to z3's quantifier engine (MBQI + E-matching)
A VC that is not discharged is re-checked with *pinned sizes* to obtain a definite `sat` model.
"""
import os, sys, time, json, select, signal, itertools, traceback
import z3


def skolemize(goal, tag='sk'):
    consts = []
    while True:
        if z3.is_not(goal) and z3.is_quantifier(goal.arg(0)) and goal.arg(0).is_exists():
            # not (exists x. P)  is  forall x. not P
            q_ = goal.arg(0)
            vs = [z3.Const('%s!%s!%d' % (tag, q_.var_name(k), len(consts) + k), q_.var_sort(k)) for k in range(q_.num_vars())]
            consts += vs
            goal = z3.Not(z3.substitute_vars(q_.body(), *reversed(vs)))
            continue
        break
    while z3.is_quantifier(goal) and goal.is_forall():
        vs = [z3.Const('%s!%s!%d' % (tag, goal.var_name(k), len(consts) + k), goal.var_sort(k))
              for k in range(goal.num_vars())]
        consts += vs
        goal = z3.substitute_vars(goal.body(), *reversed(vs))
    return goal, consts


def _ground_terms(es, want_sorts, limit):
    """ground (variable-free) sub-terms of the given sorts, in order of appearance"""
    seen = set()
    out = {str(s): [] for s in want_sorts}
    hasvar_cache = {}

    def has_var(e):
        k = e.get_id()
        if k in hasvar_cache:
            return hasvar_cache[k]
        if z3.is_var(e):
            r = True
        elif z3.is_quantifier(e):
            r = True
        else:
            r = any(has_var(c) for c in e.children())
        hasvar_cache[k] = r
        return r

    def closed_lambda(e):
        def free(x, depth):
            if z3.is_var(x):
                return z3.get_var_index(x) >= depth
            if z3.is_quantifier(x):
                return free(x.body(), depth + x.num_vars())
            return any(free(c, depth) for c in x.children())
        return not free(e.body(), e.num_vars())

    def walk(e):
        if e.get_id() in seen:
            return
        seen.add(e.get_id())
        if z3.is_quantifier(e):
            if e.is_lambda():
                sn = str(e.sort())
                if sn in out and len(out[sn]) < limit and closed_lambda(e):
                    out[sn].append(e)
            walk(e.body())
            return
        if z3.is_var(e):
            return
        for ch in e.children():
            walk(ch)
        sn = str(e.sort())
        if sn in out and not has_var(e) and not z3.is_int_value(e) and not z3.is_rational_value(e) \
                and not z3.is_true(e) and not z3.is_false(e):
            if len(out[sn]) < limit:
                out[sn].append(e)
    for e in es:
        walk(e)
    return out


def _split_hyps(hyps):
    """-> (quantifier-free facts, universally quantified facts); implications whose antecedent is an
    asserted literal are resolved first so guarded quantified hypotheses become usable"""
    work, qf, qs = list(hyps), [], []
    asserted = set()
    for h in hyps:
        if z3.is_const(h) and h.decl().kind() == z3.Z3_OP_UNINTERPRETED:
            asserted.add(h.get_id())
    pending = []
    while work:
        h = work.pop()
        if z3.is_and(h):
            work.extend(h.children())
        elif z3.is_quantifier(h) and h.is_forall():
            qs.append(h)
        elif z3.is_implies(h):
            a = h.arg(0)
            if a.get_id() in asserted or z3.is_true(a):
                work.append(h.arg(1))
            else:
                pending.append(h)
        else:
            if z3.is_const(h) and z3.is_bool(h):
                if h.get_id() not in asserted:
                    asserted.add(h.get_id())
                    still = []
                    for p in pending:
                        if p.arg(0).get_id() == h.get_id():
                            work.append(p.arg(1))
                        else:
                            still.append(p)
                    pending = still
            qf.append(h)
    qf.extend(pending)
    return qf, qs


def _snf(formulas):
    """skolem normal form: existentials in hypotheses (and under universals) become skolem functions, so the
    remaining quantifiers are universal and can be instantiated"""
    g = z3.Goal()
    for f in formulas:
        g.add(f)
    try:
        r = z3.Then(z3.Tactic('simplify'), z3.Tactic('snf'))(g)
        out = []
        for sub in r:
            out.extend(list(sub))
        return out
    except z3.Z3Exception:
        return list(formulas)


def _has_exists(f, depth=0):
    s = f.sexpr() if depth == 0 else ''
    return '(exists ' in s


def _frame_arrays(es, sorts):
    """array constants Int -> S for uninterpreted sorts S among the quantified sorts"""
    out, seen = {}, set()
    want = {n for n, srt in sorts.items() if srt.kind() == z3.Z3_UNINTERPRETED_SORT}
    if not want:
        return out

    def walk(e):
        if e.get_id() in seen:
            return
        seen.add(e.get_id())
        if z3.is_quantifier(e):
            walk(e.body())
            return
        if z3.is_const(e) and z3.is_array(e) and e.decl().kind() == z3.Z3_OP_UNINTERPRETED:
            if str(e.sort().range()) in want and e.sort().domain() == z3.IntSort():
                out.setdefault(str(e.sort().range()), []).append(e)
        for c in e.children():
            walk(c)
    for e in es:
        walk(e)
    return out


def _trigger_keys(q):
    """for every bound variable of the universal q: the (symbol, argument position) places where it occurs directly as an argument
    of an array read or an uninterpreted function whose other context is ground -- the places an E-matcher would look at"""
    nv = q.num_vars()
    keys = {k: set() for k in range(nv)}

    def ground(e, depth=0):
        if z3.is_var(e):
            return False
        if z3.is_quantifier(e):
            return False
        return all(ground(c) for c in e.children())

    def walk(e):
        if z3.is_quantifier(e) or z3.is_var(e):
            return
        if z3.is_app(e):
            kd = e.decl().kind()
            ch = e.children()
            if kd == z3.Z3_OP_SELECT and ground(ch[0]):
                for pos, c in enumerate(ch[1:], 1):
                    if z3.is_var(c):
                        keys[nv - 1 - z3.get_var_index(c)].add(('sel', ch[0].get_id(), pos))
            elif kd == z3.Z3_OP_UNINTERPRETED and ch:
                for pos, c in enumerate(ch):
                    if z3.is_var(c):
                        keys[nv - 1 - z3.get_var_index(c)].add(('fn', e.decl().name(), pos))
            for c in ch:
                walk(c)
    walk(q.body())
    return keys


def _occurrences(es):
    """ground argument terms by (symbol, position), from ground formulas"""
    occ, seen = {}, set()

    def ground(e):
        if z3.is_var(e) or z3.is_quantifier(e):
            return False
        return all(ground(c) for c in e.children())

    def walk(e):
        if e.get_id() in seen or z3.is_quantifier(e) or z3.is_var(e):
            return
        seen.add(e.get_id())
        if z3.is_app(e):
            kd = e.decl().kind()
            ch = e.children()
            if kd == z3.Z3_OP_SELECT:
                for pos, c in enumerate(ch[1:], 1):
                    if ground(c) and ground(ch[0]):
                        occ.setdefault(('sel', ch[0].get_id(), pos), []).append(c)
            elif kd == z3.Z3_OP_UNINTERPRETED and ch:
                for pos, c in enumerate(ch):
                    if ground(c):
                        occ.setdefault(('fn', e.decl().name(), pos), []).append(c)
            for c in ch:
                walk(c)
    for e in es:
        walk(e)
    return occ


def _consts(es):
    out, seen = {}, set()
    stack = list(es)
    while stack:
        x = stack.pop()
        if x.get_id() in seen:
            continue
        seen.add(x.get_id())
        if z3.is_quantifier(x):
            stack.append(x.body())
            continue
        if z3.is_const(x) and x.decl().kind() == z3.Z3_OP_UNINTERPRETED:
            out[str(x)] = x
        stack.extend(x.children())
    return out


def _const_names(es):
    return set(_consts(es))


class _Preempted(Exception):
    pass


def instantiate(hyps, goal, rounds=1, max_terms=12, extra=(), triggers=False, stop=None, focus=False):
    g, sk = skolemize(goal)
    pre = _snf(list(hyps) + [z3.Not(g)])
    qf, qs = _split_hyps(pre)
    facts = list(qf)
    hsk = []
    if not sk:
        # an existential goal has no skolem constants of its own to start from: its witnesses are usually built from the skolem
        # constants of existential *hypotheses* (e.g. a callee's raise condition) - constants that appear only after the normal form
        before_ = _const_names(list(hyps) + [g])
        hsk = [c_ for n_, c_ in _consts(qf).items() if n_ not in before_ and z3.is_int(c_)]
    if len(qs) <= 12 and not triggers:
        max_terms = max(max_terms, 26)       # small (local) proofs: saturate generously
    # index candidates next to the goal's skolem constants (array-property-fragment index set: t, t+1, t-1)
    offs = []
    for c in sk:
        if z3.is_int(c):
            offs += [c + 1, c - 1]
    # integer literals occurring in the goal are index candidates too (e.g. the fixed row 0 / 1 of a 2-row array)
    goal_numerals, seen_num = [z3.IntVal(0)], {0}

    def lits(e_):
        if z3.is_int_value(e_):
            v_ = e_.as_long()
            if v_ not in seen_num and abs(v_) <= 8 and len(goal_numerals) < 6:
                seen_num.add(v_)
                goal_numerals.append(e_)
        elif z3.is_quantifier(e_):
            lits(e_.body())
        else:
            for c_ in e_.children():
                lits(c_)
    lits(g)
    inst_qf = []
    seen_q = {q.get_id() for q in qs}
    done = set()
    for r in range(rounds):
        sorts = {}
        for q in qs:
            for k in range(q.num_vars()):
                sorts[str(q.var_sort(k))] = q.var_sort(k)
        goal_first = [z3.Not(g)]
        arrs = _frame_arrays(facts + qs, sorts)
        # an existential goal has no skolem constants of its own to start from: its witnesses are usually built from the most recent
        # path facts (e.g. the skolem of a callee's raise condition), so those are harvested first
        if not sk and hsk:
            lim_ = max_terms + 6 * r
            terms = _ground_terms(goal_first + inst_qf[::-1] + facts[::-1], list(sorts.values()), 400)
            hids_ = {c_.get_id() for c_ in hsk}

            def mentions(t_):
                stack, seen_ = [t_], set()
                while stack:
                    x_ = stack.pop()
                    if x_.get_id() in hids_:
                        return 0
                    if x_.get_id() in seen_:
                        continue
                    seen_.add(x_.get_id())
                    stack.extend(x_.children())
                return 1
            for sn_ in list(terms):
                terms[sn_] = sorted(terms[sn_], key=lambda t_: (mentions(t_), len(t_.sexpr())))[:lim_]       # witnesses built from the hypotheses' skolems first
        else:
            terms = _ground_terms(goal_first + facts + inst_qf, list(sorts.values()), max_terms + 6 * r)
            if r >= 1 and sk and not triggers:
                # later rounds: compound terms that the previous round built from the goal's own skolem constants (e.g. the flat position
                # p*K + q of a pair) come first - they are what the remaining universal hypotheses have to be read at
                skids_ = {c_.get_id() for c_ in sk}

                def from_goal(t_):
                    # how many of the goal's skolem constants the term is built from
                    stack, seen_, found_ = [t_], set(), set()
                    while stack:
                        x_ = stack.pop()
                        if x_.get_id() in seen_:
                            continue
                        seen_.add(x_.get_id())
                        if x_.get_id() in skids_:
                            found_.add(x_.get_id())
                        stack.extend(x_.children())
                    return len(found_)
                late_ = _ground_terms(inst_qf[::-1], list(sorts.values()), 5000)
                for sn_, ts_ in late_.items():
                    have_ = {t_.get_id() for t_ in terms.get(sn_, [])}
                    sc_ = {t_.get_id(): from_goal(t_) for t_ in ts_}
                    add_ = sorted([t_ for t_ in ts_ if t_.get_id() not in have_ and sc_[t_.get_id()]], key=lambda t_: (-sc_[t_.get_id()], len(t_.sexpr())))[:8]
                    terms[sn_] = add_ + terms.get(sn_, [])
        for e in list(extra) + offs:
            sn = str(e.sort())
            if sn in terms and all(not z3.eq(e, t) for t in terms[sn]):
                terms[sn].append(e)
        if 'Int' in terms:
            terms['Int'] = terms['Int'] + goal_numerals
        if focus and sk:
            # focused mode: only terms built from the goal's own skolem constants (plus the goal's numerals) - a small ground query
            # that is tried before the broad one
            skf_ = {c_.get_id() for c_ in sk}

            def built_from_goal(t_):
                stack, seen_ = [t_], set()
                while stack:
                    x_ = stack.pop()
                    if x_.get_id() in skf_:
                        return True
                    if x_.get_id() in seen_:
                        continue
                    seen_.add(x_.get_id())
                    stack.extend(x_.children())
                return False
            for sn_ in list(terms):
                keep_ = [t_ for t_ in terms[sn_] if built_from_goal(t_)][:10]
                if keep_:
                    terms[sn_] = keep_ + ([t_ for t_ in goal_numerals[:2]] if sn_ == 'Int' else [])
        for sn, alist in arrs.items():
            for a in alist:
                for t in terms.get('Int', [])[:max_terms]:
                    e = a[t]
                    if all(not z3.eq(e, x) for x in terms.setdefault(sn, [])) and len(terms[sn]) < max_terms + 6:
                        terms[sn].append(e)
        new = []
        occ = _occurrences(goal_first + facts + inst_qf) if triggers else None
        for q in list(qs):
            if stop is not None and stop():
                raise _Preempted()         # the fresh-process query racing this instantiation has answered
            cands = [terms.get(str(q.var_sort(k)), []) for k in range(q.num_vars())]
            if triggers:
                # trigger-directed candidates first: ground terms standing where the bound variable stands in the quantifier body
                tk = _trigger_keys(q)
                for k in range(q.num_vars()):
                    pri, ids = [], set()
                    for key in tk[k]:
                        for t in occ.get(key, []):
                            if t.get_id() not in ids and t.sort() == q.var_sort(k):
                                ids.add(t.get_id())
                                pri.append(t)
                    if len(pri) > 24 and sk:
                        # many occurrences: those built from the goal's own skolem constants first
                        skids = {c_.get_id() for c_ in sk}
                        def score(t_):
                            found, stack, seen_ = set(), [t_], set()
                            while stack:
                                x_ = stack.pop()
                                if x_.get_id() in seen_:
                                    continue
                                seen_.add(x_.get_id())
                                if x_.get_id() in skids:
                                    found.add(x_.get_id())
                                stack.extend(x_.children())
                            return (-len(found), len(seen_))
                        pri.sort(key=score)
                    gen_ = [t for t in cands[k] if t.get_id() not in ids]
                    if sk:
                        skids_ = {c_.get_id() for c_ in sk}
                        gen_.sort(key=lambda t_: 0 if t_.get_id() in skids_ else 1)       # the goal's own skolem constants before other generic terms
                    cands[k] = pri[:24] + gen_[:max(6, max_terms - len(pri[:24]))]
            total = 1
            for c in cands:
                total *= max(1, len(c))
            if total > 4000:
                cands = [c[:max(2, int(4000 ** (1.0 / len(cands))))] for c in cands]
            for tup in itertools.product(*cands):
                key = (q.get_id(),) + tuple(t.get_id() for t in tup)
                if key in done:
                    continue
                done.add(key)
                new.append(z3.substitute_vars(q.body(), *reversed(tup)))
        # instances may themselves be (nested) universals: split them again
        nqf, nqs = _split_hyps(new)
        inst_qf += nqf
        for q in nqs:
            if q.get_id() not in seen_q:
                seen_q.add(q.get_id())
                qs.append(q)
    return facts + inst_qf


_NLMUL = {}


def _rebuild(e, ch):
    try:
        return e.decl()(*ch)
    except z3.Z3Exception:
        return e            # parametric / special declarations: keep the original sub-term (no abstraction inside it)


def abstract_nl(formulas):
    """replace products of two or more non-numeral factors by an uninterpreted function (sound for `unsat`:
    the abstraction only forgets arithmetic facts); makes instantiated queries linear"""
    cache = {}

    def nlmul(sort):
        k = sort.name()
        if k not in _NLMUL:
            _NLMUL[k] = z3.Function('nlmul_' + k, sort, sort, sort)
        return _NLMUL[k]

    def rec(e):
        i = e.get_id()
        if i in cache:
            return cache[i]
        if z3.is_quantifier(e):
            vs = [z3.Const('%s' % e.var_name(k), e.var_sort(k)) for k in range(e.num_vars())]
            body = rec(z3.substitute_vars(e.body(), *reversed(vs)))
            r = (z3.ForAll(vs, body) if e.is_forall() else z3.Exists(vs, body)) if not e.is_lambda() else z3.Lambda(vs, body)
        elif z3.is_app(e) and e.num_args() > 0:
            ch = [rec(c) for c in e.children()]
            if z3.is_mul(e):
                nonnum = [c for c in ch if not (z3.is_int_value(c) or z3.is_rational_value(c))]
                if len(nonnum) >= 2:
                    num = [c for c in ch if z3.is_int_value(c) or z3.is_rational_value(c)]
                    acc = nonnum[0]
                    for c in nonnum[1:]:
                        a, b = (acc, c) if str(acc) <= str(c) else (c, acc)      # commutative: canonical argument order
                        acc = nlmul(e.sort())(a, b)
                    for c in num:
                        acc = c * acc
                    r = acc
                else:
                    r = _rebuild(e, ch)
            else:
                r = _rebuild(e, ch)
        else:
            r = e
        cache[i] = r
        return r
    try:
        return [rec(f) for f in formulas]
    except z3.Z3Exception:
        return list(formulas)


def _check(assertions, timeout_ms, tactic=None):
    s = z3.Solver() if tactic is None else z3.Then(*tactic).solver() if isinstance(tactic, (list, tuple)) else z3.Tactic(tactic).solver()
    s.set('timeout', int(timeout_ms))
    s.add(assertions)
    r = s.check()
    return str(r), s


def _check_racing(assertions, timeout_ms, bg):
    """_check, but given up as soon as the fresh-process query `bg` has answered (z3's interrupt is the documented way to stop a
    running check from another thread; the ctypes call releases the interpreter lock)"""
    if bg is None:
        return _check(assertions, timeout_ms)
    import threading
    stop = threading.Event()

    def watch():
        while not stop.is_set():
            if bg.answered():
                try:
                    z3.main_ctx().interrupt()
                except Exception:
                    pass
                return
            stop.wait(0.1)
    th = threading.Thread(target=watch, daemon=True)
    th.start()
    try:
        try:
            return _check(assertions, timeout_ms)
        except z3.Z3Exception:
            return 'unknown', None
    finally:
        stop.set()
        th.join(timeout=1)


class _CliJob:
    """a fresh solver process on the SMT-LIB text of a query, started in the background (so that the in-process
    instantiation and the fresh process race instead of queueing: whichever decides first wins)"""
    def __init__(self, assertions, timeout_s, binary='z3-new'):
        import tempfile, subprocess
        sv = z3.Solver()
        sv.add(assertions)
        fd, self.path = tempfile.mkstemp(suffix='.smt2', prefix='pyvc_')
        with os.fdopen(fd, 'w') as f:
            f.write(sv.to_smt2())
        self.t0 = time.time()
        self.timeout_s = timeout_s
        try:
            self.p = subprocess.Popen([binary, '-T:%d' % max(1, int(timeout_s)), self.path], stdout=subprocess.PIPE, stderr=subprocess.DEVNULL, text=True)
        except OSError:
            self.p = None

    def result(self, wait_s):
        """'unsat' / 'sat' / 'unknown'; waits at most wait_s more seconds"""
        import subprocess
        if getattr(self, 'outcome', None) is not None:
            return self.outcome
        if self.p is None:
            self.outcome = 'unknown'
            return self.outcome
        try:
            out, _ = self.p.communicate(timeout=max(0.05, wait_s))
        except subprocess.TimeoutExpired:
            self.kill()
            self.outcome = 'unknown'
            return self.outcome
        self.kill()
        first = ((out or '').strip().splitlines() or ['unknown'])[0].strip()
        self.outcome = first if first in ('unsat', 'sat') else 'unknown'
        return self.outcome

    def answered(self):
        """finished with a definite answer (a finished process that timed out is no reason to stop the in-process work)"""
        return self.done() and self.result(0.2) in ('unsat', 'sat')

    def done(self):
        return self.p is None or self.p.poll() is not None

    def kill(self):
        if self.p is not None and self.p.poll() is None:
            try:
                self.p.kill()
                self.p.wait(timeout=2)
            except Exception:
                pass
        try:
            os.unlink(self.path)
        except OSError:
            pass


def _cli_check(assertions, timeout_s, binary='z3-new'):
    """the same query, serialised to SMT-LIB text and decided by a fresh solver process.  z3's answer on quantified queries
    depends on the term numbering of the process that built them (history of earlier units); a fresh process does not."""
    import tempfile, subprocess
    sv = z3.Solver()
    sv.add(assertions)
    txt = sv.to_smt2()
    fd, path = tempfile.mkstemp(suffix='.smt2', prefix='pyvc_')
    try:
        with os.fdopen(fd, 'w') as f:
            f.write(txt)
        try:
            p = subprocess.run([binary, '-T:%d' % max(1, int(timeout_s)), path], capture_output=True, text=True, timeout=timeout_s + 3)
        except (subprocess.TimeoutExpired, OSError):
            return 'unknown'
        first = (p.stdout.strip().splitlines() or ['unknown'])[0].strip()
        return first if first in ('unsat', 'sat') else 'unknown'
    finally:
        try:
            os.unlink(path)
        except OSError:
            pass


def _model_values(s, want):
    m = s.model()
    out = {}
    for name, spec in want.items():
        try:
            out[name] = spec(m)
        except Exception as ex:      # model extraction is best effort
            out[name] = 'ERR %s' % ex
    return out


DEFAULT_STRATEGIES = tuple(os.environ.get('VERIF_STRATEGIES', 'z3quick,inst,cli,finst2,inst2,tinst,z3').split(','))


def decide(axioms, vc, budget_s, pins=None, want=None, strategies=None, seed=0):
    """runs inside the worker"""
    if strategies is None and getattr(vc, 'local', False):
        # local proofs have few hypotheses: the trigger-directed instantiation is cheap there and is what they usually need
        strategies = ('z3quick', 'tinst', 'inst', 'cli', 'z3', 'inst2')
    if strategies is None and z3.is_quantifier(vc.goal) and vc.goal.is_exists():
        # an existential goal (e.g. "the exception is raised only if some element is out of range"): its witness is usually two
        # instantiation rounds away from the skolem constant of an existential hypothesis
        strategies = ('z3quick', 'inst2', 'cli', 'tinst', 'z3', 'inst3')
    strategies = strategies or DEFAULT_STRATEGIES
    t0 = time.time()
    if seed:
        try:
            z3.set_param('smt.random_seed', int(seed))
            z3.set_param('sat.random_seed', int(seed))
        except z3.Z3Exception:
            pass
    hyps = list(axioms) + list(vc.hyps)
    res = {'status': 'unknown', 'by': None, 'tried': []}
    reserve = 0.25 * budget_s if pins else 0.0
    bg, bg_used, cli_answered = None, False, False          # fresh-process query racing the in-process instantiation
    for si, strat in enumerate(strategies):
        left = budget_s - reserve - (time.time() - t0)
        if left < 0.3 and not (bg is not None and strat == 'cli'):
            break
        try:
            if strat in ('inst', 'inst2', 'finst2', 'tinst') and bg is None and not bg_used and 'cli' in strategies[si + 1:] and left > 3:
                bg_used = True
                try:
                    bg = _CliJob(hyps + [z3.Not(vc.goal)], max(5.0, min(left * 0.8, 15.0)))
                except Exception:
                    bg = None
            if strat in ('inst', 'inst2', 'inst3', 'tinst', 'finst2'):
                rounds, mt = {'inst': (1, 10), 'inst2': (2, 12), 'inst3': (3, 10), 'tinst': (3, 8), 'finst2': (2, 12)}[strat]
                try:
                    facts = instantiate(hyps, vc.goal, rounds=rounds, max_terms=mt, extra=vc.hints, triggers=(strat == 'tinst'),
                                        stop=(bg.answered if bg is not None else None), focus=(strat == 'finst2'))
                except _Preempted:
                    facts = None
                if bg is not None and bg.done():
                    rb = bg.result(0.2)
                    bg = None
                    res['tried'].append(('cli', rb, round(time.time() - t0, 3)))
                    if rb == 'unsat':
                        res.update(status='unsat', by='z3-cli')
                        break
                    cli_answered = True      # already answered: unknown
                if facts is None:
                    facts = instantiate(hyps, vc.goal, rounds=rounds, max_terms=mt, extra=vc.hints, triggers=(strat == 'tinst'), focus=(strat == 'finst2'))
                r, s = _check_racing(facts, min(left * 0.25, 6.0) * 1000 if strat in ('inst', 'tinst', 'finst2') else left * 1000 * 0.6, bg)
                if r != 'unsat' and not (bg is not None and bg.answered()) and any('*' in f.sexpr() for f in facts[:400]):
                    r2, s2 = _check_racing(abstract_nl(facts), left * 1000 * 0.25, bg)      # same instances with products made opaque
                    if r2 == 'unsat':
                        r, s = r2, s2
                res['tried'].append((strat, r, round(time.time() - t0, 3)))
                if r == 'unsat':
                    res.update(status='unsat', by=strat)
                    break
                if bg is not None and bg.done():
                    rb = bg.result(0.2)
                    bg = None
                    res['tried'].append(('cli', rb, round(time.time() - t0, 3)))
                    if rb == 'unsat':
                        res.update(status='unsat', by='z3-cli')
                        break
                    cli_answered = True
            elif strat == 'cli' and cli_answered and bg is None:
                continue
            elif strat in ('cli', 'cli-old'):
                if strat == 'cli' and bg is not None:
                    # started before the instantiation stage
                    later_ = [x for x in strategies[si + 1:] if x in ('inst', 'inst2', 'inst3', 'tinst', 'finst2')]
                    if later_ and not bg.done() and left > 2:
                        # more in-process instantiation stages follow: let the process go on racing them (it is polled by those
                        # stages and collected after the last one) instead of waiting here
                        time.sleep(min(1.0, left * 0.1))
                        if not bg.done():
                            continue
                    r = bg.result(max(2.0, min(bg.timeout_s - (time.time() - bg.t0), max(left, 0) * 0.6)))
                    bg = None
                else:
                    r = _cli_check(hyps + [z3.Not(vc.goal)], max(5.0, min(left * 0.6, 15.0)), 'z3-new' if strat == 'cli' else '/usr/bin/z3')
                res['tried'].append((strat, r, round(time.time() - t0, 3)))
                if r == 'unsat':
                    res.update(status='unsat', by='z3-cli' if strat == 'cli' else 'z3-4.8-cli')
                    break
            elif strat in ('z3', 'z3quick'):
                r, s = _check(hyps + [z3.Not(vc.goal)], min(left * 0.25, 3.0) * 1000 if strat == 'z3quick' else left * 1000 * 0.5)
                res['tried'].append((strat, r, round(time.time() - t0, 3)))
                if r == 'unsat':
                    res.update(status='unsat', by='z3')
                    break
                if r == 'sat':
                    res.update(status='sat', by='z3')
                    if want:
                        res['model'] = _model_values(s, want)
                    break
        except z3.Z3Exception as ex:
            res['tried'].append((strat, 'error: %s' % ex, round(time.time() - t0, 3)))
    if bg is not None:
        if res['status'] == 'unknown':
            # the racing process is still running and nothing else decided: collect it with what is left of the budget
            left = budget_s - reserve - (time.time() - t0)
            rb = bg.result(max(0.5, min(bg.timeout_s - (time.time() - bg.t0), left)))
            res['tried'].append(('cli', rb, round(time.time() - t0, 3)))
            if rb == 'unsat':
                res.update(status='unsat', by='z3-cli')
        bg.kill()
    if res['status'] != 'unsat' and pins:
        # definite refutation with pinned sizes
        for pin in pins:
            left = budget_s - (time.time() - t0)
            if left < 0.3:
                break
            try:
                r, s = _check(hyps + [z3.Not(vc.goal)] + list(pin), min(left, 5) * 1000)
            except z3.Z3Exception as ex:
                continue
            res['tried'].append(('pin', r, round(time.time() - t0, 3)))
            if r == 'unknown':
                # candidate model without the quantified axioms over arrays/frames (replay on the real code is the arbiter)
                light = [h for h in hyps if not (z3.is_quantifier(h) and any(h.var_sort(k).kind() in (z3.Z3_ARRAY_SORT,) for k in range(h.num_vars())))]
                try:
                    r2, s2 = _check(light + [z3.Not(vc.goal)] + list(pin), min(max(budget_s - (time.time() - t0), 0.5), 5) * 1000)
                except z3.Z3Exception:
                    r2 = 'unknown'
                res['tried'].append(('pin-light', r2, round(time.time() - t0, 3)))
                if r2 == 'sat':
                    r, s = r2, s2
                    res['candidate_only'] = True
            if r == 'sat':
                res.update(status='sat', by='pinned')
                res['pin'] = [str(p) for p in pin]
                if want:
                    res['model'] = _model_values(s, want)
                break
    res['secs'] = round(time.time() - t0, 3)
    return res


class Job:
    def __init__(self, key, fn):
        self.key, self.fn = key, fn


def run_pool(jobs, nproc=16, hard_timeout=30):
    """jobs: list of (key, thunk) where thunk() -> JSON-able result; forked workers, hard kill"""
    results = {}
    pending = list(jobs)
    running = {}   # fd -> (pid, key, t0, buf)
    nproc = max(1, nproc)
    while pending or running:
        while pending and len(running) < nproc:
            key, fn = pending.pop(0)
            r, w = os.pipe()
            pid = os.fork()
            if pid == 0:
                os.close(r)
                try:
                    try:
                        out = fn()
                    except BaseException as ex:
                        out = {'status': 'error', 'error': ''.join(traceback.format_exception_only(type(ex), ex)).strip()}
                    data = json.dumps(out, default=str).encode()
                    os.write(w, data)
                finally:
                    os._exit(0)
            os.close(w)
            running[r] = [pid, key, time.time(), b'']
        if not running:
            break
        rl, _, _ = select.select(list(running), [], [], 0.05)
        for fd in rl:
            chunk = os.read(fd, 1 << 16)
            if chunk:
                running[fd][3] += chunk
            else:
                pid, key, t0, buf = running.pop(fd)
                os.close(fd)
                try:
                    os.waitpid(pid, 0)
                except ChildProcessError:
                    pass
                try:
                    results[key] = json.loads(buf.decode()) if buf else {'status': 'error', 'error': 'worker died'}
                except Exception:
                    results[key] = {'status': 'error', 'error': 'bad worker output'}
                results[key]['wall'] = round(time.time() - t0, 3)
        now = time.time()
        for fd in list(running):
            pid, key, t0, buf = running[fd]
            if now - t0 > hard_timeout:
                try:
                    os.kill(pid, signal.SIGKILL)
                    os.waitpid(pid, 0)
                except Exception:
                    pass
                os.close(fd)
                running.pop(fd)
                results[key] = {'status': 'timeout', 'wall': round(now - t0, 3), 'tried': [('hard-kill', 'timeout', round(now - t0, 3))]}
    return results


def discharge(vcs, axioms, budget_s=10, nproc=16, pins=None, want=None, retry_factor=4):
    """pass 1: every VC with the normal budget; pass 2: the undecided ones again with retry_factor x budget
    (exact query first), so that slow-but-provable obligations do not flip under load"""
    jobs = []
    for k, vc in enumerate(vcs):
        jobs.append((k, (lambda vc=vc: decide(axioms, vc, budget_s, pins, want))))
    res = run_pool(jobs, nproc=nproc, hard_timeout=budget_s * 1.5 + 5)
    out = [res[k] for k in range(len(vcs))]
    again = [k for k, r in enumerate(out) if r.get('status') not in ('unsat', 'sat')]
    if any(r.get('status') == 'sat' for r in out):
        again = []          # something is already definitely refuted: the verdict does not hinge on the slow ones
    if len(again) > 8:
        # widespread failure (changed code / broken contract): retry only a few, the verdict will not hinge on them
        again = again[:8]
        retry_factor = min(retry_factor, 3)
    if again and retry_factor > 1:
        # portfolio: z3's behaviour on quantified queries varies with its random seed (and it can ignore its own time-out),
        # so each undecided VC is retried by several workers with different seeds / strategy orders; any `unsat` discharges it
        b2 = budget_s * retry_factor
        port = [(1, ('cli', 'inst', 'z3')), (2, ('cli-old', 'z3', 'inst2')), (3, ('inst2', 'z3')), (4, ('z3quick', 'inst3', 'z3')), (5, ('z3', 'inst'))]
        jobs = [((k, sd), (lambda vc=vcs[k], sd=sd, stg=stg: decide(axioms, vc, b2 / 2, pins, want, strategies=stg, seed=sd))) for k in again for sd, stg in port]
        resp = run_pool(jobs, nproc=nproc, hard_timeout=b2 / 2 * 1.3 + 5)
        res2 = {}
        for k in again:
            cands = [resp[(k, sd)] for sd, _ in port]
            best = [c for c in cands if c.get('status') == 'unsat'] or [c for c in cands if c.get('status') == 'sat'] or cands
            res2[k] = dict(best[0])
            res2[k]['portfolio'] = [c.get('status') for c in cands]
        for k in again:
            r2 = res2[k]
            r2['tried'] = (out[k].get('tried') or []) + [('retry', 'x%d budget' % retry_factor, 0)] + (r2.get('tried') or [])
            r2['secs'] = round((out[k].get('secs') or out[k].get('wall') or 0) + (r2.get('secs') or r2.get('wall') or 0), 3)
            out[k] = r2
    return out


def second_opinion(vcs, axioms, budget_s=6, nproc=16, binary='/usr/bin/z3'):
    """every discharged obligation once more by an independent solver build (z3 4.8.12 from its SMT-LIB text):
    `unsat` = agrees, `unknown` = no opinion, `sat` = the two builds disagree (checker fault)"""
    def job(vc):
        try:
            return {'status': _cli_check(list(axioms) + list(vc.hyps) + [z3.Not(vc.goal)], budget_s, binary)}
        except Exception as ex:      # serialisation problems are `no opinion`
            return {'status': 'unknown', 'error': str(ex)[:100]}
    res = run_pool([(k, (lambda vc=vc: job(vc))) for k, vc in enumerate(vcs)], nproc=nproc, hard_timeout=budget_s * 2 + 6)
    return [res[k].get('status', 'unknown') for k in range(len(vcs))]


def cover(vcs, axioms, pins, budget_s=5, nproc=16):
    """reachability / non-vacuity: are the hypotheses of these VCs satisfiable (with pinned sizes)?
    sat (also without the array-quantified axioms, which only restrict further ghost functions) > unknown > unsat"""
    def light(hs):
        return [h for h in hs if not (z3.is_quantifier(h) and any(h.var_sort(k).kind() == z3.Z3_ARRAY_SORT for k in range(h.num_vars())))]

    def job(vc):
        hyps_all = list(axioms) + list(vc.hyps)
        quantified = any(z3.is_quantifier(h) for h in hyps_all)
        if quantified:
            # bounded-quantifier route first: with the sizes pinned, the index-set instances of the quantified hypotheses form a
            # ground formula; its satisfiability (a concrete state of that size satisfying every instance) is the evidence.
            # (cheap, and the only route that answers when the hypotheses carry ghost functions with recursive axioms)
            for pin in (pins or [[]])[:2]:
                try:
                    facts = instantiate(hyps_all + list(pin), z3.BoolVal(False), rounds=1, max_terms=8)
                    r, s = _check(facts, 2500)
                except z3.Z3Exception:
                    r = 'unknown'
                if r == 'sat':
                    return {'status': 'sat'}
        seen_unknown, seen_unsat = False, False
        for pin in (pins or [[]])[:3]:
            per = min(budget_s * 1000 / max(1, len(pins or [1])), 1200)
            for hyps in (hyps_all, light(hyps_all)):
                try:
                    r, s = _check(hyps + list(pin), per)
                except z3.Z3Exception:
                    r = 'unknown'
                if r == 'sat':
                    return {'status': 'sat'}
                if r == 'unsat':
                    seen_unsat = True
                    break
                seen_unknown = True
        if seen_unknown:
            return {'status': 'unknown'}
        return {'status': 'unsat-pinned' if pins else 'unsat'}
    res = run_pool([(k, (lambda vc=vc: job(vc))) for k, vc in enumerate(vcs)], nproc=nproc, hard_timeout=budget_s * 2 + 5)
    return [res[k].get('status') for k in range(len(vcs))]
