"""Conformance of the symbolic semantics with the real interpreter (guards the executor and the assumed NumPy primitive
contracts): a recorded real execution (arguments, result or exception) of a function under contract must be a model of the
path condition of at least one symbolic exit path of that function.  If every exit path contradicts the recorded execution,
the executor (or a primitive contract) misrepresents the code: checker fault, never a property verdict.

Only consequences are used for a contradiction (ground instances of the quantified path facts over the pinned sizes), so
`excluded` is definite; `consistent` means no contradiction was found among those instances."""
try:                      # the recorder side (enc) runs under /venv python without z3
    import z3
    from .logic import Arr
except ImportError:
    z3 = None

MAX_CELLS = 40


class Skip(Exception):
    pass


def enc(x, depth=0):
    """JSON encoding of real arguments / results (runs under /venv python with numpy)"""
    import numpy as np
    if x is None or isinstance(x, (bool, str)):
        return x
    if isinstance(x, (int, np.integer)):
        return int(x)
    if isinstance(x, (float, np.floating)):
        x = float(x)
        return x if x == x and abs(x) != float('inf') else {'float': repr(x)}
    if isinstance(x, np.bool_):
        return bool(x)
    if isinstance(x, slice):
        return {'slice': [enc(x.start), enc(x.stop), enc(x.step)]}
    if isinstance(x, range):
        return {'range': [x.start, x.stop, x.step]}
    if isinstance(x, np.ndarray):
        if x.dtype == object or x.size > MAX_CELLS:
            return {'opaque': 'ndarray%s' % (x.shape,)}
        return {'nd': x.tolist(), 'shape': list(x.shape), 'kind': x.dtype.kind}
    if isinstance(x, tuple):
        return {'tuple': [enc(v, depth + 1) for v in x]}
    if isinstance(x, list):
        if len(x) > MAX_CELLS:
            return {'opaque': 'list[%d]' % len(x)}
        return {'list': [enc(v, depth + 1) for v in x]}
    return {'opaque': type(x).__name__}


def _num(v, like):
    if z3.is_bool(like):
        return z3.BoolVal(bool(v))
    if z3.is_int(like):
        if isinstance(v, float) and v != int(v):
            raise Skip('float for int')
        return z3.IntVal(int(v))
    if isinstance(v, dict):
        raise Skip('non-finite float')
    return z3.RealVal(repr(float(v)))


def pin(sym, conc, is_result=False):
    """constraints stating that the symbolic value equals the recorded one"""
    from .engine import Slice, Opaque, NoneV
    if isinstance(conc, dict) and 'opaque' in conc:
        raise Skip(conc['opaque'])
    if sym is None or isinstance(sym, NoneV):
        return [z3.BoolVal(conc is None)]
    if isinstance(sym, bool):
        return [z3.BoolVal(conc is sym or conc == sym)]
    if isinstance(sym, (int, float)):
        return [z3.BoolVal(not isinstance(conc, dict) and conc is not None and float(conc) == float(sym))]
    if isinstance(sym, Slice):
        if not (isinstance(conc, dict) and 'slice' in conc):
            return [z3.BoolVal(False)]
        out = []
        for s, c in zip((sym.lo, sym.hi, sym.step), conc['slice']):
            if (s is None) != (c is None):
                return [z3.BoolVal(False)]
            if s is not None:
                out += pin(s, c)
        return out
    if isinstance(sym, tuple):
        if sym and isinstance(sym[0], Opaque) and sym[0].tag == 'range':
            if not (isinstance(conc, dict) and 'range' in conc):
                return [z3.BoolVal(False)]
            parts = list(sym[1:])
            want = conc['range']
            if len(parts) == 1:
                return [z3.BoolVal(want[0] == 0 and want[2] == 1), parts[0] == want[1]]
            if len(parts) == 2:
                return [z3.BoolVal(want[2] == 1), parts[0] == want[0], parts[1] == want[1]]
            return [p == w for p, w in zip(parts, want)]
        items = conc.get('tuple', conc.get('list')) if isinstance(conc, dict) else None
        if items is None and isinstance(conc, dict) and 'nd' in conc and len(conc['shape']) == 1:
            items = conc['nd']
        if items is None or len(items) != len(sym):
            return [z3.BoolVal(False)]
        out = []
        for s, c in zip(sym, items):
            out += pin(s, c, is_result)
        return out
    if isinstance(sym, Arr):
        if isinstance(sym.term, tuple):
            items = conc.get('list', conc.get('tuple')) if isinstance(conc, dict) else None
            if items is None:
                return [z3.BoolVal(False)]
            out = [sym.shape[0] == len(items)]
            if sym.kind == 'tuple':
                for k, it in enumerate(items):
                    vals = it.get('tuple', it.get('list')) if isinstance(it, dict) else None
                    if vals is None or len(vals) != len(sym.term):
                        return [z3.BoolVal(False)]
                    for col, v in zip(sym.term, vals):
                        cell = z3.Select(col, k)
                        out.append(cell == _num(v, cell))
                return out
            if sym.kind == 'slices':
                base = sym.meta['base']
                lo_c, n_c = sym.term
                for k, it in enumerate(items):
                    if not (isinstance(it, dict) and 'nd' in it and len(it['shape']) == 1):
                        raise Skip('piece kind')
                    out.append(z3.Select(n_c, k) == len(it['nd']))
                    for j, v in enumerate(it['nd']):
                        cell = base[z3.Select(lo_c, k) + j]
                        out.append(cell == _num(v, cell))
                return out
            raise Skip('list of records (%s)' % sym.kind)
        if isinstance(conc, dict) and 'nd' in conc:
            data, shape = conc['nd'], conc['shape']
        elif isinstance(conc, dict) and ('list' in conc or 'tuple' in conc):
            data = conc.get('list', conc.get('tuple'))
            if any(isinstance(v, dict) for v in data):
                raise Skip('nested list')
            shape = [len(data)]
        elif isinstance(conc, dict) and 'range' in conc:
            data = list(range(*conc['range'])); shape = [len(data)]
        else:
            return [z3.BoolVal(False)]
        if len(shape) != sym.ndim:
            return [z3.BoolVal(False)]
        out = [z3.IntVal(d) == s for d, s in zip(shape, sym.shape)]
        if sym.kind == 'real' and is_result:
            return out                      # floating-point results are not exact reals: shapes only
        import itertools
        for ix in itertools.product(*[range(d) for d in shape]):
            v = data
            for k in ix:
                v = v[k]
            cell = sym[ix[0]] if sym.ndim == 1 else sym[tuple(ix)]
            out.append(cell == _num(v, cell))
        return out
    if z3.is_expr(sym):
        if isinstance(conc, dict) or conc is None or isinstance(conc, str):
            raise Skip('value kind')
        if z3.is_real(sym) and is_result:
            return []
        return [sym == _num(conc, sym)]
    raise Skip(type(sym).__name__)


def check_sample(exits, fname, sample, axioms=()):
    """-> ('consistent'|'excluded'|'unknown'|'skipped', detail)"""
    from . import solve
    mine = [e for e in exits if e[0] == fname]
    if not mine:
        return 'skipped', 'no exit path recorded'
    raised = sample.get('raised')
    verdicts = []
    # is the recorded call inside this unit's configuration and precondition at all?
    fn0, kind0, pc0, A0, R0, pre0 = mine[0]
    try:
        apins = []
        for name, conc in sample['args'].items():
            if name not in A0:
                raise Skip('argument %s' % name)
            apins += pin(A0[name], conc)
    except Skip as s:
        return 'skipped', str(s)
    apins = [z3.simplify(p) for p in apins]
    if any(z3.is_false(p) for p in apins):
        return 'skipped', 'recorded call belongs to another variant of the contract'
    apins = [p for p in apins if not z3.is_true(p)]
    try:
        facts = solve.instantiate(list(axioms) + list(pre0) + apins, z3.BoolVal(False), rounds=1, max_terms=10)
        r0, _ = solve._check(facts, 3000)
    except z3.Z3Exception:
        r0 = 'unknown'
    if r0 == 'unsat':
        return 'skipped', 'recorded call is outside the precondition of this unit'
    for (fn, kind, pc, A, R, pre) in mine:
        if (kind == 'raise') != (raised is not None):
            continue
        if kind == 'raise' and R != raised:
            continue
        try:
            pins = list(apins)
            if kind == 'return':
                pins += pin(R, sample['result'], is_result=True)
        except Skip as s:
            return 'skipped', str(s)
        pins = [p for p in pins if not z3.is_true(z3.simplify(p))]
        if any(z3.is_false(z3.simplify(p)) for p in pins):
            verdicts.append('unsat')
            continue
        try:
            facts = solve.instantiate(list(axioms) + list(pc) + pins, z3.BoolVal(False), rounds=1, max_terms=10)
            r, s = solve._check(facts, 3000)
        except z3.Z3Exception as ex:
            r = 'unknown'
        verdicts.append(r)
        if r == 'sat':
            return 'consistent', kind
    if not verdicts:
        return 'excluded', 'no symbolic exit path of kind %s' % ('raise ' + str(raised) if raised else 'return')
    if all(v == 'unsat' for v in verdicts):
        return 'excluded', 'every one of %d exit paths contradicts the recorded execution' % len(verdicts)
    return 'unknown', str(verdicts)
