"""Bounded stand-in for C15 on the real ra.save / ra.load / util.load.load_as_concatenated (NOT counted as proved).
Scope: ragged arrays with 1..150 rows (1-D and 2-D elements, int16/int32/int64/float32/float64) and rectangular arrays saved through PyTables and
loaded back with strides 1..3, key subsets, compression 0/1/9; key-name order for every row count <= 20000 (exhaustive, arithmetic only);
synthetic mdtraj trajectories written to disk and bulk-loaded with 1, 2, 4 worker processes, strides, atom selections, explicit lengths."""
import sys, os, random, tempfile, shutil, itertools
from pyvc import bounded
from pyvc.spec import Contract
import numpy as np
from enspara import ra
from enspara.util import load as UL

TMP = tempfile.mkdtemp(prefix='c15_')
EXCL = set(sum([a.split('=')[1].split(',') for a in sys.argv if a.startswith('--exclude=')], []))


def rows_of(x):
    if isinstance(x, ra.RaggedArray):
        return [np.asarray(r) for r in x]
    return [np.asarray(r) for r in x]


class RoundTrip(Contract):
    key = 'enspara/ra/ra.py::save+load'

    def requires(self, L, A, G):
        arr, stride = A['array'], A.get('stride', 1)
        ok = True
        if 'ra-multidim-elements-equal-lengths' in EXCL and isinstance(arr, ra.RaggedArray) and arr._data.ndim > 1:
            ls = [-(-int(l) // stride) for l in arr.lengths]
            ok = len(set(ls)) > 1          # listed finding: multi-dimensional elements with all (strided) row lengths equal
        return [('outside-known-finding-classes', ok)]

    def ensures(self, L, A, N, R, G, V):
        arr, stride, keys = A['array'], A.get('stride', 1), A.get('keys')
        rows = rows_of(arr) if isinstance(arr, ra.RaggedArray) else [np.asarray(arr)]
        if keys is not None:
            rows = [rows[k] for k in keys]
        want = [r[::stride] for r in rows]
        got = rows_of(R) if isinstance(R, ra.RaggedArray) else ([np.asarray(R)] if len(want) == 1 else [np.asarray(r) for r in R])
        same_vals = len(got) == len(want) and all(g.shape == w.shape and np.array_equal(g, w) for g, w in zip(got, want))
        dt = (arr._data.dtype if isinstance(arr, ra.RaggedArray) else np.asarray(arr).dtype)
        return [('same-values-row-order-and-lengths', same_vals), ('same-element-type', all(g.dtype == dt for g in got))]


def save_load(array, stride=1, keys=None, compression=1):
    p = os.path.join(TMP, 'a_%d.h5' % random.randrange(10 ** 9))
    try:
        ra.save(p, array, compression_level=compression)
        if keys is None:
            return ra.load(p, stride=stride)
        n_zeros = len(str(len(array.lengths))) + 1
        names = ['arr_' + str(k).zfill(n_zeros) for k in keys]
        return ra.load(p, keys=names, stride=stride)
    finally:
        if os.path.exists(p):
            os.remove(p)


class KeyOrder(Contract):
    key = 'enspara/ra/ra.py::save[key-names-sort-in-row-order]'

    def ensures(self, L, A, N, R, G, V):
        return [('zero-padded-names-sort-in-row-order', R)]


def key_order(n_rows):
    n_zeros = len(str(n_rows)) + 1
    names = ['arr_' + str(i).zfill(n_zeros) for i in range(n_rows)]
    return names == sorted(names)


class BulkLoad(Contract):
    key = 'enspara/util/load.py::load_as_concatenated'

    def ensures(self, L, A, N, R, G, V):
        import mdtraj as md
        lengths, xyz = R
        want, wl = [], []
        for f, kw in zip(A['filenames'], A['per_file']):
            t = md.load(f, **kw)
            want.append(t.xyz); wl.append(len(t))
        want = np.concatenate(want)
        return [('lengths-of-the-individual-loads', list(lengths) == wl),
                ('concatenation-in-file-order', xyz.shape == want.shape and bool(np.array_equal(xyz, want)))]


def bulk(filenames, per_file, processes, use_args, lengths=None):
    if use_args:
        return UL.load_as_concatenated(filenames, processes=processes, args=per_file, lengths=lengths)
    return UL.load_as_concatenated(filenames, processes=processes, lengths=lengths, **per_file[0])


def make_trajs(rnd):
    import mdtraj as md
    top = md.Topology()
    ch = top.add_chain()
    res = top.add_residue('ALA', ch)
    for nm in ('N', 'CA', 'C', 'O', 'CB'):
        top.add_atom(nm, md.element.carbon if nm != 'N' else md.element.nitrogen, res)
    files = []
    topf = os.path.join(TMP, 'top.pdb')
    for k, n in enumerate((7, 3, 10, 1, 6)):
        xyz = np.array([[[rnd.uniform(0, 3) for _ in range(3)] for _ in range(5)] for _ in range(n)], dtype=np.float32)
        t = md.Trajectory(xyz, top)
        f = os.path.join(TMP, 't%d.h5' % k)
        t.save(f)
        files.append(f)
        if k == 0:
            t[0].save(topf)
    return files, topf


def cases(L, tier, seed):
    rnd = random.Random(seed)
    c = RoundTrip()
    arrays = []
    for dt in ('int16', 'int32', 'int64', 'float32', 'float64'):
        for nrows in (1, 2, 9, 10, 11, 101) + ((150,) if tier != 'quick' else ()):
            lens = [rnd.randint(1, 6) for _ in range(nrows)]
            arrays.append(ra.RaggedArray(np.arange(sum(lens)).astype(dt) * (1.5 if dt.startswith('f') else 1), lengths=lens))
        arrays.append(ra.RaggedArray([np.arange(6).reshape(3, 2).astype(dt), np.arange(6, 10).reshape(2, 2).astype(dt)]))
        arrays.append(np.arange(24).reshape(4, 6).astype(dt))
    for arr in arrays:
        for stride in (1, 2, 3):
            for comp in ((0, 1, 9) if stride == 1 else (1,)):
                yield c, save_load, dict(array=arr, stride=stride, compression=comp), ('roundtrip', str(arr.lengths if hasattr(arr, 'lengths') else arr.shape)[:60], stride, comp)
        if isinstance(arr, ra.RaggedArray) and len(arr.lengths) >= 9 and arr._data.ndim == 1:
            n = len(arr.lengths)
            for keys in ([0, 1], [n - 1, 0], list(range(0, n, 3)), [n // 2, n // 2 + 1, 2], [2, 0, 2], [1, 1]):
                for stride in (1, 2):
                    yield c, save_load, dict(array=arr, stride=stride, keys=keys), ('subset', n, keys[:5], stride)
    for n in [1, 2, 9, 10, 11, 99, 100, 101, 999, 1000, 1001, 9999, 10000, 10001, 20000] + ([] if tier == 'quick' else list(range(3, 20000, 487))):
        yield KeyOrder(), key_order, dict(n_rows=n), ('key-order', n)
    files, topf = make_trajs(rnd)
    for procs in (1, 2, 4):
        for stride in (1, 2, 3):
            per = [dict(stride=stride) for _ in files]
            yield BulkLoad(), bulk, dict(filenames=files, per_file=per, processes=procs, use_args=False), ('bulk', procs, stride)
            per = [dict(stride=stride, atom_indices=[0, 2, 4]) for _ in files]
            yield BulkLoad(), bulk, dict(filenames=files, per_file=per, processes=procs, use_args=True), ('bulk-atoms', procs, stride)
        # a mix of single-frame requests and whole files of different lengths
        for per in ([dict(frame=2), dict(), dict(), dict(frame=0), dict()], [dict(), dict(frame=1, atom_indices=[0, 2]), dict(atom_indices=[0, 2]), dict(atom_indices=[0, 2]), dict(frame=3, atom_indices=[0, 2])],
                    [dict(frame=1, stride=1), dict(stride=2), dict(stride=2), dict(stride=2), dict(stride=2)]):
            if 'atom_indices' in per[1] and 'atom_indices' not in per[0]:
                per[0]['atom_indices'] = [0, 2]
            yield BulkLoad(), bulk, dict(filenames=files, per_file=per, processes=procs, use_args=True), ('bulk-frames-and-files', procs, [sorted(p) for p in per])
        per = [dict() for _ in files]
        yield BulkLoad(), bulk, dict(filenames=files[::-1], per_file=per, processes=procs, use_args=True, lengths=[6, 1, 10, 3, 7]), ('bulk-lengths-hint', procs)


def replay(L, p):
    m = p['inputs']
    EXCL.clear()
    arr = ra.RaggedArray([np.array(r) for r in m['rows']])
    st, _ = bounded.runtime_check(RoundTrip(), save_load, dict(array=arr, stride=int(m.get('stride', 1)), compression=1), L)
    return {'outcome': 'contract-held' if st == 'ok' else 'vacuous'}


if __name__ == '__main__':
    try:
        bounded.main(cases, replay, 'PyTables round trips of ragged / rectangular arrays (1..150 rows, 5 dtypes, strides 1..3, key subsets, compression 0/1/9); key order up to 20000 rows; bulk trajectory loading with 1/2/4 workers')
    finally:
        shutil.rmtree(TMP, ignore_errors=True)
