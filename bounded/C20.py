"""Bounded stand-in + replay driver for C20 (real enspara.geometry.rotamer / enspara.cards.disorder).
Scope (quick): every angle sequence of length <= 4 over a 13-point grid avoiding gate values is too large, so:
all sequences of length <= 3 over the grid, plus seeded random sequences up to length 12; every library
boundary set; buffer widths on a grid covering the whole admissible range.  NOT counted as proved."""
import sys, itertools, random
from pyvc import bounded
import numpy as np
from enspara.geometry import rotamer as R
from enspara.cards import disorder as D
from contracts import rotamer as CR, disorder as CD

HBS = ([0, 120, 240, 360], [0, 180, 360], [0, 160, 360])


def cases(L, tier, seed):
    excl = set(a.split('=')[1].split(',') for a in sys.argv if a.startswith('--exclude=')) if False else set(sum([a.split('=')[1].split(',') for a in sys.argv if a.startswith('--exclude=')], []))
    rnd = random.Random(seed)
    grid = [0.5, 14.5, 45.25, 100.5, 119.5, 130.25, 165.5, 179.5, 200.75, 239.5, 250.25, 300.5, 359.5]
    for hb in HBS:
        nb = len(hb) - 1
        cg, ci, cr = CR.GetGates(hb), CR.IsBuffered(hb), CR.Rotamers(hb)
        bws = [0, 1, 15, 29.75, 44.5, 59.75, 75.25, 89.75, 95.5, 110.25, 119.75, 150.5, 179.75]
        bws = [b for b in bws if b * nb < 360]
        for bw in bws:
            for s in range(nb):
                yield cg, R.get_gates, dict(cur_state=s, hard_boundaries=list(hb), buffer_width=bw), ('get_gates', hb, s, bw)
                for a in grid:
                    yield ci, R.is_buffered_transition, dict(cur_state=s, new_angle=a, hard_boundaries=list(hb), buffer_width=bw), ('is_buffered', hb, s, a, bw)
            for n in (1, 2, 3):
                for seq in itertools.product(grid[::2] if n == 3 else grid, repeat=n):
                    yield cr, R._rotamers, dict(angles=np.array(seq), hard_boundaries=list(hb), buffer_width=bw), ('_rotamers', hb, list(seq), bw)
            for k in range(40 if tier == 'quick' else 400):
                n = rnd.randint(4, 12)
                seq = [rnd.choice(grid) if rnd.random() < .5 else round(rnd.uniform(0, 359.9), 3) for _ in range(n)]
                yield cr, R._rotamers, dict(angles=np.array(seq), hard_boundaries=list(hb), buffer_width=bw), ('_rotamers', hb, seq, bw)
    c1, c2 = CD.Transitions1D(), CD.Transitions2D(exclude=excl)
    for n in range(0, 6):
        for seq in itertools.product(range(3), repeat=n):
            yield c1, D.transitions, dict(assignments=np.array(seq, dtype=int)), ('transitions1d', list(seq))
    for r in (1, 2, 3):
        for c in (1, 2, 3):
            for flat in itertools.product(range(2), repeat=r * c):
                yield c2, D.transitions, dict(assignments=np.array(flat, dtype=int).reshape(r, c)), ('transitions2d', r, c, list(flat))


def frac(v):
    return v[0] / v[1] if isinstance(v, list) else float(v)


def replay(L, p):
    m, key = p['inputs'], p['key']
    if key.endswith('transitions'):
        a = np.array(m['assignments'], dtype=int)
        c = CD.Transitions2D() if a.ndim == 2 else CD.Transitions1D()
        bounded.runtime_check(c, D.transitions, dict(assignments=a), L)
        return {'outcome': 'contract-held'}
    hb = p['hb']
    if key.endswith('is_buffered_transition'):
        c, f = CR.IsBuffered(hb), R.is_buffered_transition
        args = dict(cur_state=int(m['cur_state']), new_angle=frac(m['new_angle']), hard_boundaries=list(hb), buffer_width=frac(m['buffer_width']))
    elif key.endswith('get_gates'):
        c, f = CR.GetGates(hb), R.get_gates
        args = dict(cur_state=int(m['cur_state']), hard_boundaries=list(hb), buffer_width=frac(m['buffer_width']))
    else:
        c, f = CR.Rotamers(hb), R._rotamers
        args = dict(angles=np.array([frac(x) for x in m['angles']]), hard_boundaries=list(hb), buffer_width=frac(m['buffer_width']))
    st, _ = bounded.runtime_check(c, f, args, L)
    return {'outcome': 'contract-held' if st == 'ok' else 'vacuous', 'args': bounded.jsonable(args)}


if __name__ == '__main__':
    bounded.main(cases, replay, 'angle sequences len<=3 over a 13-point grid + seeded len<=12; 3 boundary sets; 13 buffer widths; transitions: all 1-D sequences len<=5 over 3 states, all 2-D 0/1 arrays up to 3x3')
