"""Bounded stand-in for C04 (and the builder-level part of C12) on the real enspara.msm.builders (NOT counted as proved).
Scope: the complete product {normalize, transpose, mle} x {ndarray, csr, csc, coo, lil, dok, dia, bsr} x {prior none / scalar / asymmetric array}
x {populations on/off} over enumerated + seeded count matrices with 2..4 states (integer and real, with zeros and self-counts)."""
import sys, itertools, random
from pyvc import bounded
import numpy as np
import scipy.sparse as sp
from enspara.msm import builders as B
from contracts import builders_rt as RT

CONT = {'ndarray': np.array, 'csr': sp.csr_matrix, 'csc': sp.csc_matrix, 'coo': sp.coo_matrix, 'lil': sp.lil_matrix,
        'dok': sp.dok_matrix, 'dia': sp.dia_matrix, 'bsr': sp.bsr_matrix}


def matrices(rnd, tier):
    out = [np.array([[2, 1], [1, 3]]), np.array([[0, 3, 1], [2, 0, 2], [1, 4, 0]]), np.array([[5, 2, 0], [1, 4, 3], [0, 2, 6]]),
           np.array([[1.5, 0.5, 0], [0.25, 2, 1], [1, 0, 3]]), np.array([[10, 1, 0, 0], [1, 10, 1, 0], [0, 1, 10, 1], [1, 0, 1, 10]]),
           np.array([[0, 7, 0], [0, 0, 5], [6, 0, 0]])]
    for _ in range(4 if tier == 'quick' else 40):
        n = rnd.choice([2, 3, 4])
        M = np.array([[rnd.choice([0, 0, 1, 2, 5, 9]) for _ in range(n)] for _ in range(n)])
        for i in range(n):
            M[i, (i + 1) % n] += 1          # strongly connected ring
        out.append(M)
    return out


def cases(L, tier, seed):
    rnd = random.Random(seed)
    for C in matrices(rnd, tier):
        n = len(C)
        priors = [None, 1.0, np.triu(np.ones((n, n)), 1) * 0.5]
        for bname in ('normalize', 'transpose', 'mle'):
            fn = getattr(B, bname)
            for pr in priors:
                for eq in (True, False):
                    ref = None
                    try:
                        ref = fn(np.array(C), prior_counts=pr, calculate_eq_probs=eq)
                    except Exception:
                        ref = None
                    for cname, ctor in CONT.items():
                        M = ctor(C) if cname != 'ndarray' else np.array(C)
                        yield RT.Builder(bname), fn, dict(C=M, prior_counts=pr, calculate_eq_probs=eq), (bname, cname, C.tolist(), None if pr is None else np.asarray(pr).tolist(), eq)
                        if ref is not None and cname != 'ndarray':
                            M2 = ctor(C)
                            yield RT.BuilderAgreement(), (lambda C, prior_counts, calculate_eq_probs, reference, fn=fn: fn(C, prior_counts=prior_counts, calculate_eq_probs=calculate_eq_probs)), \
                                dict(C=M2, prior_counts=pr, calculate_eq_probs=eq, reference=ref), (bname + '-agreement', cname, C.tolist(), None if pr is None else np.asarray(pr).tolist(), eq)


def replay(L, p):
    return {'outcome': 'error', 'detail': 'no symbolic obligations to replay for C04'}


if __name__ == '__main__':
    bounded.main(cases, replay, '3 builders x 8 containers x 3 priors x populations on/off over count matrices with 2..4 states')
