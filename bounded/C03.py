"""Bounded stand-in + replay for C03 on the real enspara.msm.transition_matrices (NOT counted as proved).
Scope: all sets of <= 3 trajectories of length <= 4 over 3 states (quick: a stride of that space), rectangular -1-padded,
RaggedArray and reordered forms, lags 1..4, sliding on/off, inferred/explicit state count; additivity over splits;
scale cases whose counts exceed 8- and 16-bit ranges."""
import sys, itertools, random
from pyvc import bounded
import numpy as np
from enspara import ra
from enspara.msm import transition_matrices as TM
from contracts import counts as CC


def pad(trajs):
    m = max(len(t) for t in trajs)
    return np.array([list(t) + [-1] * (m - len(t)) for t in trajs], dtype=int)


class Relational(CC.Contract):
    """ragged == padded == reordered; additive over a split of the trajectory set"""
    key = 'enspara/msm/transition_matrices.py::assigns_to_counts[relational]'

    def ensures(self, L, A, N, R, G, V):
        trajs, lag, sl, n = A['trajs'], A['lag_time'], A['sliding_window'], A['n_states']
        dense = lambda x: np.asarray(x.toarray())
        base = dense(R)
        out = [('padded-equals-ragged', (dense(TM.assigns_to_counts(pad(trajs), lag, max_n_states=n, sliding_window=sl)) == base).all()),
               ('reordering-invariant', (dense(TM.assigns_to_counts(ra.RaggedArray([list(t) for t in trajs[::-1]]), lag, max_n_states=n, sliding_window=sl)) == base).all())]
        if len(trajs) >= 2:
            a = dense(TM.assigns_to_counts(ra.RaggedArray([list(t) for t in trajs[:1]]), lag, max_n_states=n, sliding_window=sl))
            b = dense(TM.assigns_to_counts(ra.RaggedArray([list(t) for t in trajs[1:]]), lag, max_n_states=n, sliding_window=sl))
            out.append(('additive-over-trajectory-sets', (a + b == base).all()))
        return out


def rel_call(trajs, lag_time, sliding_window, n_states):
    return TM.assigns_to_counts(ra.RaggedArray([list(t) for t in trajs]), lag_time, max_n_states=n_states, sliding_window=sliding_window)


def cases(L, tier, seed):
    rnd = random.Random(seed)
    cH, cA, cR = CC.TransitionsHelper(), CC.AssignsToCounts(), Relational()
    seqs = [s for n in range(0, 5) for s in itertools.product(range(3), repeat=n)]
    for s in seqs[::(2 if tier == 'quick' else 1)]:
        for lag in (1, 2, 3, 5):
            for sl in (True, False):
                yield cH, TM._transitions_helper, dict(assigns_1d=np.array(s, dtype=int), lag_time=lag, sliding_window=sl), ('helper', list(s), lag, sl)
    nonempty = [s for s in seqs if len(s) >= 1]
    sets = [[a] for a in nonempty[::5]] + [[a, b] for a in nonempty[::11] for b in nonempty[3::17]] + \
           [[rnd.choice(nonempty) for _ in range(3)] for _ in range(40 if tier == 'quick' else 400)]
    for trajs in sets:
        for lag in (1, 2, 3):
            for sl in (True, False):
                for n in (None, 3, 4):
                    P = pad(trajs)
                    yield cA, TM.assigns_to_counts, dict(assigns=P, lag_time=lag, max_n_states=n, sliding_window=sl), ('counts-padded', [list(t) for t in trajs], lag, sl, n)
                    if len(set(len(t) for t in trajs)) > 1 or len(trajs) == 1:
                        yield cA, TM.assigns_to_counts, dict(assigns=ra.RaggedArray([list(t) for t in trajs]), lag_time=lag, max_n_states=n, sliding_window=sl), ('counts-ragged', [list(t) for t in trajs], lag, sl, n)
                yield cR, rel_call, dict(trajs=[tuple(t) for t in trajs], lag_time=lag, sliding_window=sl, n_states=3), ('relational', [list(t) for t in trajs], lag, sl)
    # error clauses
    for lag in (0, -1, 1.5, 2.0):
        yield cA, TM.assigns_to_counts, dict(assigns=np.array([[0, 1, 2]]), lag_time=lag), ('bad-lag', lag)
    yield cA, TM.assigns_to_counts, dict(assigns=np.array([0, 1, 2]), lag_time=1), ('one-dimensional',)
    # scale: counts beyond 8 and 16 bits, many short trajectories, a highest state that forms no pair
    yield cA, TM.assigns_to_counts, dict(assigns=pad([[0] * 200, [0] * 180, [0] * 150, [0] * 90 + [1]]), lag_time=1), ('scale-8bit',)
    yield cA, TM.assigns_to_counts, dict(assigns=np.zeros((2, 40000), dtype=int), lag_time=1), ('scale-16bit',)
    yield cA, TM.assigns_to_counts, dict(assigns=pad([[0, 1, 0, 1], [2]]), lag_time=1), ('top-state-without-pair',)
    yield cA, TM.assigns_to_counts, dict(assigns=pad([[0, 1, 0, 1, 2]]), lag_time=2, sliding_window=False), ('top-state-off-stride',)


def replay(L, p):
    m = p['inputs']
    args = dict(assigns_1d=np.array([int(x) for x in m['assigns_1d']], dtype=int), lag_time=int(m['lag_time']), sliding_window=bool(m['sliding_window']))
    st, _ = bounded.runtime_check(CC.TransitionsHelper(), TM._transitions_helper, args, L)
    return {'outcome': 'contract-held' if st == 'ok' else 'vacuous', 'args': bounded.jsonable(args)}


if __name__ == '__main__':
    bounded.main(cases, replay, 'trajectory sets <= 3 x length <= 4 over 3 states; lags 1..5; sliding on/off; padded/ragged/reordered/split; scale cases 620 and 80000 frames')
