"""Bounded stand-in for C11 on the real trim_disconnected / MSM.fit (NOT counted as proved).
Scope: all 3x3 count matrices over {0,1,3} (quick: strided), seeded 4..5-state matrices with one-way links, isolated states and ties;
thresholds 1..3; renumbering on/off; ndarray + 7 sparse containers (incl. COO with duplicate coordinates)."""
import sys, itertools, random
from pyvc import bounded
import numpy as np
import scipy.sparse as sp
from enspara.msm import transition_matrices as TM, msm as M, builders as B
from contracts import trim_rt as RT

CONT = [np.array, sp.csr_matrix, sp.csc_matrix, sp.coo_matrix, sp.lil_matrix, sp.dok_matrix, sp.dia_matrix, sp.bsr_matrix]


def variants(C, threshold):
    return (TM.trim_disconnected(sp.csr_matrix(C), threshold=threshold, renumber_states=True),
            TM.trim_disconnected(np.array(C), threshold=threshold, renumber_states=False),
            TM.trim_disconnected(np.array(C), threshold=threshold, renumber_states=True))


def fit_trim(assigns, lag_time):
    m = M.MSM(lag_time=lag_time, method=B.normalize, trim=True)
    m.fit(assigns)
    return m


def cases(L, tier, seed):
    rnd = random.Random(seed)
    mats = [np.array(f).reshape(3, 3) for f in list(itertools.product((0, 1, 3), repeat=9))[::(23 if tier == 'quick' else 3)]]
    mats += [np.array([[10, 10, 5, 0], [10, 10, 0, 0], [0, 0, 12, 12], [0, 0, 12, 12]]),          # one-way link flips row/column ranking
             np.array([[0, 2, 0, 0, 0], [2, 0, 0, 0, 0], [0, 0, 5, 0, 0], [0, 0, 0, 0, 1], [0, 0, 0, 1, 0]]),
             np.array([[4, 1], [0, 4]]), np.array([[7]])]
    for _ in range(30 if tier == 'quick' else 300):
        n = rnd.choice([4, 5])
        mats.append(np.array([[rnd.choice([0, 0, 0, 1, 2, 6]) for _ in range(n)] for _ in range(n)]))
    c = RT.Trim()
    for C in mats:
        for thr in (1, 2, 3):
            for ren in (True, False):
                for ctor in (CONT if (thr == 1 or tier != 'quick') else CONT[:4]):
                    yield c, TM.trim_disconnected, dict(counts=ctor(C), threshold=thr, renumber_states=ren), ('trim', C.tolist(), thr, ren, getattr(ctor, '__name__', 'ndarray'))
            yield RT.TrimVariantsAgree(), variants, dict(C=C.copy(), threshold=thr), ('variants', C.tolist(), thr)
            # COO with one stored entry per observed transition (what assigns_to_counts returns)
            r, cc = np.nonzero(C)
            rows = np.repeat(r, C[r, cc]); cols = np.repeat(cc, C[r, cc])
            dup = sp.coo_matrix((np.ones(len(rows), dtype=int), (rows, cols)), shape=C.shape)
            yield c, TM.trim_disconnected, dict(counts=dup, threshold=thr, renumber_states=True), ('trim-coo-duplicates', C.tolist(), thr)
    for _ in range(10 if tier == 'quick' else 60):
        a = np.array([[rnd.choice([0, 1, 1, 2, 3]) for _ in range(10)] for _ in range(2)])
        a[0, -1] = 4                      # a state that is entered but never left
        yield RT.FitReportsMapping(), fit_trim, dict(assigns=a, lag_time=1), ('fit-trim', a.tolist())


    # every state has a transition in and out, yet the graph is not strongly connected
    hard = [np.array([[0, 1, 2, 0, 1, 2, 0, 1], [3, 4, 3, 4, 3, 4, 3, 4]]),                       # two trajectories on disjoint state sets
            np.array([[0, 1, 0, 1, 0, 1, 2, 3, 2, 3, 2, 3, 2, 3]]),                               # two cycles joined by one irreversible hop
            np.array([[0, 1, 2, 0, 1, 2, 3, 4, 3, 4, 3, 4, 3, 4, 3, -1], [3, 4, 3, 4, 3, 4, 3, 4, 3, 4, 3, 4, 3, 4, 3, 4]])]
    for a in hard:
        yield RT.FitReportsMapping(), fit_trim, dict(assigns=a, lag_time=1), ('fit-trim-hard', a.tolist())


def replay(L, p):
    return {'outcome': 'error', 'detail': 'no symbolic obligations to replay for C11 yet'}


if __name__ == '__main__':
    bounded.main(cases, replay, 'all 3x3 matrices over {0,1,3} (strided), seeded 4-5 state matrices, thresholds 1..3, renumber on/off, 8 containers + duplicate-coordinate COO')
