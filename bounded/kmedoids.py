"""Bounded stand-in + replay driver for k-medoids / k-hybrid / estimator classes on the real code (C01, C09).
Scope: data sets <= 7 distinct points (incl. tight groups + far outliers), 3 metrics, every proposal tuple for K<=2
(all frames, incl. proposals equal to another centre), seeded random sweeps, n_iters 1..3, warm starts from a consistent state,
estimator classes KCenters / KMedoids / KHybrid.  NOT counted as proved."""
import sys, itertools, random
from pyvc import bounded
import numpy as np
from enspara.cluster import kcenters as KC, kmedoids as KM, hybrid as HY, util as UT
from contracts import kmedoids as CK, cluster as CC, cluster_glue as CG
from bounded.cluster import datasets, user_metric, frac

EXCL = set(sum([a.split('=')[1].split(',') for a in sys.argv if a.startswith('--exclude=')], []))
PROP = ([a.split('=')[1] for a in sys.argv if a.startswith('--prop=')] or ['C01'])[0]
# C09 does not speak about input frames (C01 does): the caller's index list may be rewritten there
WARM_MOD = ('cluster_center_inds',) if PROP == 'C09' else ()


def extra_datasets():
    return [np.array([[0.], [600.], [2000.], [2000.3], [2000.5]]), np.array([[2.], [28.], [14.], [22.], [4.], [25.], [8.], [1.], [11.], [18.]]),
            np.array([[0.], [-5.], [4.9], [10.], [15.]])]


def cases(L, tier, seed):
    rnd = random.Random(seed)
    for X in datasets(rnd, tier)[:(8 if tier == 'quick' else 30)] + extra_datasets():
        n = len(X)
        for metric in ['euclidean', user_metric] + (['manhattan'] if tier != 'quick' else []):
            dm = UT._get_distance_method(metric)
            for K in range(1, min(n, 3) + 1):
                for start in ([list(range(K))] + [sorted(rnd.sample(range(n), K)) for _ in range(2)]):
                    C = X[start]
                    asg, D = UT.assign_to_nearest_center(X, C, dm)
                    props = list(itertools.product(range(n), repeat=K)) if K <= 2 and n <= 6 else [tuple(rnd.randrange(n) for _ in range(K)) for _ in range(12)]
                    for pr in props:
                        yield CK.PamUpdate('given'), KM._kmedoids_pam_update, dict(X=X.copy(), metric=dm, medoid_inds=list(start), assignments=asg.copy(), distances=D.copy(), proposals=list(pr)), ('pam', X.tolist(), start, list(pr), str(metric)[:10])
                    for s in range(3):
                        yield CK.PamUpdate('random'), KM._kmedoids_pam_update, dict(X=X.copy(), metric=dm, medoid_inds=list(start), assignments=asg.copy(), distances=D.copy(), random_state=s), ('pam-random', X.tolist(), start, s)
                        for it in (0, 1, 3):
                            yield CK.Iterations('random', EXCL), KM._kmedoids_iterations, dict(X=X.copy(), distance_method=dm, n_iters=it, cluster_center_inds=list(start), assignments=asg.copy(), distances=D.copy(), random_state=s), ('iterations', X.tolist(), start, it, s)
                    ref = float(np.mean(np.square(D)))
                    for it in (1, 2):
                        # entry points: kmedoids() warm (consistent state supplied) and cold (n_clusters), hybrid, estimators
                        yield CG.ClusterEntry('enspara/cluster/kmedoids.py::kmedoids[warm]', ref_cost=ref, k_expected=K, modifies=WARM_MOD), KM.kmedoids, \
                            dict(X=X.copy(), distance_method=metric, n_iters=it, assignments=asg.copy(), distances=D.copy(), cluster_center_inds=list(start), random_state=1), ('kmedoids-warm', X.tolist(), start, it)
                        # other forms of a supplied consistent state: index array (must not be overwritten), centres in non-increasing frame
                        # order, centres inferred from labels + distances, (trajectory, frame) pairs with ragged lengths
                        yield CG.ClusterEntry('enspara/cluster/kmedoids.py::kmedoids[warm]', ref_cost=ref, k_expected=K), KM.kmedoids, \
                            dict(X=X.copy(), distance_method=metric, n_iters=it, assignments=asg.copy(), distances=D.copy(), cluster_center_inds=np.array(start), random_state=1), ('kmedoids-warm-ndarray', X.tolist(), start, it)
                        if K >= 2:
                            rs = list(start[::-1])
                            asg_r, D_r = UT.assign_to_nearest_center(X, X[rs], dm)
                            ref_r = float(np.mean(np.square(D_r)))
                            yield CG.ClusterEntry('enspara/cluster/kmedoids.py::kmedoids[warm]', ref_cost=ref_r, k_expected=K, modifies=WARM_MOD), KM.kmedoids, \
                                dict(X=X.copy(), distance_method=metric, n_iters=it, assignments=asg_r.copy(), distances=D_r.copy(), cluster_center_inds=list(rs), random_state=1), ('kmedoids-warm-reversed', X.tolist(), rs, it)
                            yield CG.ClusterEntry('enspara/cluster/kmedoids.py::kmedoids[warm]', ref_cost=ref_r, k_expected=K), KM.kmedoids, \
                                dict(X=X.copy(), distance_method=metric, n_iters=it, assignments=asg_r.copy(), distances=D_r.copy(), random_state=1), ('kmedoids-warm-inferred-centres', X.tolist(), rs, it)
                            yield CG.ClusterEntry('enspara/cluster/kcenters.py::kcenters[warm]', k_expected=max(K, 1), data_arg='traj'), KC.kcenters, \
                                dict(traj=X.copy(), distance_method=metric, n_clusters=K, init_centers=X[rs].copy()), ('kcenters-warm-reversed', X.tolist(), rs)
                            yield CK.Hybrid('n'), HY.hybrid, dict(X=X.copy(), distance_method=metric, n_iters=it, n_clusters=K, dist_cutoff=None, random_state=3, init_centers=X[rs].copy()), ('hybrid-warm-reversed', X.tolist(), rs, it)
                        if n >= 3 and it == 1:
                            from contracts import kmedoids_inputs as KI
                            lens_ = [1, n - 1] if n < 5 else [2, 1, n - 3]
                            off_ = np.concatenate([[0], np.cumsum(lens_)])
                            prs = [(int(np.searchsorted(off_, c_, side='right') - 1), int(c_ - off_[int(np.searchsorted(off_, c_, side='right') - 1)])) for c_ in start]
                            base = dict(X=X.copy(), distance_method=dm, n_clusters=K, assignments=asg.copy(), distances=D.copy(), X_lengths=None, random_state=None)
                            yield KI.InputsTree('flat'), KM._kmedoids_inputs_tree, dict(base, cluster_center_inds=list(start)), ('inputs-flat', X.tolist(), start)
                            yield KI.InputsTree('pairs'), KM._kmedoids_inputs_tree, dict(base, cluster_center_inds=list(prs), X_lengths=list(lens_)), ('inputs-pairs', X.tolist(), prs, lens_)
                            yield KI.InputsTree('inferred'), KM._kmedoids_inputs_tree, dict(base, cluster_center_inds=None), ('inputs-inferred', X.tolist())
                            yield KI.InputsTree('labels-without-distances'), KM._kmedoids_inputs_tree, dict(base, cluster_center_inds=None, distances=None), ('inputs-half-state', X.tolist())
                        if n >= 3:
                            lens = [1, n - 1] if n < 5 else [2, 1, n - 3]
                            off = np.concatenate([[0], np.cumsum(lens)])
                            pairs = []
                            for c_ in start:
                                t_ = int(np.searchsorted(off, c_, side='right') - 1)
                                pairs.append((t_, int(c_ - off[t_])))
                            yield CG.ClusterEntry('enspara/cluster/kmedoids.py::kmedoids[warm]', ref_cost=ref, k_expected=K), KM.kmedoids, \
                                dict(X=X.copy(), distance_method=metric, n_iters=it, cluster_center_inds=list(pairs), X_lengths=list(lens), random_state=1), ('kmedoids-warm-pairs', X.tolist(), pairs, lens, it)
                        yield CG.ClusterEntry('enspara/cluster/kmedoids.py::kmedoids[cold]', k_expected=K), KM.kmedoids, \
                            dict(X=X.copy(), distance_method=metric, n_clusters=K, n_iters=it, random_state=2), ('kmedoids-cold', X.tolist(), K, it)
                        yield CK.Hybrid('n'), HY.hybrid, dict(X=X.copy(), distance_method=metric, n_iters=it, n_clusters=K, dist_cutoff=None, random_state=3), ('hybrid', X.tolist(), K, it)
                    est = KM.KMedoids(metric, n_clusters=K, n_iters=2)
                    yield CG.ClusterEntry('enspara/cluster/kmedoids.py::KMedoids.fit', k_expected=K, metric_arg='-'), KM.KMedoids.fit, dict(self=est, X=X.copy()), ('KMedoids.fit', X.tolist(), K)
                    est = HY.KHybrid(metric, n_clusters=K, kmedoids_updates=2, random_state=0)
                    yield CG.ClusterEntry('enspara/cluster/hybrid.py::KHybrid.fit', k_expected=K, metric_arg='-'), HY.KHybrid.fit, dict(self=est, X=X.copy()), ('KHybrid.fit', X.tolist(), K)
                    est = KC.KCenters(metric, n_clusters=K)
                    yield CG.ClusterEntry('enspara/cluster/kcenters.py::KCenters.fit', k_expected=K, metric_arg='-'), KC.KCenters.fit, dict(self=est, X=X.copy()), ('KCenters.fit', X.tolist(), K)


def replay(L, p):
    m, key = p['inputs'], p['key']
    n, K = int(m.get('n', 0)), int(m.get('K', 0))
    T = np.array([[frac(x) for x in row] for row in m.get('table', [])])
    X = np.arange(max(n, 1), dtype=float)[:, None]

    def table_metric(Xs, y):
        return np.array([T[int(x[0]), int(np.ravel(y)[0])] for x in np.atleast_2d(Xs)], dtype=float)
    base = dict(assignments=np.array([int(x) for x in m['asg0'][:n]]), distances=np.array([frac(x) for x in m['dist0'][:n]]))
    if key.endswith('_kmedoids_pam_update'):
        mode = p.get('proposals', 'random')
        args = dict(X=X[:n], metric=table_metric, medoid_inds=[int(x) for x in m['med0'][:K]], **base)
        if mode == 'given':
            args['proposals'] = [int(x) for x in m['prop'][:K]]
        st, _ = bounded.runtime_check(CK.PamUpdate(mode), KM._kmedoids_pam_update, args, L)
    elif key.endswith('_kmedoids_iterations'):
        args = dict(X=X[:n], distance_method=table_metric, n_iters=int(m['n_iters']), cluster_center_inds=[int(x) for x in m['med0'][:K]], random_state=0, **base)
        st, _ = bounded.runtime_check(CK.Iterations('random'), KM._kmedoids_iterations, args, L)
    else:
        return {'outcome': 'error', 'detail': 'no replay recipe for ' + key}
    return {'outcome': 'contract-held' if st == 'ok' else 'vacuous', 'args': bounded.jsonable(args)}


if __name__ == '__main__':
    bounded.main(cases, replay, 'data sets <= 7 points (+ outlier sets), every proposal tuple for K<=2, seeded random sweeps, n_iters 0..3, entry points kmedoids/hybrid/estimators')
