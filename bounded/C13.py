"""Bounded stand-in + replay for C13 on the kernels compiled from the current libdist.pyx (ties the desugared text to the binary).
Scope: euclidean / manhattan / hamming x element types (int8..int64, float32, float64; uint8..uint64 for hamming) x layouts
(C-ordered, Fortran-ordered, strided view, negative-stride view) x OpenMP threads {1, 2, 5, 16} x with/without caller's output buffer
x shapes up to 7 x 5 (incl. 0 rows, 1 column) x extreme values; error clauses: wrong rank, mismatched width, wrong buffer type/length."""
import sys, itertools, random, ctypes
from pyvc import bounded
import numpy as np
from enspara.geometry import libdist as LD
from enspara.cluster import util as UT
from contracts import libdist as CL
from pyvc.spec import Contract

try:
    _gomp = ctypes.CDLL('libgomp.so.1')
except OSError:
    _gomp = None


def with_threads(fn, nthreads):
    def call(**kw):
        if _gomp is not None:
            _gomp.omp_set_num_threads(int(nthreads))
        return fn(**kw)
    return call


class Names(Contract):
    key = 'enspara/cluster/util.py::_get_distance_method'

    def ensures(self, L, A, N, R, G, V):
        want = {'euclidean': LD.euclidean, 'manhattan': LD.manhattan, 'cityblock': LD.manhattan}
        m = A['metric']
        return [('name-maps-to-kernel', (R is want[m]) if m in want else True), ('callable-passes-through', (R is m) if callable(m) else True)]


def layouts(X):
    yield 'C', np.ascontiguousarray(X)
    yield 'F', np.asfortranarray(X)
    big = np.zeros((X.shape[0] * 2 + 1, X.shape[1] * 3 + 2), dtype=X.dtype)
    big[1::2, 1::3][:X.shape[0], :X.shape[1]] = X
    yield 'strided', big[1::2, 1::3][:X.shape[0], :X.shape[1]]
    yield 'reversed', np.ascontiguousarray(X[::-1, ::-1])[::-1, ::-1]


def cases(L, tier, seed):
    rnd = random.Random(seed)
    shapes = [(0, 3), (1, 1), (2, 1), (3, 2), (5, 3), (7, 5)]
    kinds = {'euclidean': ['int8', 'int16', 'int32', 'int64', 'float32', 'float64'],
             'manhattan': ['int8', 'int16', 'int32', 'int64', 'float32', 'float64'],
             'hamming': ['uint8', 'uint16', 'uint32', 'uint64', 'int8', 'int16', 'int32', 'int64']}
    for kind, dts in kinds.items():
        fn = getattr(LD, kind)
        for dt in dts:
            info = np.iinfo(dt) if dt.startswith(('int', 'uint')) else None
            for (n, m) in shapes:
                if info is not None:
                    lo, hi = max(info.min, -100), min(info.max, 100)
                    X = np.array([[rnd.randint(lo, hi) for _ in range(m)] for _ in range(n)], dtype=dt).reshape(n, m)
                    y = np.array([rnd.randint(lo, hi) for _ in range(m)], dtype=dt)
                    if n and m and kind != 'hamming' and dt in ('int8', 'int16'):
                        X[0, 0], y[0] = info.max, info.min + 1        # difference exceeds the element type's own range
                else:
                    X = np.array([[rnd.uniform(-50, 50) for _ in range(m)] for _ in range(n)], dtype=dt).reshape(n, m)
                    y = np.array([rnd.uniform(-50, 50) for _ in range(m)], dtype=dt)
                if kind == 'hamming' and n and m:
                    X[n // 2] = y
                for lname, Xl in layouts(X):
                    for th in ((1, 2, 5, 16) if (tier != 'quick' or lname == 'C') else (2,)):
                        for use_out in (False, True, 'strided'):
                            out = (np.full(2 * n, 7.5)[::2] if use_out == 'strided' else np.full(n, 7.5)) if use_out else None
                            c = CL.Public(kind, 'f64' if use_out else 'none')
                            yield c, with_threads(fn, th), dict(X=Xl, y=y.copy(), out=out), (kind, dt, lname, (n, m), th, use_out)
        # error clauses
        X = np.zeros((3, 2), dtype=dts[-1]); y = np.zeros(2, dtype=dts[-1])
        c = CL.Public(kind, 'f64')
        cn = CL.Public(kind, 'none')
        yield cn, fn, dict(X=np.zeros(3, dtype=dts[-1]), y=y, out=None), (kind, 'X-rank-1')
        yield cn, fn, dict(X=np.zeros((3, 2, 1), dtype=dts[-1]), y=y, out=None), (kind, 'X-rank-3')
        yield cn, fn, dict(X=X, y=np.zeros((2, 1), dtype=dts[-1]), out=None), (kind, 'y-rank-2')
        yield cn, fn, dict(X=X, y=np.zeros(3, dtype=dts[-1]), out=None), (kind, 'width-mismatch')
        yield c, fn, dict(X=X, y=y, out=np.zeros(3, dtype=np.float32)), (kind, 'out-float32')
        yield c, fn, dict(X=X, y=y, out=np.zeros(4)), (kind, 'out-too-long')
        yield c, fn, dict(X=X, y=y, out=np.zeros(2)), (kind, 'out-too-short')
    for m in ('euclidean', 'manhattan', 'cityblock', cases):
        yield Names(), UT._get_distance_method, dict(metric=m), ('_get_distance_method', str(m)[:20])


def replay(L, p):
    m = p['inputs']
    kind = m.get('kind', 'euclidean')
    fr = lambda v: v[0] / v[1] if isinstance(v, list) else float(v)
    X = np.array([[fr(x) for x in row] for row in m['X']], dtype=float)
    y = np.array([fr(x) for x in m['y']], dtype=float)
    if kind == 'hamming':
        X, y = X.astype(np.int64), y.astype(np.int64)
    if X.ndim != 2:
        X = X.reshape(len(m['X']), -1)
    st, _ = bounded.runtime_check(CL.Public(kind, 'none'), getattr(LD, kind), dict(X=X, y=y, out=None), L)
    return {'outcome': 'contract-held' if st == 'ok' else 'vacuous'}


if __name__ == '__main__':
    bounded.main(cases, replay, '3 kernels x element types x 4 layouts x threads {1,2,5,16} x with/without out x shapes <= 7x5; validation errors')
