"""Bounded stand-in for C17 on the real enspara.tpt.path (NOT counted as proved).
Scope: all weighted digraphs on 4 nodes over a 3-level weight alphabet with edge density <= 6 (strided in quick), seeded digraphs with 5-6 nodes,
seeded conserved layered flows at ordinary and tiny (1e-9) scales, hand-built re-relaxation graphs; every source/sink pair (+ a 2-source case);
both path-removal schemes; num_paths 1..3 and flux fractions; bottleneck optimality against exhaustive simple-path enumeration."""
import sys, itertools, random
from pyvc import bounded
from pyvc.spec import Contract
import numpy as np
from enspara.tpt import path as PA

EXCL = set(sum([a.split('=')[1].split(',') for a in sys.argv if a.startswith('--exclude=')], []))


def simple_paths(F, sources, sinks):
    n = len(F)
    out = []

    def rec(p):
        u = p[-1]
        if u in sinks:
            out.append(list(p))
            return
        for v in range(n):
            if F[u, v] > 0 and v not in p:
                rec(p + [v])
    for s in sources:
        rec([s])
    return out


def bottleneck(F, p):
    return min(F[a, b] for a, b in zip(p[:-1], p[1:])) if len(p) > 1 else np.inf


class TopPath(Contract):
    key = 'enspara/tpt/path.py::top_path'

    def requires(self, L, A, G):
        F = np.asarray(A['net_flux'], dtype=float)
        so, si = set(map(int, A['sources'])), set(map(int, A['sinks']))
        return [('non-negative-square', F.shape[0] == F.shape[1] and bool((F >= 0).all())), ('disjoint', not (so & si)),
                ('a-path-exists', len(simple_paths(F, sorted(so), si)) > 0)]

    def ensures(self, L, A, N, R, G, V):
        F = np.asarray(A['net_flux'], dtype=float)
        so, si = set(map(int, A['sources'])), set(map(int, A['sinks']))
        path, flux = R
        p = [int(x) for x in path]
        best = max(bottleneck(F, q) for q in simple_paths(F, sorted(so), si))
        return [('simple-path', len(set(p)) == len(p)), ('starts-at-a-source-ends-at-a-sink', p[0] in so and p[-1] in si),
                ('edges-carry-positive-flux', all(F[a, b] > 0 for a, b in zip(p[:-1], p[1:]))),
                ('reported-flux-is-smallest-edge', L.req(flux, bottleneck(F, p))),
                ('largest-bottleneck-of-all-paths', L.req(flux, best))]


class Paths(Contract):
    key = 'enspara/tpt/path.py::paths'

    def requires(self, L, A, G):
        return TopPath().requires(L, A, G)

    def ensures(self, L, A, N, R, G, V):
        F = np.asarray(A['net_flux'], dtype=float)
        so, si = sorted(set(map(int, A['sources']))), set(map(int, A['sinks']))
        ps, fl = R
        fl = np.asarray(fl, dtype=float)
        total = F[so, :].sum()
        num = A.get('num_paths', np.inf)
        cut = A.get('flux_cutoff', 1 - 1e-10)
        out = [('requested-number-of-paths-respected', len(ps) <= num and len(ps) == len(fl) and len(ps) >= 1),
               ('successive-fluxes-never-increase', bool(np.all(np.diff(fl) <= 1e-12 * max(1.0, fl.max() if len(fl) else 1)))),
               ('sum-never-exceeds-source-outflow', fl.sum() <= total * (1 + 1e-9) or
                (A.get('remove_path', 'subtract') == 'bottleneck' and 'paths-bottleneck-scheme-reuses-edges' in EXCL))]
        resid = F.copy()
        ok_paths = True
        for p, f in zip(ps, fl):
            p = [int(x) for x in p]
            ok_paths = ok_paths and len(set(p)) == len(p) and p[0] in so and p[-1] in si and all(resid[a, b] > 0 for a, b in zip(p[:-1], p[1:])) \
                and bool(L.req(f, bottleneck(resid, p)))
            if A.get('remove_path', 'subtract') == 'subtract':
                for a, b in zip(p[:-1], p[1:]):
                    resid[a, b] -= f
                resid[resid < 1e-15 * max(1.0, F.max())] = np.where(resid[resid < 1e-15 * max(1.0, F.max())] < 0, 0, resid[resid < 1e-15 * max(1.0, F.max())])
            else:
                k = int(np.argmin([resid[a, b] for a, b in zip(p[:-1], p[1:])]))
                resid[p[k], p[k + 1]] = 0
        out.append(('every-path-is-a-real-path-of-the-residual-flux-with-its-bottleneck', ok_paths))
        if A.get('conserved') and A.get('remove_path', 'subtract') == 'subtract' and num == np.inf:
            out.append(('reaches-the-requested-fraction-for-conserved-flow', fl.sum() >= cut * total * (1 - 1e-9)))
        return out


def conserved_flow(rnd, scale):
    """layered DAG: source 0 -> layer A -> layer B -> sink, built as a sum of path flows (hence conserved)"""
    na, nb = rnd.randint(1, 2), rnd.randint(1, 2)
    n = 2 + na + nb
    F = np.zeros((n, n))
    A = list(range(1, 1 + na)); B = list(range(1 + na, 1 + na + nb)); t = n - 1
    for _ in range(rnd.randint(2, 4)):
        a, b, w = rnd.choice(A), rnd.choice(B), rnd.choice([1, 2, 3, 5])
        F[0, a] += w; F[a, b] += w; F[b, t] += w
    return F * scale, [0], [t]


def cases(L, tier, seed):
    rnd = random.Random(seed)
    graphs = []
    # hand-built: a node first reached through a weak edge, later through a stronger route
    g = np.zeros((5, 5)); g[0, 1] = 1; g[0, 2] = 0.1; g[0, 3] = 0.5; g[1, 2] = 0.9; g[2, 4] = 0.8; g[3, 4] = 0.5
    graphs.append((g, [0], [4], False))
    g = np.zeros((6, 6)); g[0, 1] = 10; g[1, 2] = 5; g[1, 3] = 3; g[1, 4] = 2; g[2, 5] = 5; g[3, 5] = 3; g[4, 5] = 2
    for sc in (1.0, 1e-3, 1e-9):
        graphs.append((g * sc, [0], [5], True))
    # more pathways than states: a 1-3-3-1 layered flow with 9 routes of distinct weights (conserved)
    g = np.zeros((8, 8))
    w1, w2 = [16.0, 4.0, 1.0], [1.0, 2.0, 4.0]
    for a in range(3):
        for b_ in range(3):
            f = w1[a] * w2[b_]
            g[0, 1 + a] += f; g[1 + a, 4 + b_] += f; g[4 + b_, 7] += f
    graphs.append((g, [0], [7], True))
    edges4 = [(i, j) for i in range(4) for j in range(4) if i != j]
    combos = [c for k in (3, 4, 5, 6) for c in itertools.combinations(edges4, k)]
    for c in combos[::(97 if tier == 'quick' else 7)]:
        for ws in [(1, 2, 3), (3, 1, 2)]:
            F = np.zeros((4, 4))
            for k, (i, j) in enumerate(c):
                F[i, j] = ws[k % 3]
            graphs.append((F, [0], [3], False))
    for _ in range(60 if tier == 'quick' else 600):
        n = rnd.choice([5, 6])
        F = np.array([[rnd.choice([0, 0, 0, 0.1, 0.5, 0.9, 1.0]) if i != j else 0 for j in range(n)] for i in range(n)])
        graphs.append((F, [0], [n - 1], False))
        graphs.append((F, [0, 1], [n - 1], False))
    for _ in range(20 if tier == 'quick' else 200):
        for sc in (1.0, 1e-9):
            F, so, si = conserved_flow(rnd, sc)
            graphs.append((F, so, si, True))
    # the path-removal helpers under the contracts the prover discharges (contracts/tpt_path.py)
    from contracts import tpt_path as TP
    rb, sp = TP.RemoveBottleneck(), TP.SubtractPathFlux()
    for F, so, si, cons in graphs[:(60 if tier == 'quick' else 600)]:
        for q in simple_paths(F, sorted(so), set(si))[:4]:
            if len(q) >= 2:
                yield rb, PA._remove_bottleneck, dict(net_flux=F.copy(), path=np.array(q)), ('remove-bottleneck', F.tolist(), q)
                yield sp, PA._subtract_path_flux, dict(net_flux=F.copy(), path=np.array(q)), ('subtract-path-flux', F.tolist(), q)
    for F, so, si, cons in graphs:
        yield TopPath(), PA.top_path, dict(sources=list(so), sinks=list(si), net_flux=F.copy()), ('top_path', F.tolist(), so, si)
        for scheme in ('subtract', 'bottleneck'):
            yield Paths(), (lambda sources, sinks, net_flux, remove_path, conserved, **kw: PA.paths(sources, sinks, net_flux, remove_path=remove_path, **kw)), \
                dict(sources=list(so), sinks=list(si), net_flux=F.copy(), remove_path=scheme, conserved=cons), ('paths', F.tolist(), so, si, scheme)
            for num in (1, 2):
                yield Paths(), (lambda sources, sinks, net_flux, remove_path, conserved, **kw: PA.paths(sources, sinks, net_flux, remove_path=remove_path, **kw)), \
                    dict(sources=list(so), sinks=list(si), net_flux=F.copy(), remove_path=scheme, conserved=cons, num_paths=num), ('paths-num', F.tolist(), so, si, scheme, num)


def replay(L, p):
    m = p['inputs']
    EXCL.clear()
    F = np.array(m['net_flux'], dtype=float)
    args = dict(sources=list(m['sources']), sinks=list(m['sinks']), net_flux=F, remove_path=m.get('remove_path', 'subtract'), conserved=False)
    st, _ = bounded.runtime_check(Paths(), (lambda sources, sinks, net_flux, remove_path, conserved, **kw: PA.paths(sources, sinks, net_flux, remove_path=remove_path, **kw)), args, L)
    return {'outcome': 'contract-held' if st == 'ok' else 'vacuous'}


if __name__ == '__main__':
    bounded.main(cases, replay, '4-node digraphs over 3 weight levels (strided), seeded 5-6 node digraphs, conserved layered flows at scales 1 and 1e-9, both removal schemes, num_paths 1..2')
