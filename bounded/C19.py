"""Bounded stand-in for C19 on the real code (NOT counted as proved): every listed numerical routine is called, the heap is dirtied
with NaN-filled blocks of the result's size (allocated and freed), the OpenMP thread count is changed, and the routine is called again:
results must be bit-identical and no argument may change (routines documented to work in place are exempt for that argument)."""
import sys, random, ctypes
from pyvc import bounded
from pyvc.spec import Contract
import numpy as np
import scipy.sparse as sp
from enspara.msm import builders as B, transition_matrices as TM
from enspara.tpt import core as TC, tpt as TP, path as PA
from enspara.cluster import util as UT, kcenters as KC, kmedoids as KM
from enspara.geometry import libdist as LD
from enspara.info_theory import mutual_info as MI, entropy as EN
from enspara import ra

try:
    _gomp = ctypes.CDLL('libgomp.so.1')
except OSError:
    _gomp = None


def flat(r):
    if isinstance(r, (tuple, list)):
        out = []
        for x in r:
            out += flat(x)
        return out
    if hasattr(r, 'toarray'):
        return [np.asarray(r.toarray(), dtype=float)]
    if hasattr(r, '_data') and hasattr(r, 'lengths'):
        return [np.asarray(r._data, dtype=float), np.asarray(r.lengths, dtype=float)]
    if hasattr(r, 'to_original'):
        return [np.array(sorted(r.to_original.items()), dtype=float)]
    if r is None:
        return []
    try:
        return [np.asarray(r, dtype=float)]
    except Exception:
        return []


class Deterministic(Contract):
    def __init__(self, name):
        self.key = 'C19::' + name.split('[')[0].split('.')[-1]

    def ensures(self, L, A, N, R, G, V):
        r1, r2, r3 = R
        a, b, c = flat(r1), flat(r2), flat(r3)
        same = lambda x, y: len(x) == len(y) and all(p.shape == q.shape and np.array_equal(p, q, equal_nan=False) for p, q in zip(x, y))
        return [('no-nan-from-recycled-memory', all(not np.isnan(p).any() for p in a + b + c)),
                ('same-result-after-heap-was-dirtied', same(a, b)), ('same-result-with-other-thread-count', same(a, c))]


def probe(fn):
    def call(**kw):
        cp = lambda: {k: (v.copy() if hasattr(v, 'copy') else v) for k, v in kw.items()}
        if _gomp: _gomp.omp_set_num_threads(2)
        r1 = fn(**cp())
        sizes = [max(8, x.size * 8) for x in flat(r1)] + [64, 256]
        junk = [np.full(max(1, s // 8), np.nan) for s in sizes for _ in range(8)]
        del junk
        r2 = fn(**cp())
        if _gomp: _gomp.omp_set_num_threads(7)
        r3 = fn(**kw)          # last call on the caller's own objects: frame clause of the harness compares them
        return r1, r2, r3
    return call


def cases(L, tier, seed):
    rnd = random.Random(seed)
    C = np.array([[5, 2, 0, 1], [1, 4, 3, 0], [0, 2, 6, 1], [2, 0, 1, 3]])
    T = C / C.sum(axis=1)[:, None]
    Ts = (C + C.T) / (C + C.T).sum(axis=1)[:, None]
    X = np.array([[rnd.uniform(0, 9), rnd.uniform(0, 9)] for _ in range(9)])
    F = np.array([[rnd.randrange(3) for _ in range(3)] for _ in range(8)])
    jc = MI.joint_counts(F, n_x=3)
    jc0 = jc.copy(); jc0[0, 1] = 0; jc0[1, 0] = 0          # a feature pair without observations
    R = ra.RaggedArray([[1, 2, 3], [4, 5], [6, 7, 8, 9]])
    nf = TP.net_fluxes(Ts, [0], [3])
    items = [
        ('builders.normalize', B.normalize, dict(C=C.copy())), ('builders.transpose', B.transpose, dict(C=C.copy())),
        ('builders.mle', B.mle, dict(C=C.astype(float))), ('builders.normalize[csr]', B.normalize, dict(C=sp.csr_matrix(C))),
        ('trim_disconnected', TM.trim_disconnected, dict(counts=C.copy())), ('trim_disconnected[threshold=2]', TM.trim_disconnected, dict(counts=C.copy(), threshold=2)),
        ('trim_disconnected[pseudo-counts]', TM.trim_disconnected, dict(counts=C + 0.25)), ('trim_disconnected[in place]', TM.trim_disconnected, dict(counts=C.copy(), threshold=3, renumber_states=False)), ('eigenspectrum', TM.eigenspectrum, dict(T=T.copy())),
        ('eq_probs', TM.eq_probs, dict(T=T.copy())), ('assigns_to_counts', TM.assigns_to_counts, dict(assigns=F.T.copy(), lag_time=1)),
        ('committors', TC.committors, dict(tprob=T.copy(), sources=[0], sinks=[3])), ('mfpts', TC.mfpts, dict(tprob=T.copy())),
        ('mfpts[sinks]', TC.mfpts, dict(tprob=T.copy(), sinks=[1, 2])), ('reactive_fluxes', TP.reactive_fluxes, dict(tprob=Ts.copy(), sources=[0], sinks=[3])),
        ('net_fluxes', TP.net_fluxes, dict(tprob=Ts.copy(), sources=[0], sinks=[3])), ('reactive_populations', TP.reactive_populations, dict(tprob=Ts.copy(), sources=[0], sinks=[3])),
        ('top_path', PA.top_path, dict(sources=[0], sinks=[3], net_flux=nf.copy())), ('paths', PA.paths, dict(sources=[0], sinks=[3], net_flux=nf.copy())),
        ('assign_to_nearest_center', UT.assign_to_nearest_center, dict(trajectory=X.copy(), cluster_centers=X[[0, 4]].copy(), distance_method=LD.euclidean)),
        ('find_cluster_centers', UT.find_cluster_centers, dict(assignments=np.array([0, 1, 0, 1, 1]), distances=np.array([.5, .2, 0., 0., .9]))),
        ('kcenters', KC.kcenters, dict(traj=X.copy(), distance_method='euclidean', n_clusters=3)),
        ('kmedoids[seeded]', KM.kmedoids, dict(X=X.copy(), distance_method='euclidean', n_clusters=3, n_iters=2, random_state=5)),
        ('libdist.euclidean', LD.euclidean, dict(X=X.copy(), y=X[2].copy())), ('libdist.manhattan', LD.manhattan, dict(X=X.copy(), y=X[2].copy())),
        ('libdist.hamming', LD.hamming, dict(X=F.copy(), y=F[0].copy())),
        ('joint_counts', MI.joint_counts, dict(X=F.copy(), n_x=3)), ('mutual_information', MI.mutual_information, dict(jc=jc.copy())),
        ('mutual_information[empty pair]', MI.mutual_information, dict(jc=jc0.copy())),
        ('weighted_mi', MI.weighted_mi, dict(features=F.copy(), weights=np.ones(len(F)) / len(F))),
        ('channel_capacity_normalization', MI.channel_capacity_normalization, dict(mi=np.ones((3, 3)), n_x=[2, 3, 4], n_y=[2, 3, 4])),
        ('shannon_entropy', EN.shannon_entropy, dict(p=np.array([0.5, 0.0, 0.25, 0.25, 0.0]), normalize=False)),
        ('shannon_entropy[normalize]', EN.shannon_entropy, dict(p=np.array([2.0, 0.0, 1.0, 1.0]))),
        ('kl_divergence', EN.kl_divergence, dict(P=np.array([0.5, 0.5, 0.0]), Q=np.array([0.25, 0.5, 0.25]))),
        ('ra.where', ra.where, dict(mask=R > 4)), ('RaggedArray.flatten', ra.RaggedArray.flatten, dict(self=R)),
        ('ra.partition_list', ra.partition_list, dict(list_to_partition=np.arange(9), partition_lengths=[3, 2, 4])),
    ]
    # long inputs: blocked / chunked kernels only differ from the small cases beyond their block size
    Fl = np.array([[rnd.randrange(3), rnd.randrange(3)] for _ in range(8219)])
    Fl2 = np.array([[rnd.randrange(4), rnd.randrange(2), rnd.randrange(3)] for _ in range(40001)])
    Xl = np.array([[rnd.uniform(0, 9), rnd.uniform(0, 9), rnd.uniform(0, 9)] for _ in range(9001)])
    items += [('joint_counts[8219 frames]', MI.joint_counts, dict(X=Fl.copy(), n_x=3)), ('joint_counts[40001 frames]', MI.joint_counts, dict(X=Fl2.copy(), n_x=4)),
              ('mi_matrix[8219 frames]', (lambda X, n: MI.mutual_information(MI.joint_counts(X, n_x=n))), dict(X=Fl.copy(), n=3)),
              ('libdist.euclidean[9001 rows]', LD.euclidean, dict(X=Xl.copy(), y=Xl[5].copy())), ('libdist.manhattan[9001 rows]', LD.manhattan, dict(X=Xl.copy(), y=Xl[5].copy())),
              ('libdist.hamming[8219 rows]', LD.hamming, dict(X=Fl.copy(), y=Fl[0].copy())),
              ('assigns_to_counts[40001 frames]', TM.assigns_to_counts, dict(assigns=Fl2.T.copy(), lag_time=3)),
              # index arguments are arguments too: a read / write through index arrays must leave them as they were
              ('RaggedArray.__getitem__[paired negative indices]', (lambda R_, rows, cols: R_[(rows, cols)]), dict(R_=R, rows=np.array([-1, 0, -2]), cols=np.array([-1, 1, 0]))),
              ('RaggedArray.__getitem__[rows, slice]', (lambda R_, rows, sl: R_[rows, sl]), dict(R_=R, rows=np.array([2, 0]), sl=slice(0, 2)))]
    for name, fn, args in items:
        yield Deterministic(name), probe(fn), args, (name,)


def replay(L, p):
    return {'outcome': 'error', 'detail': 'static obligations carry no model'}


if __name__ == '__main__':
    bounded.main(cases, replay, '33 routines of the numerical API, each called 3 times (fresh heap, NaN-dirtied heap, other thread count) on fixed small inputs')
