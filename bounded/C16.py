"""Bounded stand-in + replay for C16 on the real enspara.msm (NOT counted as proved).
Scope: assignment sets (2-3 trajectories, 3-4 states, seeded + structured), lags 1..3, builders normalize/transpose/mle, trim on/off,
sliding on/off, explicit state counts; spectral part on the fitted ergodic matrices (dense and csr); save/load of every fitted model."""
import sys, itertools, random, tempfile, shutil, os
from pyvc import bounded
import numpy as np
import scipy.sparse
from enspara.msm import msm as M, builders as B, transition_matrices as TM, timescales as TS, synthetic_data as SD
from contracts import msm as CM, msm_rt as RT


def new_init(**kw):
    o = M.MSM.__new__(M.MSM)
    return o


def save_load(m):
    d = tempfile.mkdtemp(prefix='c16_')
    try:
        p = os.path.join(d, 'model')
        m.save(p)
        return M.MSM.load(p)
    finally:
        shutil.rmtree(d, ignore_errors=True)


def assign_sets(rnd, tier):
    out = [np.array([[0, 0, 1, 1, 2, 2, 0, 1, 2, 0], [2, 1, 0, 0, 1, 2, 2, 1, 0, 2]]),
           np.array([[0, 1, 2, 1, 0, 1], [2, 0, 0, 2, 1, 1]]),
           np.array([[0, 1, 0, 1, 2, 3, 2, 3, 0, 2, 1, 3], [3, 2, 1, 0, 3, 1, 2, 0, 0, 3, 3, 1]]),
           # disconnected data in which every state still has a transition in and a transition out: two trajectories in disjoint
           # state sets; one basin left for good for another (trimming must keep the heaviest strongly connected set only)
           np.array([[0, 1, 2, 0, 1, 2, 0, 2, 1, 0, 1, 2], [3, 4, 3, 4, 4, 3, 3, 4, 3, 4, 3, 3]]),
           np.array([[0, 1, 0, 1, 0, 1, 0, 2, 3, 2, 3, 2], [0, 1, 1, 0, 0, 1, 0, 1, 0, 1, 0, 1]])]
    for _ in range(4 if tier == 'quick' else 30):
        ns = rnd.choice([3, 4])
        ln = rnd.choice([12, 20])
        out.append(np.array([[rnd.randrange(ns) for _ in range(ln)] for _ in range(2)]))
    return out


def cases(L, tier, seed):
    rnd = random.Random(seed)
    cI, cF, cC = CM.Init(), CM.Fit(), CM.Config()
    methods = [B.normalize, B.transpose] + ([B.mle] if tier != 'quick' else [B.mle])
    for a in assign_sets(rnd, tier):
        for lag in (1, 2, 3):
            for method in methods:
                for trim in (False, True):
                    for sw in (True, False):
                        for mx in (None, int(a.max()) + 2):
                            if trim and mx is not None:
                                continue
                            o = M.MSM.__new__(M.MSM)
                            yield cI, M.MSM.__init__, dict(self=o, lag_time=lag, method=method, trim=trim, sliding_window=sw, max_n_states=mx), ('init', lag, method.__name__, trim, sw, mx)
                            est = M.MSM(lag_time=lag, method=method, trim=trim, sliding_window=sw, max_n_states=mx)
                            if method is B.mle and not trim:
                                continue         # the ML builder needs a strongly connected count matrix (after trimming)
                            yield cF, M.MSM.fit, dict(self=est, assigns=a.copy()), ('fit', a.tolist(), lag, method.__name__, trim, sw, mx)
                            fitted = M.MSM(lag_time=lag, method=method, trim=trim, sliding_window=sw, max_n_states=mx)
                            try:
                                fitted.fit(a.copy())
                            except Exception:
                                continue
                            yield RT.SaveLoad(), save_load, dict(m=fitted), ('save-load', a.tolist(), lag, method.__name__, trim, sw)
                            T = fitted.tprobs_
                            Td = np.asarray(T.toarray() if hasattr(T, 'toarray') else T)
                            if trim and (Td > 0).all() or (trim and np.all(np.linalg.matrix_power((Td > 0).astype(int) + np.eye(len(Td), dtype=int), len(Td)) > 0)):
                                for TT in (Td, scipy.sparse.csr_matrix(Td)):
                                    if len(Td) >= 3 or not scipy.sparse.issparse(TT):
                                        yield RT.Eigenspectrum(), TM.eigenspectrum, dict(T=TT, left=True), ('eigenspectrum', Td.tolist(), type(TT).__name__)
                                p0 = np.eye(len(Td))[0]
                                yield RT.SyntheticEnsemble(), SD.synthetic_ensemble, dict(T=Td, init_pops=p0, n_steps=5), ('ensemble', Td.tolist())
                                yield RT.SyntheticEnsemble(), SD.synthetic_ensemble, dict(T=scipy.sparse.csr_matrix(Td), init_pops=p0, n_steps=4, observable_per_state=np.arange(len(Td)) * 1.5), ('ensemble-obs', Td.tolist())
        yield RT.ImpliedTimescales(), TS.implied_timescales, dict(assigns=a.copy(), lag_times=[1, 2], method=B.transpose, n_times=2, trim=True), ('timescales', a.tolist())


def cases_extra(L, tier, seed):
    """scales the small cases never reach: a state with a tiny population (text round trip of the populations) and
    matrices beyond the dense / sparse eigensolver switch-over (1000 states)"""
    rnd = random.Random(seed)
    # a long trajectory with one short excursion to a third state: its population is ~1e-4 and not a short decimal
    for n_fr, lag in ((30011, 1), (7001, 2)):
        a = np.array([[rnd.choice([0, 0, 1]) for _ in range(n_fr)]])
        a[0, n_fr // 2: n_fr // 2 + 3] = [2, 2, 0]
        for method in (B.normalize, B.transpose):
            est = M.MSM(lag_time=lag, method=method, trim=False, sliding_window=True, max_n_states=None)
            est.fit(a)
            yield RT.SaveLoad(), save_load, dict(m=est), ('save-load-rare-state', n_fr, lag, method.__name__)
    # birth-death chains with a non-uniform stationary distribution, below and above 1000 states, dense and sparse
    for n in (400, 1000):
        up = 0.2 + 0.1 * np.sin(np.arange(n) / 7.0)
        dn = 0.25 + 0.1 * np.cos(np.arange(n) / 5.0)
        T = np.zeros((n, n))
        for i in range(n):
            if i + 1 < n:
                T[i, i + 1] = up[i]
            if i > 0:
                T[i, i - 1] = dn[i]
            T[i, i] = 1 - T[i].sum()
        for TT, nm in ((scipy.sparse.csr_matrix(T), 'csr'), (T, 'dense')):
            yield RT.Eigenspectrum(), (lambda T, left, n_eigs=3: TM.eigenspectrum(T, n_eigs=n_eigs, left=left)), dict(T=TT, left=True), ('eigenspectrum-large', n, nm)
            yield RT.EqProbs(), TM.eq_probs, dict(T=TT), ('eq_probs-large', n, nm)


def replay(L, p):
    m = p['inputs']
    o = M.MSM.__new__(M.MSM)
    args = dict(self=o, lag_time=max(1, int(m.get('lag_time', 1))), method=B.normalize, trim=bool(m.get('trim', False)),
                sliding_window=bool(m.get('sliding_window', True)), max_n_states=None)
    st, _ = bounded.runtime_check(CM.Init(), M.MSM.__init__, args, L)
    return {'outcome': 'contract-held' if st == 'ok' else 'vacuous', 'args': {k: str(v) for k, v in args.items() if k != 'self'}}


import os
os.environ.setdefault('VERIF_CASE_TIMEOUT', '180')      # the 1000-state sparse eigen-solves take 5-25 s, much longer on a busy machine: not a hang

if __name__ == '__main__':
    _small = cases

    def cases(L, tier, seed):
        yield from _small(L, tier, seed)
        yield from cases_extra(L, tier, seed)
    bounded.main(cases, replay, 'assignment sets 2 x 12..20 frames over 3-4 states; lags 1..3; 3 builders; trim/sliding/state-count options; spectral clauses on fitted ergodic matrices; save/load')
