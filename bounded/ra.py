"""Bounded stand-in for C05 (reads) and C06 (write histories) on the real enspara.ra.RaggedArray against a list-of-rows model
(NOT counted as proved).  Scope: ragged arrays with <= 4 rows of length 1..4 (equal and unequal, 1-D and 2-D elements, built from
nested lists and from flat data + lengths); the complete index grammar with bounds in [-6, 6] and steps in {None, 1, 2, -1};
C06: every history of <= 2 mutating operations (quick) / <= 3 (thorough) from the mutator alphabet, every observer after each step."""
import sys, itertools, random, copy
from pyvc import bounded
from pyvc.spec import Contract
import numpy as np
from enspara import ra

PROP = ([a.split('=')[1] for a in sys.argv if a.startswith('--prop=')] or ['C05'])[0]
EXCL = set(sum([a.split('=')[1].split(',') for a in sys.argv if a.startswith('--exclude=')], []))


def norm(x):
    """comparable form: nested python lists"""
    if isinstance(x, ra.RaggedArray):
        return ['RA'] + [np.asarray(r).tolist() for r in x]
    if isinstance(x, np.ndarray) and x.dtype == object:
        return [np.asarray(r).tolist() for r in x]
    if isinstance(x, np.ndarray):
        return x.tolist()
    if isinstance(x, (list, tuple)):
        return [norm(v) for v in x]
    if isinstance(x, np.generic):
        return x.item()
    return x


def rows_of(x):
    n = norm(x)
    return n[1:] if (isinstance(n, list) and n and n[0] == 'RA') else n


def model_read(rows, idx):
    """what the same operation returns on a plain list of per-row numpy arrays"""
    nrows = len(rows)
    if isinstance(idx, (int, np.integer)):
        return rows[idx]
    if isinstance(idx, slice):
        return rows[idx]
    if isinstance(idx, list):
        return [rows[i] for i in idx]
    r, c = idx
    if isinstance(r, (int, np.integer)) and isinstance(c, (int, np.integer)):
        return rows[r][c]
    if isinstance(r, (int, np.integer)) and isinstance(c, slice):
        return rows[r][c]
    if isinstance(r, slice):
        rs = list(range(nrows))[r]
    else:
        rs = [x if x >= 0 else x + nrows for x in r]
        for x in rs:
            if not 0 <= x < nrows:
                raise IndexError
    if isinstance(c, slice):
        return [rows[i][c] for i in rs]
    if isinstance(c, (int, np.integer)):
        return [np.array([rows[i][c]]) for i in rs] if isinstance(r, slice) else np.array([rows[i][c] for i in rs])
    if isinstance(r, slice):
        return [np.array([rows[i][j] for j in c]) for i in rs]       # cartesian product for (slice, list)
    return np.array([rows[i][j] for i, j in zip(rs, c)])             # paired fancy indices


def in_class(idx, rows):
    """witness classes of listed findings (excluded from the run-time contract when listed)"""
    cls = set()
    if isinstance(idx, tuple):
        r, c = idx
        if isinstance(c, slice):
            if c.start is not None and c.start < 0:
                cls.add('ra-2d-slice-negative-start')
            if c.step is not None and c.step < 0:
                cls.add('ra-2d-slice-negative-step')
            if any(len(np.asarray(row)[c]) == 0 for row in rows):
                cls.add('ra-2d-slice-empty-row')
        if isinstance(r, slice):
            n = len(rows)
            if (r.start is not None and not -n <= r.start <= n) or (r.stop is not None and not -n <= r.stop <= n):
                cls.add('ra-row-slice-out-of-range-bounds')
            if r.step is not None and r.step < 0:
                cls.add('ra-row-slice-negative-step')
            if len(list(range(n))[r]) == 0:
                cls.add('ra-empty-selection')
    if isinstance(idx, tuple) and np.asarray(rows[0]).ndim > 1 and not (isinstance(idx[0], (int, np.integer)) and isinstance(idx[1], (int, np.integer))):
        cls.add('ra-2d-index-multidim-elements')
    if isinstance(idx, slice) and len(list(range(len(rows)))[idx]) == 0:
        cls.add('ra-empty-selection')
    return cls


class Read(Contract):
    key = 'enspara/ra/ra.py::RaggedArray.__getitem__'

    def requires(self, L, A, G):
        return [('outside-known-finding-classes', not (in_class(A['idx'], A['rows']) & EXCL))]

    def _expected(self, A):
        try:
            return ('value', model_read(A['rows'], A['idx']))
        except IndexError:
            return ('IndexError', None)

    def raises(self, L, A, G):
        kind, _ = self._expected(A)
        return {'IndexError': kind == 'IndexError'}

    def ensures(self, L, A, N, R, G, V):
        kind, want = self._expected(A)
        got, exp = rows_of(R), rows_of(want)
        r_, c_ = (A['idx'] if isinstance(A['idx'], tuple) else (None, None))
        if isinstance(r_, (int, np.integer)) and isinstance(c_, (int, np.integer)) and isinstance(got, list) and len(got) == 1:
            got = got[0]            # element access returns a 1-element array where a list of rows gives the element itself: same content
        return [('equals-read-of-list-of-rows', got == exp)]


class Attributes(Contract):
    key = 'enspara/ra/ra.py::RaggedArray[attributes]'

    def ensures(self, L, A, N, R, G, V):
        rows = A['rows']
        lengths = [len(r) for r in rows]
        flat = np.concatenate(rows)
        it, fl, ln, st, sh, sz, dt = R
        multi = np.asarray(rows[0]).ndim > 1
        return [('iteration-yields-rows', norm(it) == [np.asarray(r).tolist() for r in rows]), ('flatten', multi or norm(fl) == flat.flatten().tolist()),
                ('lengths', list(ln) == lengths), ('starts', list(st) == list(np.concatenate([[0], np.cumsum(lengths)[:-1]]))),
                ('size', multi or sz == len(flat)), ('dtype', dt == flat.dtype),
                ('shape', tuple(sh)[0] == len(rows)),
                ('shape-second-dimension-is-the-common-row-length-or-None', (tuple(sh)[1] is None) if len(set(lengths)) > 1 else (tuple(sh)[1] is not None and int(tuple(sh)[1]) == lengths[0])),
                ('shape-element-dimension', (len(tuple(sh)) == 2) if not multi else (len(tuple(sh)) == 3 and tuple(sh)[2] == np.asarray(rows[0]).shape[1]))]


def read(R, rows, idx):
    return R[idx]


def attrs(R, rows):
    return [r for r in R], R.flatten(), R.lengths, R.starts, R.shape, R.size, R.dtype


def arrays(rnd, tier):
    out = []
    for lens in [(3, 2, 4), (2, 2), (1,), (4, 1, 3, 2), (3, 3, 3), (2, 1, 3), (3, 5, 1), (1, 2)]:
        k = 0
        rows = []
        for n in lens:
            rows.append(np.arange(k, k + n) * 10 + 1)
            k += n
        out.append(('nested', rows))
        out.append(('flat+lengths', rows))
    rows2 = [np.arange(6).reshape(3, 2), np.arange(6, 10).reshape(2, 2)]
    out.append(('nested-2d-elements', rows2))
    rowsf = [np.array([0.5, 1.5]), np.array([2.5, 3.5, 4.5])]
    out.append(('nested-float', rowsf))
    return out


def build(kind, rows):
    if kind.startswith('flat'):
        return ra.RaggedArray(np.concatenate(rows), lengths=np.array([len(r) for r in rows]))
    return ra.RaggedArray([r.tolist() for r in rows])


def slices(lo, hi, steps):
    vals = [None] + list(range(lo, hi + 1))
    for a in vals:
        for b in vals:
            for s in steps:
                yield slice(a, b, s)


def cases_reads(L, tier, seed):
    rnd = random.Random(seed)
    cR, cA = Read(), Attributes()
    for kind, rows in arrays(rnd, tier):
        n = len(rows)
        mx = max(len(r) for r in rows)
        R = build(kind, rows)
        yield cA, attrs, dict(R=R, rows=rows), ('attributes', kind, [r.tolist() for r in rows])
        idxs = list(range(-n - 1, n + 1))
        idxs += list(slices(-n - 1, n + 1, (None, 2, -1)))[::(3 if tier == 'quick' else 1)]
        idxs += [[0], [n - 1, 0], [-1]]
        for i in range(-n, n):
            for j in range(-mx - 1, mx + 1):
                idxs.append((i, j))
        col_slices = list(slices(-mx - 1, mx + 1, (None, 2, -1)))
        row_slices = list(slices(-n - 1, n + 1, (None, 2, -1)))
        for rs in row_slices[::(7 if tier == 'quick' else 2)]:
            for cs in col_slices[::(5 if tier == 'quick' else 2)]:
                idxs.append((rs, cs))
        for cs in col_slices[::3]:
            idxs.append((0, cs)); idxs.append(([0, n - 1], cs)); idxs.append(([-1], cs))
        for k in range(-mx - 1, mx + 1):          # a row slice with an integer / list column: out-of-row columns must raise, never read a neighbour
            idxs += [(slice(None), k), (slice(None), [0, k]), (slice(0, n, 2), k), (slice(n - 1, n), [k])]
        idxs += [([0, n - 1], [0, 0]), ([n - 1, 0, 0], [0, 1 % len(rows[0]), 0]), ([0, 0], [-1, 0]), ([0, 0], [-len(rows[0]) - 1, 0]),
                 ([0, n - 1], 0), (slice(None), 0), (slice(None), [0]), (slice(0, 1), [0, len(rows[0]) - 1]), ([0], [len(rows[0])]), ([n], [0])]
        for idx in idxs:
            yield cR, read, dict(R=R, rows=rows, idx=idx), ('read', kind, [r.tolist() for r in rows], str(idx))
        if rows[0].ndim == 1:
            thr = int(np.median(np.concatenate(rows)))
            mask = R > thr
            want = np.concatenate(rows)[np.concatenate(rows) > thr]
            if len(want) or 'ra-empty-selection' not in EXCL:
                yield MaskRead(), (lambda R, mask, want: R[mask]), dict(R=R, mask=mask, want=want), ('mask-read', kind, [r.tolist() for r in rows], thr)


class MaskRead(Contract):
    key = 'enspara/ra/ra.py::RaggedArray.__getitem__[mask]'

    def ensures(self, L, A, N, R, G, V):
        return [('mask-selects-the-true-cells-in-order', np.asarray(R).tolist() == A['want'].tolist())]


# ------------------------------------------------------------------ C06: histories
def model_apply(rows, op):
    rows = [r.copy() for r in rows]
    k, a = op[0], op[1:]
    if k == 'elem':
        rows[a[0]][a[1]] = a[2]
    elif k == 'row':
        rows[a[0]] = np.array(a[1])
    elif k == 'rowslice':
        rows[a[0]][a[1]] = a[2]
    elif k == 'slice2':
        rs, cs, v = a
        for i in list(range(len(rows)))[rs]:
            rows[i][cs] = v
    elif k == 'paired':
        for i, j, v in zip(a[0], a[1], a[2]):
            rows[i][j] = v
    elif k == 'mask':
        thr, v = a
        for r in rows:
            r[r > thr] = v
    elif k == 'append':
        rows = rows + [np.array(x) for x in a[0]]
    elif k == 'iadd':
        rows = [r + a[0] for r in rows]
    return rows


def real_apply(R, op):
    k, a = op[0], op[1:]
    if k == 'elem':
        R[a[0], a[1]] = a[2]
    elif k == 'row':
        R[a[0]] = np.array(a[1])
    elif k == 'rowslice':
        R[a[0], a[1]] = a[2]
    elif k == 'slice2':
        R[a[0], a[1]] = a[2]
    elif k == 'paired':
        R[list(a[0]), list(a[1])] = list(a[2])
    elif k == 'mask':
        R[R > a[0]] = a[1]
    elif k == 'append':
        R.append([list(x) for x in a[0]])
    elif k == 'iadd':
        R += a[0]
    return R


def observe(R):
    return dict(rows=[np.asarray(r).tolist() for r in R], flat=np.asarray(R.flatten()).tolist(), lengths=list(map(int, R.lengths)),
                starts=list(map(int, R.starts)), data=np.asarray(R._data).tolist(), elem=[np.asarray(R[i, 0]).ravel()[0] for i in range(len(R.lengths))],
                col0=rows_of(R[:, 0:1]), total=float(np.sum(R._data)), eq_self=bool((R == R).all()) if hasattr((R == R), 'all') else None)


def model_observe(rows):
    flat = np.concatenate(rows)
    lengths = [len(r) for r in rows]
    return dict(rows=[r.tolist() for r in rows], flat=flat.tolist(), lengths=lengths, starts=list(map(int, np.concatenate([[0], np.cumsum(lengths)[:-1]]))),
                data=flat.tolist(), elem=[r[0] for r in rows], col0=[r[0:1].tolist() for r in rows], total=float(flat.sum()), eq_self=True)


class History(Contract):
    key = 'enspara/ra/ra.py::RaggedArray[write-history]'

    def requires(self, L, A, G):
        ok = True
        if 'ra-empty-selection' in EXCL:
            rows = A['rows']
            for op in A['ops']:
                if op[0] == 'mask' and not any((r > op[1]).any() for r in rows):
                    ok = False          # listed finding: a mask that selects nothing
                rows = model_apply(rows, op)
        return [('outside-known-finding-classes', ok)]

    def ensures(self, L, A, N, R, G, V):
        out = []
        rows = A['rows']
        for k, (op, obs) in enumerate(zip(A['ops'], R)):
            rows = model_apply(rows, op)
            want = model_observe(rows)
            bad = [f for f in want if norm(obs[f]) != norm(want[f])]
            out.append(('after-op-%d-every-observer-agrees-with-the-model' % (k + 1), not bad))
            if bad:
                self.detail = (op, bad)
        return out


def run_history(kind, rows, ops, source=None):
    R = build(kind, rows)
    obs = []
    for op in ops:
        R = real_apply(R, op)
        obs.append(observe(R))
    return obs


class Operators(Contract):
    key = 'enspara/ra/ra.py::RaggedArray[operators]'

    def ensures(self, L, A, N, R, G, V):
        rows = A['rows']
        res, before, after, src_after = R
        out = [('operands-unchanged', before == after)]
        for name, got in res.items():
            if name == 'copy-never-aliases':
                out.append((name, got))
                continue
            f = OPS[name]
            want = [f(r).tolist() for r in rows]
            out.append(('%s-acts-element-wise-and-keeps-rows' % name, rows_of(got) == want and isinstance(got, ra.RaggedArray)))
        return out


OPS = {'add-scalar': lambda r: r + 3, 'mul-scalar': lambda r: r * 2, 'gt-scalar': lambda r: r > 15, 'eq-scalar': lambda r: r == 11,
       'add-self': lambda r: r + r, 'invert-gt': lambda r: ~(r > 15), 'sub-scalar': lambda r: r - 1, 'le-self': lambda r: r <= r}


def run_operators(kind, rows):
    R = build(kind, rows)
    before = observe(R)
    res = {'add-scalar': R + 3, 'mul-scalar': R * 2, 'gt-scalar': R > 15, 'eq-scalar': R == 11, 'add-self': R + R, 'invert-gt': ~(R > 15),
           'sub-scalar': R - 1, 'le-self': R <= R}
    after = observe(R)
    # building by copy never aliases the caller's data
    flat = np.concatenate(rows).copy()
    keep = flat.copy()
    R2 = ra.RaggedArray(flat, lengths=np.array([len(r) for r in rows]))
    R2[0, 0] = -99
    R3 = ra.RaggedArray([r.tolist() for r in rows])
    nested = [r.copy() for r in rows]
    R4 = ra.RaggedArray(nested)
    R4[0, 0] = -77
    ok_block = True
    if len(set(len(r) for r in rows)) == 1:
        # rectangular input given as one contiguous 2-d block, and slices of an equal-length ragged array: still copies
        blk = np.array([r for r in rows]); keepb = blk.copy()
        R5 = ra.RaggedArray(blk); R5[0, 0] = -55
        R6 = ra.RaggedArray(np.concatenate(rows).copy(), lengths=np.array([len(r) for r in rows]))
        before6 = observe(R6)
        S6 = R6[:]; S6[0, 0] = -66
        S7 = R6[0:1]; S7[0, 0] = -67
        T6 = R6 + 0; T6[0, 0] = -68
        ok_block = bool(np.array_equal(blk, keepb)) and observe(R6) == before6
    res['copy-never-aliases'] = bool(np.array_equal(flat, keep)) and all(np.array_equal(a, b) for a, b in zip(nested, rows)) and ok_block
    return res, before, after, None


def cases_writes(L, tier, seed):
    rnd = random.Random(seed)
    cH, cO = History(), Operators()
    for kind, rows in arrays(rnd, tier):
        if rows[0].ndim != 1 or rows[0].dtype.kind != 'i':
            continue
        n = len(rows)
        yield cO, run_operators, dict(kind=kind, rows=rows), ('operators', kind, [r.tolist() for r in rows])
        alphabet = [('elem', 0, 0, -5), ('elem', n - 1, -1, 77), ('row', 0, [9] * len(rows[0])), ('rowslice', 0, slice(0, 2), 8),
                    ('slice2', slice(None), slice(0, 1), 6), ('paired', (0, n - 1), (0, 0), (31, 32)), ('mask', 15, 0),
                    ('append', ((100, 101),)), ('iadd', 1000), ('rowslice', n - 1, slice(None), 4)]
        depth = 2 if tier == 'quick' else 3
        hist = [h for d in range(1, depth + 1) for h in itertools.product(alphabet, repeat=d)]
        if tier == 'quick':
            hist = hist[::2]
        for ops in hist:
            yield cH, run_history, dict(kind=kind, rows=rows, ops=list(ops)), ('history', kind, [r.tolist() for r in rows], [str(o) for o in ops])


def cases_helpers(L, tier, seed):
    """the index-arithmetic helpers under the same contracts the prover discharges (contracts/ra_index.py), concretely"""
    from contracts import ra_index as RI
    from enspara.ra import ra as ram
    cv, hn, sl = RI.ConvertFrom2d(), RI.HandleNegative(), RI.SliceToList()
    for lens in [(3, 2, 4), (2, 2), (1,), (4, 1, 3)]:
        lengths = np.array(lens)
        starts = np.append([0], np.cumsum(lengths)[:-1])
        n, mx = len(lens), max(lens)
        rs = list(itertools.product(range(-n, n), repeat=2))
        cs = list(itertools.product(range(-mx - 1, mx + 1), repeat=2))
        step = 3 if tier == 'quick' else 1
        for r in rs:
            for c in cs[::step]:
                yield cv, ram._convert_from_2d, dict(iis_ragged=(np.array(r), np.array(c)), lengths=lengths.copy(), starts=starts.copy(), error_check=True), ('convert', lens, r, c)
                yield hn, ram._handle_negative_indices, dict(first_dimension=np.array(r), second_dimension=np.array(c), lengths=lengths.copy(), starts=starts.copy()), ('negatives', lens, r, c)
        for s in slices(-n, n, (None, 1, 2, 3)):
            yield sl, ram._slice_to_list, dict(slice_func=s, length=n), ('slice', n, str(s))
        # the class method under the contracts the prover discharges for it (1-d elements)
        rows_d = [np.arange(s_, s_ + l_) * 10 + 1 for s_, l_ in zip(starts, lengths)]
        Rg = ra.RaggedArray(np.concatenate(rows_d), lengths=lengths.copy())
        gp = RI.GetItem('paired')
        for r in rs[::2]:
            for c in cs[::(5 if tier == 'quick' else 2)]:
                yield gp, (lambda self, iis: self[iis]), dict(self=Rg, iis=(np.array(r), np.array(c))), ('getitem-paired', lens, r, c)
        for rows_ in ([0], [n - 1, 0], list(range(n))[::-1]):
            for a_ in (None, 0, 1, -1):
                for b_ in (None, 1, 2, mx, -1):
                    g2 = RI.GetItem('rows-slice', a_ is None, b_ is None, exclude={'ra-2d-slice-empty-row'})
                    yield g2, (lambda self, iis: self[iis]), dict(self=Rg, iis=(np.array(rows_), slice(a_, b_))), ('getitem-rows-slice', lens, rows_, a_, b_)
        for ra_, rb_ in ((None, None), (0, n), (1, n), (-n, -1) if n > 1 else (0, 1), (0, 1)):
            for a_ in (None, 0, 1, -1):
                for b_ in (None, 1, mx, -1):
                    g3 = RI.GetItem('slice-slice', a_ is None, b_ is None, exclude={'ra-2d-slice-empty-row'}, row_none=(ra_ is None, rb_ is None))
                    yield g3, (lambda self, iis: self[iis]), dict(self=Rg, iis=(slice(ra_, rb_), slice(a_, b_))), ('getitem-slice-slice', lens, ra_, rb_, a_, b_)
        # a[lo:hi, cols]: row slice x column list (the (2, M) index-array form of _convert_from_2d)
        cv2 = RI.ConvertFrom2d(arr2d=True)
        for ra_, rb_ in ((None, None), (0, n), (1, n), (-n, -1) if n > 1 else (0, 1), (0, 1)):
            for cols_ in ([0], [-1], [0, 0], [0, -1, 0], [mx - 1], [min(lens) - 1, 0], [-min(lens)], [-mx], [mx], [0, mx - 1, 0]):
                g4 = RI.GetItemList(row_none=(ra_ is None, rb_ is None))
                yield g4, (lambda self, iis: self[iis]), dict(self=Rg, iis=(slice(ra_, rb_), list(cols_))), ('getitem-slice-list', lens, ra_, rb_, cols_)
            for col_ in (0, -1, mx - 1, min(lens) - 1, -min(lens), -mx, mx, min(lens)):
                g5 = RI.GetItemList(row_none=(ra_ is None, rb_ is None), int_column=True)
                yield g5, (lambda self, iis: self[iis]), dict(self=Rg, iis=(slice(ra_, rb_), int(col_))), ('getitem-slice-int', lens, ra_, rb_, col_)
        for r in rs[::3]:
            for c in cs[::(7 if tier == 'quick' else 3)]:
                yield cv2, ram._convert_from_2d, dict(iis_ragged=np.array([r, c]), lengths=lengths.copy(), starts=starts.copy(), error_check=True), ('convert-2-row-array', lens, r, c)
        il, isl = RI.IisFromList(), RI.IisFromSlices(exclude=EXCL | ({'ra-2d-slice-empty-row'} if PROP == 'C06' else set()))
        row_sels = [list(range(n)), [n - 1], [0, 0], list(range(n))[::-1], [n - 1, 0]]
        for rows_ in row_sels:
            for s in list(slices(-mx - 1, mx + 1, (None, 1, 2, 3)))[::(2 if tier == 'quick' else 1)]:
                yield isl, ram._get_iis_from_slices, dict(first_dimension_iis=list(rows_), second_dimension=s, lengths=lengths.copy()), ('iis-from-slices', lens, rows_, str(s))
            for cols_ in ([0], [0, 0], [0, mx - 1, 0]):
                yield il, ram._get_iis_from_list, dict(first_dimension=list(rows_), second_dimension=list(cols_)), ('iis-from-list', rows_, cols_)


def cases_setitem(L, tier, seed):
    """the write method under the contract the prover discharges for it (contracts/ra_setitem.py)"""
    from contracts import ra_setitem as RS
    sp = RS.SetItemPaired()

    def write(self, iis, value):
        self[iis] = value
    for lens in [(3, 2, 4), (2, 2), (1,), (4, 1, 3)]:
        lengths = np.array(lens)
        n, mx = len(lens), max(lens)
        rs = list(itertools.product(range(-n, n), repeat=2))
        cs = list(itertools.product(range(-mx - 1, mx + 1), repeat=2))
        for r in rs[::(2 if tier == 'quick' else 1)]:
            for c in cs[::(5 if tier == 'quick' else 1)]:
                Rg = ra.RaggedArray(np.arange(sum(lens)) * 10.0 + 1, lengths=lengths.copy())
                yield sp, write, dict(self=Rg, iis=(np.array(r), np.array(c)), value=-5.0), ('setitem-paired', lens, r, c)


def cases(L, tier, seed):
    yield from cases_helpers(L, tier, seed)
    if PROP == 'C06':
        yield from cases_setitem(L, tier, seed)
    if PROP == 'C05':
        yield from cases_reads(L, tier, seed)
    else:
        yield from cases_writes(L, tier, seed)


def replay(L, p):
    """replays the witness of a listed finding: {'rows': [[...]], 'idx': '<python literal / slice expression>'} or a write history"""
    m = p['inputs']
    rows = [np.array(r) for r in m['rows']]
    EXCL.clear()
    if 'ops' in m:
        ops = [eval(o, {'slice': slice}) for o in m['ops']]
        st, _ = bounded.runtime_check(History(), run_history, dict(kind=m.get('kind', 'nested'), rows=rows, ops=ops), L)
    else:
        idx = eval(m['idx'], {'slice': slice})
        R = build(m.get('kind', 'nested'), rows)
        st, _ = bounded.runtime_check(Read(), read, dict(R=R, rows=rows, idx=idx), L)
    return {'outcome': 'contract-held' if st == 'ok' else 'vacuous'}


if __name__ == '__main__':
    bounded.main(cases, replay, 'ragged arrays <= 4 rows x length 1..4; index grammar bounds [-6,6], steps None/2/-1; write histories depth 2 (quick) / 3')
