"""Bounded stand-in + replay driver for the clustering properties (C01, C02, C09, C10) on the real code.
Scope: data sets of <= 7 distinct points (1-D and 2-D, int and float, with deliberate distance ties), metrics
euclidean / manhattan / a user callable; every n_clusters in 1..n+1, radii from the data's own distance set,
cold and warm starts (every ordered pair / seeded subsets of frames), triangle shortcut on/off;
plus 'scale' cases (n >= 300 frames) that cross 8/16-bit index ranges.  NOT counted as proved."""
import sys, itertools, random
from pyvc import bounded
import numpy as np
from enspara.cluster import kcenters as KC, util as UT
from contracts import cluster as CC

ONLY = set(sum([a.split('=')[1].split(',') for a in sys.argv if a.startswith('--only=')], []))


def user_metric(X, y):
    return np.abs(np.asarray(X, dtype=float) - np.asarray(y, dtype=float)).sum(axis=1) * 0.5 + 0.0


def datasets(rnd, tier):
    out = [np.array([[0.], [8.], [4.], [2.], [6.]]), np.array([[0.], [1.], [3.], [7.]]),
           np.array([[0, 0], [0, 3], [4, 0], [4, 3], [2, 1]], dtype=float),
           np.array([[1], [5], [2], [9], [4], [7]], dtype=np.int32).astype(float),
           np.array([[8, 6], [2, 8], [7, 2], [1, 5], [4, 4], [5, 7]], dtype=float), np.array([[3.5]])]
    for _ in range(6 if tier == 'quick' else 40):
        n = rnd.randint(2, 7)
        pts = set()
        while len(pts) < n:
            pts.add((rnd.randint(0, 9), rnd.randint(0, 9)))
        out.append(np.array(sorted(pts, key=lambda p: rnd.random()), dtype=float))
    return out


def cases(L, tier, seed):
    rnd = random.Random(seed)
    metrics = ['euclidean', 'manhattan', user_metric]
    cI, cA, cF = CC.KCentersIteration(), CC.AssignToNearest(), CC.FindClusterCenters()
    for X in datasets(rnd, tier):
        n = len(X)
        for metric in metrics:
            dm = UT._get_distance_method(metric)
            table = np.array([dm(X, X[j]) for j in range(n)]).T
            radii = sorted(set(float(x) for x in table.flatten()))
            if not ONLY or 'kcenters' in ONLY:
                for ti in (False, True):
                    for nc in list(range(1, n + 2)):
                        yield CC.KCenters('n', 'cold'), KC.kcenters, dict(traj=X.copy(), distance_method=metric, n_clusters=nc, dist_cutoff=None, use_triangle_inequality=ti), ('kcenters', X.tolist(), str(metric)[:12], nc, None, ti)
                    for dc in radii[1:4] + radii[-2:]:
                        yield CC.KCenters('d', 'cold'), KC.kcenters, dict(traj=X.copy(), distance_method=metric, n_clusters=None, dist_cutoff=float(dc), use_triangle_inequality=ti), ('kcenters', X.tolist(), str(metric)[:12], None, float(dc), ti)
                        yield CC.KCenters('both', 'cold'), KC.kcenters, dict(traj=X.copy(), distance_method=metric, n_clusters=max(1, n // 2), dist_cutoff=float(dc), use_triangle_inequality=ti), ('kcenters', X.tolist(), str(metric)[:12], max(1, n // 2), float(dc), ti)
                        yield CC.KCenters('inf', 'cold'), KC.kcenters, dict(traj=X.copy(), distance_method=metric, n_clusters=np.inf, dist_cutoff=float(dc), use_triangle_inequality=ti), ('kcenters', X.tolist(), str(metric)[:12], 'inf', float(dc), ti)
                    # warm starts from frames of the data
                    subs = [list(p) for r in (1, 2) for p in itertools.permutations(range(n), r)][: (12 if tier == 'quick' else 60)]
                    for sub in subs:
                        for nc in (1, len(sub), len(sub) + 1, n):
                            yield CC.KCenters('n', 'warm'), KC.kcenters, dict(traj=X.copy(), distance_method=metric, n_clusters=nc, dist_cutoff=None, init_centers=X[sub].copy(), use_triangle_inequality=ti), ('kcenters-warm', X.tolist(), str(metric)[:12], nc, sub, ti)
            if not ONLY or 'assign' in ONLY:
                for r in (1, 2, 3):
                    for sub in list(itertools.permutations(range(n), min(r, n)))[:10]:
                        C = X[list(sub)].copy()
                        yield cA, UT.assign_to_nearest_center, dict(trajectory=X.copy(), cluster_centers=C, distance_method=dm), ('assign', X.tolist(), list(sub))
                        a, d = UT.assign_to_nearest_center(X, C, dm)
                        yield cF, UT.find_cluster_centers, dict(assignments=a.copy(), distances=d.copy()), ('find', a.tolist(), d.tolist())
                # more centres than frames, centres not in the data
                C = np.vstack([X + 0.25, X - 0.5])
                yield cA, UT.assign_to_nearest_center, dict(trajectory=X.copy(), cluster_centers=C, distance_method=dm), ('assign-many', X.tolist())
    if not ONLY or 'find' in ONLY:
        for n in range(1, 6):
            for lab in itertools.product(range(3), repeat=n):
                d = np.array([((7 * i + 3 * l) % 5) / 2.0 for i, l in enumerate(lab)])
                yield cF, UT.find_cluster_centers, dict(assignments=np.array(lab), distances=d), ('find', list(lab), d.tolist())
    if not ONLY or 'scale' in ONLY:
        # index ranges beyond 8 bits: 300 frames, few centres (center index > 255 must survive)
        X = np.arange(300, dtype=float)[:, None] * 1.0
        X[::7] += 0.25
        dm = UT._get_distance_method('euclidean')
        C = X[[299, 280, 3]].copy()
        yield cA, UT.assign_to_nearest_center, dict(trajectory=X.copy(), cluster_centers=C, distance_method=dm), ('assign-scale', 300)
        a, d = UT.assign_to_nearest_center(X, C, dm)
        yield cF, UT.find_cluster_centers, dict(assignments=a, distances=d), ('find-scale', 300)
        yield CC.KCenters('n', 'warm'), KC.kcenters, dict(traj=X.copy(), distance_method='euclidean', n_clusters=4, dist_cutoff=None, init_centers=C, use_triangle_inequality=False), ('kcenters-warm-scale', 300)


def frac(v):
    if v == 'inf':
        return float('inf')
    return v[0] / v[1] if isinstance(v, list) else float(v)


def replay(L, p):
    m, key = p['inputs'], p['key']
    n = int(m.get('n', 0))
    T = np.array([[frac(x) for x in row] for row in m.get('table', [])]) if m.get('table') else None
    X = np.arange(max(n, 1), dtype=float)[:, None]

    def table_metric(Xs, y):       # a user callable is inside the property's quantifier
        return np.array([T[int(x[0]), int(np.ravel(y)[0])] for x in np.atleast_2d(Xs)], dtype=float)
    if key.endswith('::kcenters'):
        cfg, start = p.get('cfg', 'both'), p.get('start', 'cold')
        args = dict(traj=X[:n], distance_method=table_metric, use_triangle_inequality=bool(m.get('use_ti', False)))
        args['n_clusters'] = {'both': int(m['n_clusters']) if not isinstance(m['n_clusters'], str) else 1, 'n': int(m['n_clusters']) if not isinstance(m['n_clusters'], str) else 1, 'd': None, 'inf': np.inf}[cfg]
        args['dist_cutoff'] = None if cfg == 'n' else frac(m['dist_cutoff'])
        if start == 'warm':
            k0 = int(m['k0'])
            args['init_centers'] = X[[int(i) for i in m['init_pos'][:k0]]].copy()
        st, _ = bounded.runtime_check(CC.KCenters(cfg, start), KC.kcenters, args, L)
        return {'outcome': 'contract-held' if st == 'ok' else 'vacuous', 'args': bounded.jsonable(args)}
    if key.endswith('_kcenters_iteration'):
        k = int(m['k'])
        args = dict(traj=X[:n], distance_method=table_metric, distances=np.array([frac(x) for x in m['dist0'][:n]]),
                    assignments=np.array([int(x) for x in m['asg0'][:n]]), center_inds=[int(x) for x in m['ctr0'][:k]],
                    use_triangle_inequality=bool(m['use_ti']))
        st, _ = bounded.runtime_check(CC.KCentersIteration(), KC._kcenters_iteration, args, L)
        return {'outcome': 'contract-held' if st == 'ok' else 'vacuous'}
    if key.endswith('find_cluster_centers'):
        args = dict(assignments=np.array([int(x) for x in m['assignments']]), distances=np.array([frac(x) for x in m['distances']]))
        st, _ = bounded.runtime_check(CC.FindClusterCenters(), UT.find_cluster_centers, args, L)
        return {'outcome': 'contract-held' if st == 'ok' else 'vacuous'}
    return {'outcome': 'error', 'detail': 'no replay recipe for ' + key}


if __name__ == '__main__':
    bounded.main(cases, replay, 'data sets <= 7 distinct points + scale case 300 frames; 3 metrics; all n_clusters 1..n+1; radii from the distance set; cold/warm; shortcut on/off')
