"""Bounded stand-in + replay for C10 bookkeeping on the real code (NOT counted as proved)."""
import sys, itertools, random
from pyvc import bounded
import numpy as np
from enspara import ra
from enspara.cluster import util as UT, kcenters as KC
from contracts import ra_partition as RP, cluster_glue as CG


def cases(L, tier, seed):
    rnd = random.Random(seed)
    cI, cL = RP.PartitionIndices(), RP.PartitionList()
    lens_all = [list(l) for r in (1, 2, 3, 4) for l in itertools.product(range(0, 4), repeat=r)]
    if tier == 'quick':
        lens_all = lens_all[::3]
    for lens in lens_all:
        tot = sum(lens)
        xs = np.arange(tot) * 10 + 1
        yield cL, ra.partition_list, dict(list_to_partition=xs.copy(), partition_lengths=list(lens)), ('partition_list', lens)
        yield cL, ra.partition_list, dict(list_to_partition=np.arange(tot + 1), partition_lengths=list(lens)), ('partition_list-mismatch', lens)
        idxs = [list(p) for r in (1, 2, 3) for p in itertools.product(range(tot), repeat=r)][:40]
        for idx in idxs:
            yield cI, ra.partition_indices, dict(indices=list(idx), traj_lengths=list(lens)), ('partition_indices', idx, lens)
    # ClusterResult.partition and predict through the real estimator
    cP, cR = CG.PartitionResult(), CG.Predict()
    for lens in [l for l in lens_all if all(x >= 1 for x in l)][:60] + [[1, 1, 1], [5, 5], [300, 2, 40]]:
        n = sum(lens)
        X = np.array([[(7 * i) % 23 + 0.5 * i] for i in range(n)], dtype=float)
        res = KC.kcenters(X, 'euclidean', n_clusters=min(3, n))
        yield cP, UT.ClusterResult.partition, dict(self=res, lengths=list(lens)), ('ClusterResult.partition', lens)
        est = KC.KCenters('euclidean', n_clusters=min(3, n))
        est.fit(X)
        Y = X[::-1] + 0.3
        yield cR, UT.MolecularClusterMixin.predict, dict(self=est, X=Y), ('predict', lens)


def replay(L, p):
    m, key = p['inputs'], p['key']
    if key.endswith('partition_indices'):
        args = dict(indices=[int(x) for x in m['indices']], traj_lengths=[int(x) for x in m['traj_lengths']])
        st, _ = bounded.runtime_check(RP.PartitionIndices(), ra.partition_indices, args, L)
    elif key.endswith('partition_list'):
        args = dict(list_to_partition=np.array([int(x) for x in m['list_to_partition']]), partition_lengths=[int(x) for x in m['partition_lengths']])
        st, _ = bounded.runtime_check(RP.PartitionList(), ra.partition_list, args, L)
    else:
        import importlib
        mod = importlib.import_module('bounded.cluster') if False else None
        sys.argv = [sys.argv[0]]
        from bounded import cluster as BC
        return BC.replay(L, p)
    return {'outcome': 'contract-held' if st == 'ok' else 'vacuous'}


if __name__ == '__main__':
    bounded.main(cases, replay, 'length vectors <= 4 trajectories of length 0..3; index lists <= 3; ClusterResult.partition / predict on fitted KCenters incl. a 342-frame case')
