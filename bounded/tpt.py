"""Bounded stand-in for C07 / C08 on the real enspara.tpt (NOT counted as proved).
Scope: irreducible row-stochastic matrices with 3..5 states (reversible and not; enumerated ring/birth-death families + seeded),
every disjoint non-empty source/sink pair of sizes (1,1), (1,2), (2,1), (2,2); dense ndarray and csr/lil sparse; lag times 1 and 3.5."""
import sys, itertools, random
from pyvc import bounded
import numpy as np
import scipy.sparse as sp
from enspara.tpt import core as C, tpt as TP
from contracts import tpt_rt as RT

ONLY = set(sum([a.split('=')[1].split(',') for a in sys.argv if a.startswith('--only=')], []))


def matrices(rnd, tier):
    out = []
    for n in (3, 4, 5):
        # reversible: random symmetric weights
        for _ in range(2 if tier == 'quick' else 12):
            W = np.array([[rnd.choice([0, 1, 2, 5]) for _ in range(n)] for _ in range(n)], dtype=float)
            W = W + W.T
            for i in range(n):
                W[i, (i + 1) % n] += 1; W[(i + 1) % n, i] += 1
            out.append(W / W.sum(axis=1)[:, None])
        # non-reversible
        for _ in range(2 if tier == 'quick' else 12):
            W = np.array([[rnd.choice([0, 0, 1, 3]) for _ in range(n)] for _ in range(n)], dtype=float)
            for i in range(n):
                W[i, (i + 1) % n] += 1
            out.append(W / W.sum(axis=1)[:, None])
    out.append(np.array([[0.9, 0.1, 0, 0, 0], [0.1, 0.8, 0.1, 0, 0], [0, 1e-4, 0.9998, 1e-4, 0], [0, 0, 0.1, 0.8, 0.1], [0, 0, 0, 0.1, 0.9]]))   # high barrier
    # rare events: all reactive fluxes are tiny (below any absolute "round-off" threshold one might be tempted to apply)
    e = 1e-7
    out.append(np.array([[1 - e, e, 0, 0], [e, 1 - 2 * e, e, 0], [0, e, 1 - 2 * e, e], [0, 0, e, 1 - e]]))
    # two strongly coupled intermediates with nearly equal committors (nearly balanced edge between them)
    out.append(np.array([[0.99, 0.01, 0, 0], [0.001, 0.499, 0.5, 0], [0, 0.5, 0.499, 0.001], [0, 0, 0.01, 0.99]]))
    return out


def relational(T):
    n = len(T)
    table = C.mfpts(T)
    singles = [C.mfpts(T, sinks=[j]) for j in range(n)]
    table3 = C.mfpts(T, lagtime=3.5)
    qd = C.committors(T, [0], [n - 1])
    qs = C.committors(sp.csr_matrix(T), [0], [n - 1])
    td = C.mfpts(T, sinks=[0, 1])
    return table, singles, table3, qd, qs, td


def cases(L, tier, seed):
    rnd = random.Random(seed)
    for T in matrices(rnd, tier):
        n = len(T)
        pairs = []
        for a in (1, 2):
            for b in (1, 2):
                for so in itertools.combinations(range(n), a):
                    for si in itertools.combinations([x for x in range(n) if x not in so], b):
                        pairs.append((list(so), list(si)))
        if tier == 'quick':
            pairs = pairs[::3]
        w, v = np.linalg.eig(T.T)
        pi = np.real(v[:, np.argmax(np.real(w))]); pi = pi / pi.sum()
        for so, si in pairs:
            for ctor, nm in ((np.array, 'ndarray'), (sp.csr_matrix, 'csr'), (sp.lil_matrix, 'lil')):
                if not ONLY or 'C07' in ONLY:
                    yield RT.Committors(), C.committors, dict(tprob=ctor(T), sources=list(so), sinks=list(si)), ('committors', T.round(4).tolist(), so, si, nm)
                if not ONLY or 'C08' in ONLY:
                    for pops in (None, pi.copy()):
                        yield RT.ReactiveFluxes(), TP.reactive_fluxes, dict(tprob=ctor(T), sources=list(so), sinks=list(si), populations=pops), ('reactive_fluxes', T.round(4).tolist(), so, si, nm, pops is not None)
                        yield RT.ReactivePopulations(), TP.reactive_populations, dict(tprob=ctor(T), sources=list(so), sinks=list(si), populations=pops), ('reactive_populations', T.round(4).tolist(), so, si, nm, pops is not None)
                        yield RT.NetFluxes(), TP.net_fluxes, dict(tprob=ctor(T), sources=list(so), sinks=list(si), populations=pops), ('net_fluxes', T.round(4).tolist(), so, si, nm, pops is not None)
            if not ONLY or 'C07' in ONLY:
                for lag in (1.0, 3.5):
                    yield RT.Mfpts(), C.mfpts, dict(tprob=T.copy(), sinks=list(si), lagtime=lag), ('mfpts-sinks', T.round(4).tolist(), si, lag)
        if not ONLY or 'C07' in ONLY:
            yield RT.Mfpts(), C.mfpts, dict(tprob=T.copy(), lagtime=2.0), ('mfpts-table', T.round(4).tolist())
            yield RT.Mfpts(), C.mfpts, dict(tprob=np.asmatrix(T.copy())), ('mfpts-table-npmatrix', T.round(4).tolist())
            yield RT.Relational(), relational, dict(T=T.copy()), ('relational', T.round(4).tolist())


def replay(L, p):
    return {'outcome': 'error', 'detail': 'no symbolic obligations to replay yet'}


if __name__ == '__main__':
    bounded.main(cases, replay, 'irreducible stochastic matrices 3..5 states (reversible / non-reversible / high barrier); all disjoint source/sink sets of sizes 1-2; ndarray, csr, lil; lags 1, 3.5')
