"""Bounded stand-in for C07 / C08 on the real enspara.tpt (NOT counted as proved).
Scope: irreducible row-stochastic matrices with 3..5 states (reversible and not; enumerated ring/birth-death families + seeded),
every disjoint non-empty source/sink pair of sizes (1,1), (1,2), (2,1), (2,2); dense ndarray and csr/lil sparse; lag times 1 and 3.5."""
import sys, itertools, random
from pyvc import bounded
import numpy as np
import scipy.sparse as sp
from enspara.tpt import core as C, tpt as TP
from contracts import tpt_rt as RT

ONLY = set(sum([a.split('=')[1].split(',') for a in sys.argv if a.startswith('--only=')], []))


def matrices(rnd, tier):
    out = []
    for n in (3, 4, 5):
        # reversible: random symmetric weights
        for _ in range(2 if tier == 'quick' else 12):
            W = np.array([[rnd.choice([0, 1, 2, 5]) for _ in range(n)] for _ in range(n)], dtype=float)
            W = W + W.T
            for i in range(n):
                W[i, (i + 1) % n] += 1; W[(i + 1) % n, i] += 1
            out.append(W / W.sum(axis=1)[:, None])
        # non-reversible
        for _ in range(2 if tier == 'quick' else 12):
            W = np.array([[rnd.choice([0, 0, 1, 3]) for _ in range(n)] for _ in range(n)], dtype=float)
            for i in range(n):
                W[i, (i + 1) % n] += 1
            out.append(W / W.sum(axis=1)[:, None])
    out.append(np.array([[0.9, 0.1, 0, 0, 0], [0.1, 0.8, 0.1, 0, 0], [0, 1e-4, 0.9998, 1e-4, 0], [0, 0, 0.1, 0.8, 0.1], [0, 0, 0, 0.1, 0.9]]))   # high barrier
    # rare events: all reactive fluxes are tiny (below any absolute "round-off" threshold one might be tempted to apply)
    e = 1e-7
    out.append(np.array([[1 - e, e, 0, 0], [e, 1 - 2 * e, e, 0], [0, e, 1 - 2 * e, e], [0, 0, e, 1 - e]]))
    # two strongly coupled intermediates with nearly equal committors (nearly balanced edge between them)
    out.append(np.array([[0.99, 0.01, 0, 0], [0.001, 0.499, 0.5, 0], [0, 0.5, 0.499, 0.001], [0, 0, 0.01, 0.99]]))
    # dyadic matrices (entries k/16): exactly representable and exactly row-stochastic in float32 as well
    for n in (3, 4):
        for _ in range(2 if tier == 'quick' else 8):
            W = np.zeros((n, n))
            for i in range(n):
                W[i, (i + 1) % n] += 1; W[i, (i - 1) % n] += 1
                for _k in range(14):
                    W[i, rnd.randrange(n)] += 1
            out.append(W / 16.0)
    # a metastable chain whose entries are exact in single precision too (powers of two): mfpts ~ 2^20 lag times
    a, b_ = 2.0 ** -20, 2.0 ** -12
    out.append(np.array([[1 - a, a, 0, 0], [b_, 1 - 2 * b_, b_, 0], [0, b_, 1 - 2 * b_, b_], [0, 0, a, 1 - a]]))
    # birth-death chains with alternating fast / slow rates (all powers of two: exact in single precision as well)
    for ks in ([(12, 3), (3, 12), (12, 3), (3, 12), (12, 3)], [(10, 4), (4, 9), (11, 3), (3, 12), (8, 5), (6, 7)]):
        n_ = len(ks) + 1
        Tb = np.zeros((n_, n_))
        for i, k in enumerate(ks):
            Tb[i, i + 1] += 2.0 ** -k[0]; Tb[i + 1, i] += 2.0 ** -k[1]
        for i in range(n_):
            Tb[i, i] = 1 - Tb[i].sum()
        out.append(Tb)
    # periodic irreducible chains: eigenvalues of modulus one other than 1 (-1, roots of unity)
    cyc = np.zeros((5, 5))
    for i in range(5):
        cyc[i, (i + 1) % 5] = 1.0
    out.append(cyc)
    out.append(np.array([[0, 1, 0, 0], [1 / 3, 0, 2 / 3, 0], [0, 2 / 3, 0, 1 / 3], [0, 0, 1, 0]]))          # Ehrenfest urn, period 2
    out.append(np.array([[0, 0.5, 0.5, 0, 0, 0], [0, 0, 0, 0.3, 0.7, 0], [0, 0, 0, 0.6, 0.4, 0], [0, 0, 0, 0, 0, 1.0], [0, 0, 0, 0, 0, 1.0], [1.0, 0, 0, 0, 0, 0]]))   # period 3
    return out


def relational(T):
    n = len(T)
    table = C.mfpts(T)
    singles = [C.mfpts(T, sinks=[j]) for j in range(n)]
    table3 = C.mfpts(T, lagtime=3.5)
    qd = C.committors(T, [0], [n - 1])
    qs = C.committors(sp.csr_matrix(T), [0], [n - 1])
    td = C.mfpts(T, sinks=[0, 1])
    return table, singles, table3, qd, qs, td


def cases(L, tier, seed):
    rnd = random.Random(seed)
    for T in matrices(rnd, tier):
        n = len(T)
        dyadic = bool(np.array_equal(T.astype(np.float32).astype(float), T)) and abs(T.astype(np.float32).sum(axis=1) - 1).max() == 0
        pairs = []
        for a in (1, 2):
            for b in (1, 2):
                for so in itertools.combinations(range(n), a):
                    for si in itertools.combinations([x for x in range(n) if x not in so], b):
                        pairs.append((list(so), list(si)))
        if tier == 'quick':
            pairs = pairs[::3]
        w, v = np.linalg.eig(T.T)
        pi = np.real(v[:, np.argmax(np.real(w))]); pi = pi / pi.sum()
        for so, si in pairs:
            ctors = [(np.array, 'ndarray'), (sp.csr_matrix, 'csr'), (sp.lil_matrix, 'lil'), (np.asfortranarray, 'fortran-order')]
            if dyadic:      # single precision input only where it represents the same (exactly stochastic) matrix
                ctors += [((lambda M: np.asarray(M, dtype=np.float32)), 'float32'), ((lambda M: sp.csr_matrix(M, dtype=np.float32)), 'csr-float32')]
            for ctor, nm in ctors:
                if not ONLY or 'C07' in ONLY:
                    yield RT.Committors(), C.committors, dict(tprob=ctor(T), sources=list(so), sinks=list(si)), ('committors', T.round(4).tolist(), so, si, nm)
                if not ONLY or 'C08' in ONLY:
                    for pops in (None, pi.copy()):
                        if pops is None and 'float32' in nm:
                            continue        # stationary vector from a single-precision eigen-solve: 1e-8 accuracy by construction, not the code under test
                        yield RT.ReactiveFluxes(), TP.reactive_fluxes, dict(tprob=ctor(T), sources=list(so), sinks=list(si), populations=pops), ('reactive_fluxes', T.round(4).tolist(), so, si, nm, pops is not None)
                        yield RT.ReactivePopulations(), TP.reactive_populations, dict(tprob=ctor(T), sources=list(so), sinks=list(si), populations=pops), ('reactive_populations', T.round(4).tolist(), so, si, nm, pops is not None)
                        yield RT.NetFluxes(), TP.net_fluxes, dict(tprob=ctor(T), sources=list(so), sinks=list(si), populations=pops), ('net_fluxes', T.round(4).tolist(), so, si, nm, pops is not None)
            if not ONLY or 'C07' in ONLY:
                for lag in (1.0, 3.5):
                    yield RT.Mfpts(), C.mfpts, dict(tprob=T.copy(), sinks=list(si), lagtime=lag), ('mfpts-sinks', T.round(4).tolist(), si, lag)
                if dyadic:
                    yield RT.Mfpts(), C.mfpts, dict(tprob=T.astype(np.float32), sinks=list(si), lagtime=2.0), ('mfpts-sinks-float32', T.round(4).tolist(), si)
        if not ONLY or 'C07' in ONLY:
            yield RT.Mfpts(), C.mfpts, dict(tprob=T.copy(), lagtime=2.0), ('mfpts-table', T.round(4).tolist())
            yield RT.Mfpts(), C.mfpts, dict(tprob=np.asmatrix(T.copy())), ('mfpts-table-npmatrix', T.round(4).tolist())
            # same numbers, other memory layouts (column-major copy, transposed view of the column-stochastic matrix, strided view)
            big = np.zeros((2 * n, 2 * n)); big[::2, ::2] = T
            for nm, M in (('fortran-order', np.asfortranarray(T)), ('transposed-view', np.ascontiguousarray(T.T).T), ('strided-view', big[::2, ::2])):
                yield RT.Mfpts(), C.mfpts, dict(tprob=M, lagtime=2.0), ('mfpts-table-' + nm, T.round(4).tolist())
                yield RT.Mfpts(), C.mfpts, dict(tprob=M, sinks=[n - 1], lagtime=2.0), ('mfpts-sinks-' + nm, T.round(4).tolist())
            yield RT.Relational(), relational, dict(T=T.copy()), ('relational', T.round(4).tolist())


def replay(L, p):
    return {'outcome': 'error', 'detail': 'no symbolic obligations to replay yet'}


if __name__ == '__main__':
    bounded.main(cases, replay, 'irreducible stochastic matrices 3..5 states (reversible / non-reversible / high barrier); all disjoint source/sink sets of sizes 1-2; ndarray, csr, lil; lags 1, 3.5')
