"""Bounded stand-in for C12 on the real _prinz_mle_py and the compiled libmsm._mle_prinz_dense (NOT counted as proved).
Scope: strongly connected count matrices with 2..4 states: enumerated small-integer matrices, seeded integer / real matrices,
symmetric and strongly asymmetric, with zeros and self-counts; both implementations and their agreement."""
import sys, itertools, random, warnings
from pyvc import bounded
import numpy as np
from enspara.msm import builders as B
from contracts import builders_rt as RT
from pyvc.spec import Contract


class Agree(Contract):
    key = 'enspara/msm/builders.py::[compiled-vs-python]'

    def requires(self, L, A, G):
        return RT.PrinzMLE('x').requires(L, A, G)

    def ensures(self, L, A, N, R, G, V):
        (T1, p1), (T2, p2) = R
        return [('same-transition-matrix', bool(np.allclose(np.asarray(T1), np.asarray(T2), atol=1e-6))),
                ('same-populations', bool(np.allclose(np.asarray(p1).flatten(), np.asarray(p2).flatten(), atol=1e-6)))]


def both(C):
    return B._prinz_mle_py(np.array(C, dtype=float)), B._prinz_mle(np.array(C, dtype=float))


def matrices(rnd, tier):
    out = []
    vals = (0, 1, 3)
    for flat in itertools.product(vals, repeat=4):
        out.append(np.array(flat).reshape(2, 2))
    for flat in list(itertools.product((0, 1, 4), repeat=9))[::(101 if tier == "quick" else 5)]:
        out.append(np.array(flat).reshape(3, 3))
    for _ in range(25 if tier == "quick" else 600):
        n = rnd.choice([2, 3, 4])
        if rnd.random() < 0.5:
            M = np.array([[rnd.choice([0, 0, 1, 2, 7, 30]) for _ in range(n)] for _ in range(n)], dtype=float)
        else:
            M = np.array([[rnd.choice([0.0, rnd.uniform(0, 5), rnd.uniform(0, 100)]) for _ in range(n)] for _ in range(n)])
        for i in range(n):
            M[i, (i + 1) % n] += rnd.choice([1, 0.01, 50])
        out.append(M)
    return out


def cases(L, tier, seed):
    rnd = random.Random(seed)
    for C in matrices(rnd, tier):
        yield RT.PrinzMLE('_prinz_mle_py'), B._prinz_mle_py, dict(C=np.array(C, dtype=float)), ('_prinz_mle_py', C.tolist())
        yield RT.PrinzMLE('_prinz_mle'), B._prinz_mle, dict(C=np.array(C, dtype=float)), ('_prinz_mle(compiled)', C.tolist())
        yield Agree(), both, dict(C=np.array(C, dtype=float)), ('agreement', C.tolist())
        yield RT.Builder('mle'), B.mle, dict(C=np.array(C, dtype=float)), ('mle', C.tolist())


def replay(L, p):
    return {'outcome': 'error', 'detail': 'no symbolic obligations to replay for C12 yet'}


if __name__ == '__main__':
    bounded.main(cases, replay, 'strongly connected count matrices 2..4 states (enumerated small-integer + seeded integer/real); python and compiled estimators')
