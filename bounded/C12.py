"""Bounded stand-in for C12 on the real _prinz_mle_py and the compiled libmsm._mle_prinz_dense (NOT counted as proved).
Scope: strongly connected count matrices with 2..4 states: enumerated small-integer matrices, seeded integer / real matrices,
symmetric and strongly asymmetric, with zeros and self-counts; both implementations and their agreement."""
import sys, itertools, random, warnings
from pyvc import bounded
import numpy as np
from enspara.msm import builders as B
from contracts import builders_rt as RT
from pyvc.spec import Contract


class Agree(Contract):
    key = 'enspara/msm/builders.py::[compiled-vs-python]'

    def requires(self, L, A, G):
        return RT.PrinzMLE('x').requires(L, A, G)

    def ensures(self, L, A, N, R, G, V):
        (T1, p1), (T2, p2) = R
        return [('same-transition-matrix', bool(np.allclose(np.asarray(T1), np.asarray(T2), atol=1e-6))),
                ('same-populations', bool(np.allclose(np.asarray(p1).flatten(), np.asarray(p2).flatten(), atol=1e-6)))]


def both(C):
    return B._prinz_mle_py(np.array(C, dtype=float)), B._prinz_mle(np.array(C, dtype=float))


def matrices(rnd, tier):
    out = []
    vals = (0, 1, 3)
    for flat in itertools.product(vals, repeat=4):
        out.append(np.array(flat).reshape(2, 2))
    for flat in list(itertools.product((0, 1, 4), repeat=9))[::(101 if tier == "quick" else 5)]:
        out.append(np.array(flat).reshape(3, 3))
    for _ in range(25 if tier == "quick" else 600):
        n = rnd.choice([2, 3, 4])
        if rnd.random() < 0.5:
            M = np.array([[rnd.choice([0, 0, 1, 2, 7, 30]) for _ in range(n)] for _ in range(n)], dtype=float)
        else:
            M = np.array([[rnd.choice([0.0, rnd.uniform(0, 5), rnd.uniform(0, 100)]) for _ in range(n)] for _ in range(n)])
        for i in range(n):
            M[i, (i + 1) % n] += rnd.choice([1, 0.01, 50])
        out.append(M)
    # a state whose counts all sit on a single neighbour pair, without self-counts (c = 0 in the pair quadratic)
    out += [np.array([[0., 3., 0.], [2., 5., 4.], [0., 1., 8.]]), np.array([[5., 1.], [4., 0.]]), np.array([[0., 2., 0., 0.], [3., 1., 2., 0.], [0., 2., 2., 3.], [0., 0., 4., 0.]])]
    # large counts with dominant self-counts: the convergence test must not scale with the data
    base = np.array([[1000., 3., 1.], [2., 800., 5.], [1., 4., 1200.]])
    for sc in (1.0, 2e3, 2e6, 2e9, 1e-6, 1e-11, 1e-14):
        out.append(base * sc)
    # real-valued counts in very small units (weights, normalised tallies): the estimate must not depend on the unit
    small = np.array([[0.0, 3.0, 1.0], [2.0, 5.0, 4.0], [1.0, 1.0, 8.0]])
    for sc in (1e-9, 1e-12):
        out.append(small * sc)
    return out


def cases(L, tier, seed):
    rnd = random.Random(seed)
    for C in matrices(rnd, tier):
        yield RT.PrinzMLE('_prinz_mle_py'), B._prinz_mle_py, dict(C=np.array(C, dtype=float)), ('_prinz_mle_py', C.tolist())
        yield RT.PrinzMLE('_prinz_mle'), B._prinz_mle, dict(C=np.array(C, dtype=float)), ('_prinz_mle(compiled)', C.tolist())
        yield Agree(), both, dict(C=np.array(C, dtype=float)), ('agreement', C.tolist())
        yield RT.Builder('mle'), B.mle, dict(C=np.array(C, dtype=float)), ('mle', C.tolist())
        if np.array_equal(C, np.round(C)) and C.max() <= 60:
            import scipy.sparse as sp
            Ci = C.astype(int)
            yield RT.Builder('mle'), B.mle, dict(C=sp.csr_matrix(Ci)), ('mle-csr', C.tolist())
            # one stored entry per observed transition (what assigns_to_counts returns): duplicate coordinates are summed by SciPy
            r, cc = np.nonzero(Ci)
            rows = np.repeat(r, Ci[r, cc]); cols = np.repeat(cc, Ci[r, cc])
            yield RT.Builder('mle'), B.mle, dict(C=sp.coo_matrix((np.ones(len(rows), dtype=int), (rows, cols)), shape=Ci.shape)), ('mle-coo-duplicates', C.tolist())
            if not all(ok for _, ok in RT.Builder('mle').requires(L, dict(C=np.array(C, dtype=float)), None)):
                continue            # outside the estimator's domain (not strongly connected): nothing to compare
            try:
                ref = B.mle(np.array(C, dtype=float))
            except Exception:
                continue            # outside the estimator's domain (reported by the dense case above if it matters)
            dup = sp.coo_matrix((np.ones(len(rows), dtype=int), (rows, cols)), shape=Ci.shape)
            for cont, nm in ((sp.csr_matrix(Ci), 'csr'), (sp.lil_matrix(Ci), 'lil'), (dup, 'coo-duplicates')):
                yield RT.BuilderAgreement(), (lambda reference, M: B.mle(M)), dict(reference=ref, M=cont), ('mle-container-agreement', nm, C.tolist())


def replay(L, p):
    return {'outcome': 'error', 'detail': 'no symbolic obligations to replay for C12 yet'}


if __name__ == '__main__':
    bounded.main(cases, replay, 'strongly connected count matrices 2..4 states (enumerated small-integer + seeded integer/real); python and compiled estimators')
