"""Bounded stand-in for C18 (and the heap-history part of C19) on the real enspara.info_theory (NOT counted as proved).
Scope: feature trajectories with <= 3 features, <= 3 states, <= 6 frames (enumerated stride + seeded), all integer dtypes,
C / Fortran / strided layouts, OpenMP threads {1, 4, 16}; out-of-range and negative state ids, length mismatches;
every routine is also called a second time after the heap was dirtied with NaN blocks of the result size (C19)."""
import sys, itertools, random, ctypes
from pyvc import bounded
import numpy as np
from enspara.info_theory import mutual_info as MI, entropy as EN, libinfo as LI
from contracts import info_rt as RT
from pyvc.spec import Contract

try:
    _gomp = ctypes.CDLL('libgomp.so.1')
except OSError:
    _gomp = None


def dirty_heap(nbytes_list):
    """allocate and free NaN-filled blocks of the given sizes so a later np.empty-style allocation may reuse them"""
    blocks = []
    for nb in nbytes_list:
        for _ in range(6):
            a = np.full(max(1, nb // 8), np.nan)
            blocks.append(a)
    del blocks


def twice_with_dirty_heap(fn, sizes):
    def call(**kw):
        r1 = fn(**{k: (v.copy() if hasattr(v, 'copy') else v) for k, v in kw.items()})
        dirty_heap(sizes(kw, r1))
        r2 = fn(**kw)
        a, b = np.asarray(r1, dtype=float), np.asarray(r2, dtype=float)
        if a.shape != b.shape or not np.array_equal(a, b, equal_nan=False):
            raise AssertionError('result depends on heap history: %r vs %r' % (a.tolist(), b.tolist()))
        return r2
    return call


def threads(fn, n):
    def call(**kw):
        if _gomp is not None:
            _gomp.omp_set_num_threads(n)
        return fn(**kw)
    return call


def relational(X, n):
    nf = X.shape[1]
    base = MI.mutual_information(MI.joint_counts(X, n_x=n))
    perm = np.arange(n)[::-1]
    relabelled = MI.mutual_information(MI.joint_counts(perm[X], n_x=n))
    reordered = MI.mutual_information(MI.joint_counts(X[::-1].copy(), n_x=n))
    h = len(X) // 2
    Xs = [X[:h], X[h:]] if h >= 1 and len(X) - h >= 1 else [X]
    ns = np.full(nf, n)
    pooled = MI.mi_matrix(Xs, Xs, ns, ns, normalize=False)
    weighted = MI.weighted_mi(X, np.ones(len(X)) / len(X), n_feature_states=ns, normalize=False)
    return base, relabelled, reordered, pooled, base, weighted, np.clip(base, 0, None)


def layouts(X):
    yield 'C', np.ascontiguousarray(X)
    yield 'F', np.asfortranarray(X)
    big = np.zeros((X.shape[0] * 2, X.shape[1] * 2), dtype=X.dtype)
    big[::2, ::2] = X
    yield 'strided', big[::2, ::2]


def cases(L, tier, seed):
    rnd = random.Random(seed)
    data = []
    for nf, ns, T in ((1, 2, 4), (2, 2, 4), (2, 3, 5), (3, 3, 6)):
        for _ in range(3 if tier == 'quick' else 25):
            data.append((np.array([[rnd.randrange(ns) for _ in range(nf)] for _ in range(T)]), ns))
    data.append((np.array([[0, 1], [1, 0], [0, 1], [1, 0]]), 2))
    data.append((np.array([[0, 0, 2], [0, 0, 2], [0, 0, 2], [1, 0, 2]]), 3))       # a constant feature: zero-count cells
    dts = ['int8', 'int16', 'int32', 'int64', 'uint8', 'uint16', 'uint32', 'uint64']
    for X, n in data:
        for dt in (dts if tier != 'quick' else dts[::3] + ['int64']):
            for lname, Xl in layouts(X.astype(dt)):
                for th in (1, 4, 16) if lname == 'C' else (4,):
                    yield RT.JointCounts(), threads(MI.joint_counts, th), dict(X=Xl, n_x=n), ('joint_counts', X.tolist(), dt, lname, th)
            Y = ((X + 1) % n).astype(dt)
            yield RT.JointCounts(), MI.joint_counts, dict(X=X.astype(dt), Y=Y[:, :1].copy(), n_x=n, n_y=n + 1), ('joint_counts-xy', X.tolist(), dt)
        jc = MI.joint_counts(X.astype('int64'), n_x=n)
        yield RT.MILaws(), (lambda jc, self_pairs: twice_with_dirty_heap(MI.mutual_information, lambda kw, r: [kw['jc'].size * 8 // kw['jc'].shape[-1], kw['jc'].size * 8])(jc=jc)), dict(jc=jc, self_pairs=True), ('mutual_information', X.tolist(), n)
        yield RT.Relational(), relational, dict(X=X.copy(), n=n), ('relational', X.tolist(), n)
        ns = np.full(X.shape[1], n)
        yield RT.MILaws(), (lambda features, weights, n_feature_states, jc, self_pairs:
                            twice_with_dirty_heap(MI.weighted_mi, lambda kw, r: [np.asarray(r).size * 8 * n * n])(features=features, weights=weights, n_feature_states=n_feature_states, normalize=False)), \
            dict(features=X.copy(), weights=np.ones(len(X)) / len(X), n_feature_states=ns, jc=jc, self_pairs=False), ('weighted_mi', X.tolist(), n)
    # normalisation with different state counts on the two sides
    for nx, ny in (([2, 3], [2, 3, 4]), ([2, 4], [8, 8]), ([3, 3, 3], [3, 3, 3]), (2, [2, 5]), ([7, 2], 3)):
        r = len(nx) if hasattr(nx, '__len__') else (len(ny) if hasattr(ny, '__len__') else 2)
        c = len(ny) if hasattr(ny, '__len__') else (len(nx) if hasattr(nx, '__len__') else 2)
        mi = np.arange(1, r * c + 1, dtype=float).reshape(r, c) / 7
        yield RT.Normalization(), MI.channel_capacity_normalization, dict(mi=mi, n_x=nx, n_y=ny), ('normalization', nx, ny)
        from contracts import channelcap as CC
        yield CC.ChannelCapacity('run-time'), MI.channel_capacity_normalization, \
            dict(mi=mi.copy(), n_x=np.array(nx) if hasattr(nx, '__len__') else nx, n_y=np.array(ny) if hasattr(ny, '__len__') else ny), ('normalization-proved-contract', nx, ny)
    # rejected inputs
    X = np.array([[0, 1], [1, 2], [2, 0]])
    for bad, nm in ((np.array([[0, 1], [1, -1], [2, 0]]), 'negative-id'), (np.array([[0, 1], [1, 3], [2, 0]]), 'id-too-large'),
                    (np.array([[0, -3], [1, 1], [2, 0]], dtype='int8'), 'negative-id-int8')):
        yield RT.JointCounts(), MI.joint_counts, dict(X=bad, n_x=3), ('joint_counts-' + nm,)
        yield RT.JointCounts(), MI.joint_counts, dict(X=X, Y=bad, n_x=3, n_y=3), ('joint_counts-y-' + nm,)
    yield RT.JointCounts(), MI.joint_counts, dict(X=X, Y=X[:2].copy(), n_x=3, n_y=3), ('joint_counts-length-mismatch',)
    # a single feature on each side (1-d vectors and one-column matrices): the same rejections apply
    x1 = np.array([0, 1, 2, 1, 0])
    for dt in ('int32', 'int64'):
        for bad1, nm in ((np.array([0, 1, 3, 1, 0]), 'id-too-large'), (np.array([0, -1, 2, 1, 0]), 'negative-id'), (np.array([3, 1, 2, 1, 0]), 'id-too-large-first')):
            for shape in ('1d', 'column'):
                f = (lambda v: v.astype(dt)) if shape == '1d' else (lambda v: v.astype(dt)[:, None])
                yield RT.JointCounts(), MI.joint_counts, dict(X=f(x1), Y=f(bad1), n_x=3, n_y=3), ('joint_counts-single-y-' + nm, dt, shape)
                yield RT.JointCounts(), MI.joint_counts, dict(X=f(bad1), Y=f(x1), n_x=3, n_y=3), ('joint_counts-single-x-' + nm, dt, shape)
        yield RT.JointCounts(), MI.joint_counts, dict(X=x1.astype(dt), Y=x1[::-1].astype(dt).copy(), n_x=3, n_y=3), ('joint_counts-single-valid', dt)
        yield RT.JointCounts(), MI.joint_counts, dict(X=x1.astype(dt), Y=x1[:3].astype(dt).copy(), n_x=3, n_y=3), ('joint_counts-single-length-mismatch', dt)
    # entropy / relative entropy
    for p in ([0.5, 0.5], [1.0, 0.0], [0.2, 0.3, 0.5], [0.0, 0.25, 0.75, 0.0], [3, 1, 0, 4]):
        for norm in (True, False):
            pp = np.array(p, dtype=float)
            if not norm:
                pp = pp / pp.sum()
            yield RT.Entropy(), twice_with_dirty_heap(EN.shannon_entropy, lambda kw, r: [len(kw['p']) * 8]), dict(p=pp, normalize=norm), ('shannon_entropy', p, norm)
    dists = [np.array(x, dtype=float) for x in ([0.5, 0.5], [0.9, 0.1], [0.2, 0.3, 0.5], [0.5, 0.3, 0.2], [1 / 3, 1 / 3, 1 / 3])]
    for P in dists:
        for Q in dists:
            if len(P) == len(Q):
                yield RT.KL(), EN.kl_divergence, dict(P=P.copy(), Q=Q.copy()), ('kl', P.tolist(), Q.tolist())
    # Q misses part of P's support: the divergence is +inf there, never a finite negative number
    for P, Q in (([0.5, 0.5], [1.0, 0.0]), ([0.2, 0.3, 0.5], [0.5, 0.5, 0.0]), ([0.0, 1.0], [1.0, 0.0]), ([1.0, 0.0], [0.5, 0.5])):
        yield RT.KL(), EN.kl_divergence, dict(P=np.array(P), Q=np.array(Q)), ('kl-support', P, Q)
    yield RT.KL(), EN.kl_divergence, dict(P=np.array([[0.5, 0.5], [0.5, 0.5]]), Q=np.array([[1.0, 0.0], [0.5, 0.5]])), ('kl-rows-support',)
    M1 = np.array([[0.5, 0.5], [0.9, 0.1]]); M2 = np.array([[0.5, 0.5], [0.2, 0.8]])
    yield RT.KL(), EN.kl_divergence, dict(P=M1, Q=M2), ('kl-rows',)


def replay(L, p):
    m = p['inputs']
    key = p.get('key', 'matrix_bincount2d')
    if key in ('channel_capacity_normalization', '_validate_feature_states_array'):
        from contracts import channelcap as CC
        fr = lambda v: v[0] / v[1] if isinstance(v, list) else float(v)
        if key == 'channel_capacity_normalization':
            form = 'replay'
            args = dict(mi=np.array([[fr(v) for v in row] for row in m['mi']], dtype=float).reshape(len(m['mi']), -1),
                        n_x=np.array(m['n_x'], dtype=int) if isinstance(m['n_x'], list) else int(m['n_x']),
                        n_y=np.array(m['n_y'], dtype=int) if isinstance(m['n_y'], list) else int(m['n_y']))
            c, f = CC.ChannelCapacity(form), MI.channel_capacity_normalization
        else:
            form = 'array' if isinstance(m['n'], list) else 'scalar'
            args = dict(n=np.array(m['n'], dtype=int) if form == 'array' else int(m['n']), mi_dim=int(m['mi_dim']))
            c, f = CC.ValidateStates(form), MI._validate_feature_states_array
        st, _ = bounded.runtime_check(c, f, args, L)
        return {'outcome': 'contract-held' if st == 'ok' else 'vacuous', 'args': bounded.jsonable(args)}
    a = np.array(m['a'], dtype=np.int64); b = np.array(m['b'], dtype=np.int64)
    try:
        LI.matrix_bincount2d(a, b, int(m['n_a']), int(m['n_b']))
    except (AssertionError, ValueError, IndexError) as ex:
        return {'outcome': 'contract-held', 'detail': 'rejected: ' + repr(ex)[:100]}
    st, _ = bounded.runtime_check(RT.JointCounts(), MI.joint_counts, dict(X=a, Y=b, n_x=int(m['n_a']), n_y=int(m['n_b'])), L)
    return {'outcome': 'contract-held' if st == 'ok' else 'vacuous'}


if __name__ == '__main__':
    bounded.main(cases, replay, '<=3 features, <=3 states, <=6 frames; 8 int dtypes; C/F/strided; threads 1/4/16; rejected inputs; heap-dirtying repeats')
