"""Contracts for enspara/tpt/path.py (C17), the parts within the executor's reach:

  _remove_bottleneck(F, path)   -> copy of F with the first minimal-flux edge of the path set to 0; every other entry and the
                                   caller's matrix unchanged
  _subtract_path_flux(F, path)  -> (path with distinct edges, e.g. a simple path) every path edge reduced by the bottleneck
                                   flux m = min edge flux, the first minimal edge exactly 0, nothing negative appears on the
                                   path, every other entry and the caller's matrix unchanged
  paths(...)                    -> on top of top_path's PROVED contract (contracts/tpt_toppath.py): one flux per path, at most
                                   num_paths of them, every recorded flux finite and positive (search stopped at +-inf), the
                                   working matrix stays finite, the removal step's preconditions hold at every call, caller's
                                   flux matrix unchanged
"""
from pyvc.spec import Contract

F = 'enspara/tpt/path.py::'


def _mat(e, st, name='F', n='n'):
    import z3
    from pyvc.logic import Arr
    N = z3.Int(n)
    return e.new_obj(st, Arr(z3.Array(name, z3.IntSort(), z3.IntSort(), z3.RealSort()), (N, N), 'real'))


def _path(e, st, name='path', n='plen'):
    import z3
    from pyvc.logic import Arr
    return e.new_obj(st, Arr(z3.Array(name, z3.IntSort(), z3.IntSort()), (z3.Int(n),), 'int'))


def path_pre(L, Fm, p, distinct_edges):
    n, m = L.shape(Fm, 0), L.len(p)
    out = [('square-matrix', L.And(L.shape(Fm, 1) == n, n >= 1)),
           ('path-has-an-edge', m >= 2),
           ('path-nodes-are-states', L.forall(0, m, lambda k: L.And(p[k] >= 0, p[k] < n)))]
    if distinct_edges:
        out.append(('path-edges-distinct', L.forall2((0, m - 1), (0, m - 1), lambda a, b: L.implies(a < b, L.Or(p[a] != p[b], p[a + 1] != p[b + 1])))))
    return out


def on_path(L, p, i, j):
    return L.exists(0, L.len(p) - 1, lambda k: L.And(p[k] == i, p[k + 1] == j))


class RemoveBottleneck(Contract):
    key = F + '_remove_bottleneck'

    def params(self, e, st):
        return {'net_flux': _mat(e, st), 'path': _path(e, st)}

    def requires(self, L, A, G):
        return path_pre(L, A['net_flux'], A['path'], False)

    def ensures(self, L, A, N, R, G, V):
        Fm, p = A['net_flux'], A['path']
        n, m = L.shape(Fm, 0), L.len(p)
        edge = lambda k: Fm[p[k], p[k + 1]]
        return [('same-shape', L.And(L.shape(R, 0) == n, L.shape(R, 1) == n)),
                ('one-minimal-edge-removed', L.exists(0, m - 1, lambda b: L.And(L.forall(0, m - 1, lambda k: edge(k) >= edge(b)), L.forall(0, b, lambda k: edge(k) > edge(b)),
                                                                                   R[p[b], p[b + 1]] == 0,
                                                                                   L.forall2((0, n), (0, n), lambda i, j: L.implies(L.Not(L.And(i == p[b], j == p[b + 1])), R[i, j] == Fm[i, j])))))]

    def result(self, e, st, args):
        a = e.deref(st, args['net_flux'])
        return e.fresh_arr(st, 'rb', 'real', a.shape)

    def pins(self):
        import z3
        return [[z3.Int('n') == a, z3.Int('plen') == b] for a, b in ((2, 2), (3, 3))]


class SubtractPathFlux(Contract):
    key = F + '_subtract_path_flux'

    def params(self, e, st):
        return {'net_flux': _mat(e, st), 'path': _path(e, st)}

    def requires(self, L, A, G):
        return path_pre(L, A['net_flux'], A['path'], True)

    def ghost(self, L, A):
        """bott = the smallest flux on the path's edges (defined by: a lower bound that is attained)"""
        Fm, p = A['net_flux'], A['path']
        m = L.len(p)
        edge = lambda k: Fm[p[k], p[k + 1]]
        if L.sym:
            import z3
            bott, w = z3.Real('bottleneck_flux'), z3.Int('bottleneck_edge')
            return {'bott': bott}, [L.forall(0, m - 1, lambda k: edge(k) >= bott), L.And(w >= 0, w < m - 1, edge(w) == bott)]
        return {'bott': min(float(edge(k)) for k in range(int(m) - 1))}, []

    def ensures(self, L, A, N, R, G, V):
        Fm, p = A['net_flux'], A['path']
        n, m, bott = L.shape(Fm, 0), L.len(p), G['bott']
        edge = lambda k: Fm[p[k], p[k + 1]]
        return [('same-shape', L.And(L.shape(R, 0) == n, L.shape(R, 1) == n)),
                ('path-edges-reduced-by-the-bottleneck', L.forall(0, m - 1, lambda k: L.req(R[p[k], p[k + 1]], edge(k) - bott))),
                ('nothing-negative-appears-on-the-path', L.forall(0, m - 1, lambda k: R[p[k], p[k + 1]] >= 0)),
                ('a-bottleneck-edge-is-exactly-zero', L.exists(0, m - 1, lambda b: L.And(L.req(edge(b), bott), R[p[b], p[b + 1]] == 0))),
                ('other-entries-unchanged', L.forall2((0, n), (0, n), lambda i, j: L.implies(L.Not(on_path(L, p, i, j)), R[i, j] == Fm[i, j]))),
                # a summary the caller's loop invariant can use without looking at the path: for a non-negative bottleneck no entry grows, and an entry is
                # either unchanged or non-negative
                ('no-entry-grows-and-changed-entries-stay-non-negative', L.implies(bott >= 0, L.forall2((0, n), (0, n), lambda i, j: L.And(R[i, j] <= Fm[i, j], L.Or(R[i, j] >= 0, R[i, j] == Fm[i, j])))))]

    def result(self, e, st, args):
        a = e.deref(st, args['net_flux'])
        return e.fresh_arr(st, 'sp', 'real', a.shape)

    def pins(self):
        import z3
        return [[z3.Int('n') == a, z3.Int('plen') == b] for a, b in ((2, 2), (3, 3))]


def registry():
    return {c.key: c for c in (RemoveBottleneck(), SubtractPathFlux())}


class Paths(Contract):
    key = F + 'paths'
    local_kinds = {'paths': 'count', 'fluxes': 'real', 'path': 'int'}
    resizable = ('paths', 'fluxes')

    def __init__(self, scheme='subtract', unlimited=False):
        self.scheme, self.unlimited = scheme, unlimited

    def params(self, e, st):
        import z3
        from pyvc.engine import Str
        from pyvc.logic import Arr, INF
        return {'sources': e.new_obj(st, Arr(z3.Array('sources', z3.IntSort(), z3.IntSort()), (z3.Int('nsrc'),), 'int')),
                'sinks': e.new_obj(st, Arr(z3.Array('sinks', z3.IntSort(), z3.IntSort()), (z3.Int('nsnk'),), 'int')),
                'net_flux': _mat(e, st), 'remove_path': Str(self.scheme),
                'num_paths': INF() if self.unlimited else z3.Int('num_paths'), 'flux_cutoff': z3.Real('flux_cutoff')}

    def requires(self, L, A, G):
        Fm, src = A['net_flux'], A['sources']
        n = L.shape(Fm, 0)
        out = [('square-matrix', L.And(L.shape(Fm, 1) == n, n >= 1)),
               ('sources-are-states', L.And(L.len(src) >= 1, L.forall(0, L.len(src), lambda k: L.And(src[k] >= 0, src[k] < n)))),
               ('sinks-are-states', L.And(L.len(A['sinks']) >= 1, L.forall(0, L.len(A['sinks']), lambda k: L.And(A['sinks'][k] >= 0, A['sinks'][k] < n)))),
               ('fluxes-finite', L.forall2((0, n), (0, n), lambda i, j: L.And(Fm[i, j] < L.inf, Fm[i, j] > -L.inf)))]
        if not self.unlimited:
            out.append(('at-least-one-path-requested', A['num_paths'] >= 1))
        return out

    def ghost(self, L, A):
        return None, ([L.inf > 0] if L.sym else [])

    def ensures(self, L, A, N, R, G, V):
        ps, fl = R
        out = [('one-flux-per-path', L.len(ps) == L.len(fl)),
               ('every-reported-flux-is-finite-and-positive', L.forall(0, L.len(fl), lambda k: L.And(fl[k] > 0, fl[k] != L.inf)))]
        if not self.unlimited:
            out.append(('no-more-paths-than-requested', L.len(ps) <= A['num_paths']))
        return out

    @property
    def invariants(self):
        def inv(L, V):
            ps, fl, cnt, Fm = V['paths'], V['fluxes'], V['counter'], V['net_flux']
            n = L.shape(V.old['net_flux'], 0)
            out = [('counter-counts-paths', L.And(cnt == L.len(ps), cnt == L.len(fl), cnt >= 0)),
                   ('working-matrix-keeps-its-shape', L.And(L.shape(Fm, 0) == n, L.shape(Fm, 1) == n)),
                   ('working-matrix-stays-finite', L.forall2((0, n), (0, n), lambda i, j: L.And(Fm[i, j] < L.inf, Fm[i, j] > -L.inf))),
                   ('fluxes-finite-positive', L.forall(0, L.len(fl), lambda k: L.And(fl[k] > 0, fl[k] != L.inf)))]
            if not self.unlimited:
                out.append(('below-the-requested-number', cnt < V.old['num_paths']))
            return out
        return {1: inv}

    def pins(self):
        import z3
        return [[z3.Int('n') == 2, z3.Int('nsrc') == 1, z3.Int('nsnk') == 1]]


def registry_paths(scheme='subtract', unlimited=False):
    from contracts.tpt_toppath import TopPathProved
    return {c.key: c for c in (RemoveBottleneck(), SubtractPathFlux(), TopPathProved(), Paths(scheme, unlimited))}
