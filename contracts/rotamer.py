"""Contracts for enspara/geometry/rotamer.py (C20): get_gates, is_buffered_transition, _rotamers.

Specification taken from the property statement:
  basin(a)     = the s with hb[s] <= a < hb[s+1]
  inside(s, a) = a lies in basin s widened by bw on both sides, with wrap-around at 0/360:
                 exists k in {-1,0,1}. hb[s]-bw < a+360k < hb[s+1]+bw
  S(0) = basin(a_0);  S(t) = S(t-1) if inside(S(t-1), a_t) else basin(a_t)
Preconditions (the property's quantifier): 0 <= a_t < 360, a_t not an exact gate value,
0 <= bw < 360/n_basins, boundary sets used by the library.
"""
from pyvc.spec import Contract

F = 'enspara/geometry/rotamer.py::'


def basin(L, a, HB, nb):
    r = nb - 1
    for j in reversed(range(nb - 1)):
        r = L.ite(a < HB[j + 1], j, r)
    return r


def inside(L, s, a, bw, HB):
    return L.Or(*[L.And(HB[s] - bw < a + 360 * k, a + 360 * k < HB[s + 1] + bw) for k in (-1, 0, 1)])


def not_gate(L, a, bw, HB, nb):
    return L.And(*[L.And(a + 360 * k != HB[j] - bw, a + 360 * k != HB[j] + bw)
                   for k in (-1, 0, 1) for j in range(nb + 1)])


def bw_ok(L, bw, nb, exclude=None):
    c = [bw >= 0, bw * nb < 360]
    return c


class Base(Contract):
    def __init__(self, hb, exclude_class=None):
        self.hb = list(hb)
        self.nb = len(hb) - 1
        self.exclude_class = exclude_class     # known-finding witness class (see known_findings.jsonl)

    def _hb(self, e, st):
        import z3
        from pyvc.logic import Arr
        t = z3.K(z3.IntSort(), z3.RealVal(0))
        for k, v in enumerate(self.hb):
            t = z3.Store(t, k, z3.RealVal(v))
        return e.new_obj(st, Arr(t, (len(self.hb),), 'real', meta={'list': True}))

    def in_class(self, L, s, bw, HB):
        """witness class of finding D10: the widened basin covers the whole circle"""
        return (HB[s + 1] - HB[s]) + 2 * bw >= 360

    def pre_bw(self, L, A, state=None):
        bw = A['buffer_width']
        c = [('bw-range', L.And(bw >= 0, bw * self.nb < 360))]
        if self.exclude_class:
            HB = A['hard_boundaries']
            c.append(('outside-known-finding-class',
                      L.And(*[L.Not(self.in_class(L, s, bw, HB)) for s in range(self.nb)])))
        return c


class GetGates(Base):
    key = F + 'get_gates'

    def params(self, e, st):
        import z3
        return {'cur_state': z3.Int('cur_state'), 'hard_boundaries': self._hb(e, st), 'buffer_width': z3.Real('bw')}

    def requires(self, L, A, G):
        return [('state-range', L.between(0, A['cur_state'], self.nb))] + self.pre_bw(L, A)

    def result(self, e, st, args):
        from pyvc.engine import Tup
        return Tup([e.fresh('lo', 'real'), e.fresh('hi', 'real')])

    def ensures(self, L, A, N, R, G, V):
        HB, s, bw = A['hard_boundaries'], A['cur_state'], A['buffer_width']
        return [('lower-gate', L.req(R[0], L.ite(HB[s] == 0, 360, HB[s]) - bw)),
                ('upper-gate', L.req(R[1], L.ite(HB[s + 1] == 360, 0, HB[s + 1]) + bw))]

    def want(self):
        import z3
        return {'cur_state': lambda m: m.eval(z3.Int('cur_state'), True).as_long(),
                'buffer_width': lambda m: _frac(m.eval(z3.Real('bw'), True))}


class IsBuffered(Base):
    key = F + 'is_buffered_transition'

    def params(self, e, st):
        import z3
        return {'cur_state': z3.Int('cur_state'), 'new_angle': z3.Real('new_angle'),
                'hard_boundaries': self._hb(e, st), 'buffer_width': z3.Real('bw')}

    def requires(self, L, A, G):
        a, bw, HB = A['new_angle'], A['buffer_width'], A['hard_boundaries']
        return [('state-range', L.between(0, A['cur_state'], self.nb)),
                ('angle-range', L.And(a >= 0, a < 360)),
                ('not-a-gate', not_gate(L, a, bw, HB, self.nb))] + self.pre_bw(L, A)

    def result(self, e, st, args):
        return e.fresh('is_tr', 'bool')

    def ensures(self, L, A, N, R, G, V):
        return [('is-exit', L.iff(R, L.Not(inside(L, A['cur_state'], A['new_angle'], A['buffer_width'], A['hard_boundaries']))))]

    def want(self):
        import z3
        return {'cur_state': lambda m: m.eval(z3.Int('cur_state'), True).as_long(),
                'new_angle': lambda m: _frac(m.eval(z3.Real('new_angle'), True)),
                'buffer_width': lambda m: _frac(m.eval(z3.Real('bw'), True))}


class Rotamers(Base):
    key = F + '_rotamers'

    def params(self, e, st):
        import z3
        from pyvc.logic import Arr
        n = z3.Int('n')
        ang = e.new_obj(st, Arr(z3.Array('angles', z3.IntSort(), z3.RealSort()), (n,), 'real'))
        return {'angles': ang, 'hard_boundaries': self._hb(e, st), 'buffer_width': z3.Real('bw')}

    def ghost(self, L, A):
        ang, HB, bw, nb = A['angles'], A['hard_boundaries'], A['buffer_width'], self.nb
        n = L.len(ang)
        if L.sym:
            S = L.func('S', 'int', 'int')
            ax = [S(0) == basin(L, ang[0], HB, nb),
                  L.forall(1, n, lambda t: S(t) == L.ite(inside(L, S(t - 1), ang[t], bw, HB), S(t - 1), basin(L, ang[t], HB, nb)))]
            return {'S': S}, ax
        memo = {}

        def S(t):
            if t not in memo:
                if t == 0:
                    memo[t] = basin(L, ang[0], HB, nb)
                else:
                    p = S(t - 1)
                    memo[t] = p if inside(L, p, ang[t], bw, HB) else basin(L, ang[t], HB, nb)
            return memo[t]
        for t in range(int(n)):
            S(t)
        return {'S': S}, []

    def requires(self, L, A, G):
        ang, HB, bw = A['angles'], A['hard_boundaries'], A['buffer_width']
        n = L.len(ang)
        return [('nonempty', n >= 1),
                ('angles-in-range', L.forall(0, n, lambda t: L.And(ang[t] >= 0, ang[t] < 360))),
                ('angles-avoid-gates', L.forall(0, n, lambda t: not_gate(L, ang[t], bw, HB, self.nb)))] + self.pre_bw(L, A)

    def result(self, e, st, args):
        a = e.deref(st, args['angles'])
        return e.fresh_arr(st, 'rotamers', 'int', a.shape)

    def ensures(self, L, A, N, R, G, V):
        ang, HB, bw = A['angles'], A['hard_boundaries'], A['buffer_width']
        n = L.len(ang)
        S = G['S']
        return [('length', L.len(R) == n),
                ('hysteresis', L.forall(0, n, lambda t: R[t] == S(t))),
                ('valid-basin', L.forall(0, n, lambda t: L.between(0, R[t], self.nb))),
                ('zero-buffer-is-binning', L.implies(bw == 0, L.forall(0, n, lambda t: R[t] == basin(L, ang[t], HB, self.nb))))]

    @property
    def invariants(self):
        nb = self.nb

        def inv1(L, V):
            i, rot, ang, HB = V['i'], V['rotamers'], V.old['angles'], V.old['hard_boundaries']
            return [('len', L.len(rot) == L.len(ang)),
                    ('not-yet', L.forall(0, i, lambda j: ang[0] >= HB[j + 1])),
                    ('untouched', L.forall(0, L.len(ang), lambda t: rot[t] == -1))]

        def inv2(L, V):
            i, rot, cur = V['i'], V['rotamers'], V['cur_state']
            ang, HB, bw = V.old['angles'], V.old['hard_boundaries'], V.old['buffer_width']
            S = V.ghost['S']
            return [('len', L.len(rot) == L.len(ang)),
                    ('prefix', L.forall(0, i, lambda t: rot[t] == S(t))),
                    ('cur', cur == S(i - 1)),
                    ('valid', L.between(0, cur, nb)),
                    ('valid-prefix', L.forall(0, i, lambda t: L.between(0, rot[t], nb))),
                    ('binning', L.implies(bw == 0, L.forall(0, i, lambda t: rot[t] == basin(L, ang[t], HB, nb))))]
        return {1: inv1, 2: inv2}

    def pins(self):
        import z3
        return [[z3.Int('n') == k] for k in (1, 2, 3)]

    def want(self):
        import z3
        n = z3.Int('n')
        ang = z3.Array('angles', z3.IntSort(), z3.RealSort())

        def angles(m):
            k = m.eval(n, True).as_long()
            return [_frac(m.eval(ang[t], True)) for t in range(min(k, 8))]
        return {'angles': angles, 'buffer_width': lambda m: _frac(m.eval(z3.Real('bw'), True))}


def _frac(v):
    try:
        f = v.as_fraction()
        return [int(f.numerator), int(f.denominator)]
    except Exception:
        return str(v)


def registry(hb, exclude_class=None):
    cs = [GetGates(hb, exclude_class), IsBuffered(hb, exclude_class), Rotamers(hb, exclude_class)]
    return {c.key: c for c in cs}
