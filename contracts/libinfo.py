"""Contract for the desugared enspara/info_theory/libinfo.pyx::matrix_bincount2d (C18 kernel).
Ghost CNT(r,s,u,v,t) = #{t' < t | a[t',r] = u and b[t',s] = v}; post: jc[r,s,u,v] = CNT(r,s,u,v,T).
State ids outside [0,n) and arrays of different lengths are rejected (AssertionError) - never counted elsewhere."""
from pyvc.spec import Contract

F = 'enspara/info_theory/libinfo.pyx::'


class MatrixBincount2d(Contract):
    key = F + 'matrix_bincount2d'
    asserts_raise = True
    local_kinds = {'i': 'int', 'j': 'int', 't': 'int', 'b_row': 'int', 'a_row': 'int'}

    def params(self, e, st):
        import z3
        from pyvc.logic import Arr
        T, Tb, FA, FB = z3.Int('T'), z3.Int('Tb'), z3.Int('FA'), z3.Int('FB')
        return {'a': e.new_obj(st, Arr(z3.Array('fa', z3.IntSort(), z3.IntSort(), z3.IntSort()), (T, FA), 'int')),
                'b': e.new_obj(st, Arr(z3.Array('fb', z3.IntSort(), z3.IntSort(), z3.IntSort()), (Tb, FB), 'int')),
                'n_a': z3.Int('n_a'), 'n_b': z3.Int('n_b')}

    def ghost(self, L, A):
        a, b = A['a'], A['b']
        if L.sym:
            CNT = L.func('CNT', 'int', 'int', 'int', 'int', 'int', 'int')
            T, FA, FB = L.shape(a, 0), L.shape(a, 1), L.shape(b, 1)
            ax = [L.forallN([(0, FA), (0, FB)], lambda r, s: L.forall_sort(['int', 'int'], lambda u, v: CNT(r, s, u, v, 0) == 0)),
                  L.forallN([(0, FA), (0, FB), (0, T)], lambda r, s, t: L.forall_sort(['int', 'int'], lambda u, v:
                            CNT(r, s, u, v, t + 1) == CNT(r, s, u, v, t) + L.ite(L.And(a[t, r] == u, b[t, s] == v), 1, 0)))]
            return {'CNT': CNT}, ax
        import numpy as np
        an, bn = np.asarray(a), np.asarray(b)

        def CNT(r, s, u, v, t):
            return int(np.sum((an[:int(t), int(r)] == u) & (bn[:int(t), int(s)] == v)))
        return {'CNT': CNT}, []

    def requires(self, L, A, G):
        a, b = A['a'], A['b']
        return [('nonempty-arrays', L.And(L.shape(a, 0) >= 1, L.shape(a, 1) >= 1, L.shape(b, 0) >= 1, L.shape(b, 1) >= 1)),
                ('state-counts-nonneg', L.And(A['n_a'] >= 0, A['n_b'] >= 0)), ('fewer-than-2^32-features', L.shape(a, 1) < 2 ** 32)]

    def raises(self, L, A, G):
        a, b, na, nb = A['a'], A['b'], A['n_a'], A['n_b']
        Ta, Tb, FA, FB = L.shape(a, 0), L.shape(b, 0), L.shape(a, 1), L.shape(b, 1)
        in_range = L.And(L.forall2((0, Ta), (0, FA), lambda t, r: L.between(0, a[t, r], na)),
                         L.forall2((0, Tb), (0, FB), lambda t, s: L.between(0, b[t, s], nb)))
        return {'AssertionError': L.Or(Ta != Tb, L.Not(in_range))}

    def result(self, e, st, args):
        a, b = e.deref(st, args['a']), e.deref(st, args['b'])
        from pyvc.engine import to_z3
        return e.fresh_arr(st, 'jc', 'int', (a.shape[1], b.shape[1], to_z3(args['n_a']), to_z3(args['n_b'])))

    def ensures(self, L, A, N, R, G, V):
        a, b, na, nb = A['a'], A['b'], A['n_a'], A['n_b']
        T, FA, FB = L.shape(a, 0), L.shape(a, 1), L.shape(b, 1)
        CNT = G['CNT']
        return [('shape', L.And(L.shape(R, 0) == FA, L.shape(R, 1) == FB, L.shape(R, 2) == na, L.shape(R, 3) == nb)),
                ('exact-joint-counts', L.forallN([(0, FA), (0, FB), (0, na), (0, nb)], lambda r, s, u, v: R[r, s, u, v] == CNT(r, s, u, v, T)))]

    @property
    def invariants(self):
        def common(L, V):
            a, b = V.old['a'], V.old['b']
            return V['jc'], V.ghost['CNT'], L.shape(a, 0), L.shape(a, 1), L.shape(b, 1), V.old['n_a'], V.old['n_b']

        def rows_done(L, jc, CNT, T, FB, na, nb, upto):
            return L.forallN([(0, upto), (0, FB), (0, na), (0, nb)], lambda r, s, u, v: jc[r, s, u, v] == CNT(r, s, u, v, T))

        def rows_zero(L, jc, FA, FB, na, nb, frm):
            return L.forallN([(frm, FA), (0, FB), (0, na), (0, nb)], lambda r, s, u, v: jc[r, s, u, v] == 0)

        def shape_ok(L, jc, FA, FB, na, nb):
            return L.And(L.shape(jc, 0) == FA, L.shape(jc, 1) == FB, L.shape(jc, 2) == na, L.shape(jc, 3) == nb)

        def outer(L, V):
            jc, CNT, T, FA, FB, na, nb = common(L, V)
            ar = V['a_row']
            return [('shape', shape_ok(L, jc, FA, FB, na, nb)), ('rows-done', rows_done(L, jc, CNT, T, FB, na, nb, ar)),
                    ('rest-zero', rows_zero(L, jc, FA, FB, na, nb, ar))]

        def mid(L, V):
            jc, CNT, T, FA, FB, na, nb = common(L, V)
            ar, br = V['a_row'], V['b_row']
            return [('shape', shape_ok(L, jc, FA, FB, na, nb)), ('row-in-range', L.between(0, ar, FA)),
                    ('rows-done', rows_done(L, jc, CNT, T, FB, na, nb, ar)), ('rest-zero', rows_zero(L, jc, FA, FB, na, nb, ar + 1)),
                    ('cols-done', L.forallN([(0, br), (0, na), (0, nb)], lambda s, u, v: jc[ar, s, u, v] == CNT(ar, s, u, v, T))),
                    ('cols-zero', L.forallN([(br, FB), (0, na), (0, nb)], lambda s, u, v: jc[ar, s, u, v] == 0))]

        def inner(L, V):
            jc, CNT, T, FA, FB, na, nb = common(L, V)
            ar, br, t = V['a_row'], V['b_row'], V['t']
            return [('shape', shape_ok(L, jc, FA, FB, na, nb)), ('row-in-range', L.And(L.between(0, ar, FA), L.between(0, br, FB))),
                    ('rows-done', rows_done(L, jc, CNT, T, FB, na, nb, ar)), ('rest-zero', rows_zero(L, jc, FA, FB, na, nb, ar + 1)),
                    ('cols-done', L.forallN([(0, br), (0, na), (0, nb)], lambda s, u, v: jc[ar, s, u, v] == CNT(ar, s, u, v, T))),
                    ('cols-zero', L.forallN([(br + 1, FB), (0, na), (0, nb)], lambda s, u, v: jc[ar, s, u, v] == 0)),
                    ('partial', L.forall2((0, na), (0, nb), lambda u, v: jc[ar, br, u, v] == CNT(ar, br, u, v, t)))]
        return {1: outer, 2: mid, 3: inner}

    def pins(self):
        import z3
        return [[z3.Int('T') == t, z3.Int('Tb') == t, z3.Int('FA') == 1, z3.Int('FB') == 1, z3.Int('n_a') == n, z3.Int('n_b') == n] for t, n in ((1, 1), (1, 2), (2, 2))]

    def want(self):
        import z3
        fa, fb = z3.Array('fa', z3.IntSort(), z3.IntSort(), z3.IntSort()), z3.Array('fb', z3.IntSort(), z3.IntSort(), z3.IntSort())
        g = lambda m, x: m.eval(z3.Int(x), True).as_long()
        return {'a': lambda m: [[m.eval(fa[t, r], True).as_long() for r in range(min(3, g(m, 'FA')))] for t in range(min(4, g(m, 'T')))],
                'b': lambda m: [[m.eval(fb[t, r], True).as_long() for r in range(min(3, g(m, 'FB')))] for t in range(min(4, g(m, 'Tb')))],
                'n_a': lambda m: g(m, 'n_a'), 'n_b': lambda m: g(m, 'n_b')}


def registry():
    c = MatrixBincount2d()
    return {c.key: c}
