"""Contracts for enspara/cluster/kmedoids.py (C01, C09): _msq, _propose_new_center_amongst,
_kmedoids_pam_update, _kmedoids_iterations.

C09: every sweep leaves the mean squared frame-to-centre distance no larger (accept iff strictly lower, state
replaced wholesale or not at all), keeps the number of clusters, keeps every centre an actual frame; the state
stays `consistent` (C01).  The cost is the ghost function MSQ(distances) (mean of squares; serial mode).
"""
from pyvc.spec import Contract
from contracts.cluster import (metric, metric_axioms, distinct, consistent, sym_frames, model_table, _arr, _num,
                               AssignToNearest, FindClusterCenters)

KM = 'enspara/cluster/kmedoids.py::'


def msq(L, a):
    if L.sym:
        import z3
        f = z3.Function('MSQ', a.term.sort(), z3.IntSort(), z3.RealSort())
        return f(a.term, a.shape[0])
    import numpy as np
    return float(np.mean(np.square(np.asarray(a, dtype=float))))


class Msq(Contract):
    key = KM + '_msq'

    def params(self, e, st):
        import z3
        from pyvc.logic import Arr
        return {'x': e.new_obj(st, Arr(z3.Array('x', z3.IntSort(), z3.RealSort()), (z3.Int('n'),), 'real'))}

    def requires(self, L, A, G):
        return [('nonempty', L.len(A['x']) >= 1)]

    def result(self, e, st, args):
        return e.fresh('cost', 'real')

    def ensures(self, L, A, N, R, G, V):
        return [('mean-of-squares', L.req(R, msq(L, A['x'])))]


class Propose(Contract):
    """random proposal: a member of the given index list, returned with its frame (every seed covered)"""
    key = KM + '_propose_new_center_amongst'

    def params(self, e, st):
        import z3
        from pyvc.logic import Arr
        from pyvc.engine import NONE
        return {'X': sym_frames(e, st, 'traj', 'n'), 'mpi_mode': False, 'random_state': NONE,
                'state_inds': e.new_obj(st, Arr(z3.Array('state_inds', z3.IntSort(), z3.IntSort()), (z3.Int('ns'),), 'int'))}

    def requires(self, L, A, G):
        return [('nonempty-cluster', L.len(A['state_inds']) >= 1),
                ('indices-in-data', L.forall(0, L.len(A['state_inds']), lambda j: L.between(0, A['state_inds'][j], L.len(A['X']))))]

    def result(self, e, st, args):
        from pyvc.engine import Tup
        return Tup([e.fresh('proposed_center', 'frame'), e.fresh('proposed_ind', 'int')])

    def ensures(self, L, A, N, R, G, V):
        X, S = A['X'], A['state_inds']
        return [('member', L.exists(0, L.len(S), lambda j: S[j] == R[1])),
                ('frame-of-index', (R[0] == X[R[1]]) if L.sym else L.same_array(R[0], X[R[1]]))]


class PamUpdate(Contract):
    key = KM + '_kmedoids_pam_update'
    modifies = ('medoid_inds',)
    local_kinds = {'medoid_coords': 'frame', 'old_cost': 'real', 'new_cost': 'real', 'proposed_center': 'frame',
                   'proposed_center_ind': 'int', 'cid': 'int'}

    def __init__(self, proposals='random'):
        self.proposals = proposals      # 'random' | 'given'

    def params(self, e, st):
        import z3
        from pyvc.logic import Arr
        from pyvc.engine import Metric
        n, K = z3.Int('n'), z3.Int('K')
        p = {'X': sym_frames(e, st, 'traj', 'n'), 'metric': Metric('d'),
             'medoid_inds': e.new_obj(st, Arr(z3.Array('med0', z3.IntSort(), z3.IntSort()), (K,), 'int', meta={'list': True})),
             'assignments': e.new_obj(st, Arr(z3.Array('asg0', z3.IntSort(), z3.IntSort()), (n,), 'int')),
             'distances': e.new_obj(st, Arr(z3.Array('dist0', z3.IntSort(), z3.RealSort()), (n,), 'real'))}
        if self.proposals == 'given':
            p['proposals'] = e.new_obj(st, Arr(z3.Array('prop', z3.IntSort(), z3.IntSort()), (z3.Int('NP'),), 'int', meta={'list': True}))
        return p

    def ghost(self, L, A):
        return {'dist': metric(L, A['X'], fn=A['metric'])}, []

    def requires(self, L, A, G):
        X, D, asg, med = A['X'], A['distances'], A['assignments'], A['medoid_inds']
        n, K, dist = L.len(X), L.len(med), G['dist']
        c = [('nonempty', n >= 1), ('has-clusters', K >= 1), ('same-length', L.And(L.len(D) == n, L.len(asg) == n)),
             ('distinct-points', distinct(L, X, dist))]
        c += [('consistent:' + nm, g) for nm, g in consistent(L, n, dist, D, asg, med, K)]
        if self.proposals == 'given':
            P = A['proposals']
            c.append(('proposals-are-frames', L.forall(0, L.len(P), lambda j: L.between(0, P[j], n))))
        return c

    def raises(self, L, A, G):
        if self.proposals == 'given':
            return {'DataInvalid': L.len(A['proposals']) != L.len(A['medoid_inds'])}
        return {}

    def result(self, e, st, args):
        from pyvc.engine import Tup
        n = e.deref(st, args['X']).shape[0]
        K = e.deref(st, args['medoid_inds']).shape[0]
        return Tup([args['medoid_inds'], e.fresh_arr(st, 'distances', 'real', (n,)), e.fresh_arr(st, 'assignments', 'int', (n,)),
                    e.fresh_arr(st, 'medoid_coords', 'frame', (K,))])

    def ensures(self, L, A, N, R, G, V):
        X, D0 = A['X'], A['distances']
        n, K, dist = L.len(X), L.len(A['medoid_inds']), G['dist']
        med, D, asg, coords = R
        out = [('returns-the-index-list-argument', L.same_array(med, N['medoid_inds'])),
               ('number-of-clusters-kept', L.And(L.len(med) == K, L.len(coords) == K)),
               ('lengths', L.And(L.len(D) == n, L.len(asg) == n)),
               ('centers-are-frames-of-the-data', L.forall(0, K, lambda c: (coords[c] == X[med[c]]) if L.sym else L.same_array(coords[c], X[med[c]]))),
               ('cost-never-worse', L.rle(msq(L, D), msq(L, D0)))]
        out += [('consistent:' + nm, g) for nm, g in consistent(L, n, dist, D, asg, med, K)]
        return out

    @property
    def invariants(self):
        def inv(L, V):
            A = V.old
            X, D0 = A['X'], A['distances']
            n, K, dist = L.len(X), L.len(A['medoid_inds']), V.ghost['dist']
            D, asg, med, coords = V['distances'], V['assignments'], V['medoid_inds'], V['medoid_coords']
            out = [('lengths', L.And(L.len(D) == n, L.len(asg) == n, L.len(med) == K, L.len(coords) == K)),
                   ('coords-are-frames', L.forall(0, K, lambda c: coords[c] == X[med[c]])),
                   ('cost-never-worse', L.rle(msq(L, D), msq(L, D0))),
                   ('costs-defined-after-first', L.implies(V['cid'] >= 1, L.And(V.defined('old_cost'), V.defined('new_cost'))))]
            out += [('consistent:' + nm, g) for nm, g in consistent(L, n, dist, D, asg, med, K)]
            return out
        loop_no = 2     # loop 1 is the MPI-only `for center_idx, (rank, frame_idx)` loop (dead in serial mode)
        return {1: lambda L, V: [], loop_no: inv}

    def pins(self):
        import z3
        return [[z3.Int('n') == a, z3.Int('K') == b] + ([z3.Int('NP') == b] if self.proposals == 'given' else [])
                for a, b in ((1, 1), (2, 1), (2, 2), (3, 2))]

    def want(self):
        import z3
        sz = lambda m: (m.eval(z3.Int('n'), True).as_long(), m.eval(z3.Int('K'), True).as_long())
        return {'n': lambda m: sz(m)[0], 'K': lambda m: sz(m)[1], 'table': model_table(),
                'dist0': lambda m: _arr(m, 'dist0', min(6, sz(m)[0]), 'real'), 'asg0': lambda m: _arr(m, 'asg0', min(6, sz(m)[0])),
                'med0': lambda m: _arr(m, 'med0', min(6, sz(m)[1])), 'prop': lambda m: _arr(m, 'prop', min(6, sz(m)[1]))}


def axioms(L):
    import z3
    ax = metric_axioms(L, tri=False)
    # MSQ is monotone on non-negative arrays (mean of squares); math fact, Lean lemma msq_monotone
    A = z3.ArraySort(z3.IntSort(), z3.RealSort())
    a, b, n = z3.Const('ma', A), z3.Const('mb', A), z3.Int('mn')
    i = z3.Int('mi')
    MSQ = z3.Function('MSQ', A, z3.IntSort(), z3.RealSort())
    ax.append(z3.ForAll([a, b, n], z3.Implies(z3.ForAll([i], z3.Implies(z3.And(0 <= i, i < n), z3.And(0 <= a[i], a[i] <= b[i]))),
                                               MSQ(a, n) <= MSQ(b, n)), patterns=[z3.MultiPattern(MSQ(a, n), MSQ(b, n))]))
    return ax


def registry(proposals='random'):
    a2n = AssignToNearest()
    a2n.rowwise = ('trajectory',)
    cs = [Msq(), Propose(), PamUpdate(proposals), a2n, FindClusterCenters()]
    return {c.key: c for c in cs}
