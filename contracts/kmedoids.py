"""Contracts for enspara/cluster/kmedoids.py (C01, C09): _msq, _propose_new_center_amongst,
_kmedoids_pam_update, _kmedoids_iterations.

C09: every sweep leaves the mean squared frame-to-centre distance no larger (accept iff strictly lower, state
replaced wholesale or not at all), keeps the number of clusters, keeps every centre an actual frame; the state
stays `consistent` (C01).  The cost is the ghost function MSQ(distances) (mean of squares; serial mode).
"""
from pyvc.spec import Contract
from contracts.cluster import (metric, metric_axioms, distinct, consistent, sym_frames, model_table, _arr, _num,
                               AssignToNearest, FindClusterCenters)

KM = 'enspara/cluster/kmedoids.py::'


def msq(L, a):
    if L.sym:
        import z3
        f = z3.Function('MSQ', a.term.sort(), z3.IntSort(), z3.RealSort())
        return f(a.term, a.shape[0])
    import numpy as np
    return float(np.mean(np.square(np.asarray(a, dtype=float))))


class Msq(Contract):
    key = KM + '_msq'

    def params(self, e, st):
        import z3
        from pyvc.logic import Arr
        return {'x': e.new_obj(st, Arr(z3.Array('x', z3.IntSort(), z3.RealSort()), (z3.Int('n'),), 'real'))}

    def requires(self, L, A, G):
        return [('nonempty', L.len(A['x']) >= 1)]

    def result(self, e, st, args):
        return e.fresh('cost', 'real')

    def ensures(self, L, A, N, R, G, V):
        return [('mean-of-squares', L.req(R, msq(L, A['x'])))]


class Propose(Contract):
    """random proposal: a member of the given index list, returned with its frame (every seed covered)"""
    key = KM + '_propose_new_center_amongst'

    def params(self, e, st):
        import z3
        from pyvc.logic import Arr
        from pyvc.engine import NONE
        return {'X': sym_frames(e, st, 'traj', 'n'), 'mpi_mode': False, 'random_state': NONE,
                'state_inds': e.new_obj(st, Arr(z3.Array('state_inds', z3.IntSort(), z3.IntSort()), (z3.Int('ns'),), 'int'))}

    def requires(self, L, A, G):
        return [('nonempty-cluster', L.len(A['state_inds']) >= 1),
                ('indices-in-data', L.forall(0, L.len(A['state_inds']), lambda j: L.between(0, A['state_inds'][j], L.len(A['X']))))]

    def result(self, e, st, args):
        from pyvc.engine import Tup
        return Tup([e.fresh('proposed_center', 'frame'), e.fresh('proposed_ind', 'int')])

    def ensures(self, L, A, N, R, G, V):
        X, S = A['X'], A['state_inds']
        return [('member', L.exists(0, L.len(S), lambda j: S[j] == R[1])),
                ('frame-of-index', (R[0] == X[R[1]]) if L.sym else L.same_array(R[0], X[R[1]]))]


class PamUpdate(Contract):
    key = KM + '_kmedoids_pam_update'
    modifies = ('medoid_inds',)
    local_kinds = {'medoid_coords': 'frame', 'old_cost': 'real', 'new_cost': 'real', 'proposed_center': 'frame',
                   'proposed_center_ind': 'int', 'cid': 'int'}

    def __init__(self, proposals='random'):
        self.proposals = proposals      # 'random' | 'given'

    def params(self, e, st):
        import z3
        from pyvc.logic import Arr
        from pyvc.engine import Metric
        n, K = z3.Int('n'), z3.Int('K')
        p = {'X': sym_frames(e, st, 'traj', 'n'), 'metric': Metric('d'),
             'medoid_inds': e.new_obj(st, Arr(z3.Array('med0', z3.IntSort(), z3.IntSort()), (K,), 'int', meta={'list': True})),
             'assignments': e.new_obj(st, Arr(z3.Array('asg0', z3.IntSort(), z3.IntSort()), (n,), 'int')),
             'distances': e.new_obj(st, Arr(z3.Array('dist0', z3.IntSort(), z3.RealSort()), (n,), 'real'))}
        if self.proposals == 'given':
            p['proposals'] = e.new_obj(st, Arr(z3.Array('prop', z3.IntSort(), z3.IntSort()), (z3.Int('NP'),), 'int', meta={'list': True}))
        return p

    def ghost(self, L, A):
        return {'dist': metric(L, A['X'], fn=A['metric'])}, []

    def requires(self, L, A, G):
        X, D, asg, med = A['X'], A['distances'], A['assignments'], A['medoid_inds']
        n, K, dist = L.len(X), L.len(med), G['dist']
        c = [('nonempty', n >= 1), ('has-clusters', K >= 1), ('same-length', L.And(L.len(D) == n, L.len(asg) == n)),
             ('distinct-points', distinct(L, X, dist))]
        c += [('consistent:' + nm, g) for nm, g in consistent(L, n, dist, D, asg, med, K)]
        if self.proposals == 'given':
            P = A['proposals']
            c.append(('proposals-are-frames', L.forall(0, L.len(P), lambda j: L.between(0, P[j], n))))
        return c

    def raises(self, L, A, G):
        if self.proposals == 'given':
            return {'DataInvalid': L.len(A['proposals']) != L.len(A['medoid_inds'])}
        return {}

    def result(self, e, st, args):
        from pyvc.engine import Tup
        n = e.deref(st, args['X']).shape[0]
        K = e.deref(st, args['medoid_inds']).shape[0]
        return Tup([args['medoid_inds'], e.fresh_arr(st, 'distances', 'real', (n,)), e.fresh_arr(st, 'assignments', 'int', (n,)),
                    e.fresh_arr(st, 'medoid_coords', 'frame', (K,))])

    def ensures(self, L, A, N, R, G, V):
        X, D0 = A['X'], A['distances']
        n, K, dist = L.len(X), L.len(A['medoid_inds']), G['dist']
        med, D, asg, coords = R
        out = [('returns-the-index-list-argument', L.same_array(med, N['medoid_inds'])),
               ('number-of-clusters-kept', L.And(L.len(med) == K, L.len(coords) == K)),
               ('lengths', L.And(L.len(D) == n, L.len(asg) == n)),
               ('centers-are-frames-of-the-data', L.forall(0, K, lambda c: (coords[c] == X[med[c]]) if L.sym else L.same_array(coords[c], X[med[c]]))),
               ('cost-never-worse', L.rle(msq(L, D), msq(L, D0)))]
        out += [('consistent:' + nm, g) for nm, g in consistent(L, n, dist, D, asg, med, K)]
        return out

    @property
    def invariants(self):
        def inv(L, V):
            A = V.old
            X, D0 = A['X'], A['distances']
            n, K, dist = L.len(X), L.len(A['medoid_inds']), V.ghost['dist']
            D, asg, med, coords = V['distances'], V['assignments'], V['medoid_inds'], V['medoid_coords']
            L.hint(med[V['cid']])      # the current medoid of the cluster being updated is a member of it
            out = [('lengths', L.And(L.len(D) == n, L.len(asg) == n, L.len(med) == K, L.len(coords) == K)),
                   ('coords-are-frames', L.forall(0, K, lambda c: coords[c] == X[med[c]])),
                   ('cost-never-worse', L.rle(msq(L, D), msq(L, D0))),
                   ('costs-defined-after-first', L.implies(V['cid'] >= 1, L.And(V.defined('old_cost'), V.defined('new_cost'))))]
            out += [('consistent:' + nm, g) for nm, g in consistent(L, n, dist, D, asg, med, K)]
            return out
        loop_no = 2     # loop 1 is the MPI-only `for center_idx, (rank, frame_idx)` loop (dead in serial mode)
        return {1: lambda L, V: [], loop_no: inv}

    @property
    def cuts(self):
        if self.proposals != 'given':
            return {}

        def after_costs(L, V):
            # a proposal that coincides with another cluster's current medoid can only make distances larger
            D, nd, med, K, cid, p = V['distances'], V['new_dist'], V['medoid_inds'], L.len(V['medoid_inds']), V['cid'], V['proposed_center_ind']
            n = L.len(D)
            dup = L.exists(0, K, lambda c2: L.And(c2 != cid, med[c2] == p))
            return [dict(name='duplicate-proposal-never-lowers-a-distance', fact=L.implies(dup, L.forall(0, n, lambda f: L.And(0 <= D[f], D[f] <= nd[f])))),
                    dict(name='duplicate-proposal-never-lowers-the-cost', fact=L.implies(dup, V['old_cost'] <= V['new_cost']),
                         using=['cut:duplicate-proposal-never-lowers-a-distance', '_msq:mean-of-squares', '_msq:mean-of-squares#2'])]
        return {'new_cost': after_costs}

    def pins(self):
        import z3
        return [[z3.Int('n') == a, z3.Int('K') == b] + ([z3.Int('NP') == b] if self.proposals == 'given' else [])
                for a, b in ((1, 1), (2, 1), (2, 2), (3, 2))]

    def want(self):
        import z3
        sz = lambda m: (m.eval(z3.Int('n'), True).as_long(), m.eval(z3.Int('K'), True).as_long())
        return {'n': lambda m: sz(m)[0], 'K': lambda m: sz(m)[1], 'table': model_table(),
                'dist0': lambda m: _arr(m, 'dist0', min(6, sz(m)[0]), 'real'), 'asg0': lambda m: _arr(m, 'asg0', min(6, sz(m)[0])),
                'med0': lambda m: _arr(m, 'med0', min(6, sz(m)[1])), 'prop': lambda m: _arr(m, 'prop', min(6, sz(m)[1]))}


class Iterations(Contract):
    """n_iters sweeps: state stays consistent, cost never worse, K fixed, centres are frames (C01, C09)"""
    key = KM + '_kmedoids_iterations'
    modifies = ('cluster_center_inds',)

    def __init__(self, proposals='random', exclude=()):
        self.proposals, self.exclude = proposals, set(exclude)

    @property
    def local_kinds(self):
        def rec(e, h):
            from pyvc.engine import RecV
            n = e.deref(h, h.env['X']).shape[0]
            K = e.deref(h, h.env['cluster_center_inds']).shape[0]
            ci = e.fresh_arr(h, 'res_center_indices', 'int', (K,))
            return e.new_obj(h, RecV('ClusterResult', {'center_indices': ci, 'assignments': e.fresh_arr(h, 'res_assignments', 'int', (n,)),
                                                        'distances': e.fresh_arr(h, 'res_distances', 'real', (n,)),
                                                        'centers': e.fresh_arr(h, 'res_centers', 'frame', (K,))}))

        def cen(e, h):
            K = e.deref(h, h.env['cluster_center_inds']).shape[0]
            return e.fresh_arr(h, 'centers', 'frame', (K,))
        return {'result': rec, 'centers': cen, 'i': 'int'}

    def params(self, e, st):
        import z3
        from pyvc.logic import Arr
        from pyvc.engine import Metric, NONE
        n, K = z3.Int('n'), z3.Int('K')
        p = {'X': sym_frames(e, st, 'traj', 'n'), 'distance_method': Metric('d'), 'n_iters': z3.Int('n_iters'),
             'cluster_center_inds': e.new_obj(st, Arr(z3.Array('med0', z3.IntSort(), z3.IntSort()), (K,), 'int', meta={'list': True})),
             'assignments': e.new_obj(st, Arr(z3.Array('asg0', z3.IntSort(), z3.IntSort()), (n,), 'int')),
             'distances': e.new_obj(st, Arr(z3.Array('dist0', z3.IntSort(), z3.RealSort()), (n,), 'real'))}
        if self.proposals == 'given':
            p['proposals'] = e.new_obj(st, Arr(z3.Array('prop', z3.IntSort(), z3.IntSort()), (z3.Int('NP'),), 'int', meta={'list': True}))
        return p

    def ghost(self, L, A):
        return {'dist': metric(L, A['X'], fn=A['distance_method'])}, []

    def requires(self, L, A, G):
        X, D, asg, med = A['X'], A['distances'], A['assignments'], A['cluster_center_inds']
        n, K, dist = L.len(X), L.len(med), G['dist']
        c = [('nonempty', n >= 1), ('has-clusters', K >= 1), ('same-length', L.And(L.len(D) == n, L.len(asg) == n)),
             ('distinct-points', distinct(L, X, dist)), ('sweeps-nonneg', A['n_iters'] >= 0)]
        c += [('consistent:' + nm, g) for nm, g in consistent(L, n, dist, D, asg, med, K)]
        if self.proposals == 'given':
            P = A['proposals']
            c += [('proposals-are-frames', L.forall(0, L.len(P), lambda j: L.between(0, P[j], n))), ('one-proposal-per-cluster', L.len(P) == K)]
        if 'kmedoids-zero-sweeps' in self.exclude:
            c.append(('outside-known-finding-class', A['n_iters'] >= 1))
        return c

    def result(self, e, st, args):
        from pyvc.engine import RecV
        n = e.deref(st, args['X']).shape[0]
        K = e.deref(st, args['cluster_center_inds']).shape[0]
        return e.new_obj(st, RecV('ClusterResult', {'center_indices': args['cluster_center_inds'], 'assignments': e.fresh_arr(st, 'km_assignments', 'int', (n,)),
                                                     'distances': e.fresh_arr(st, 'km_distances', 'real', (n,)),
                                                     'centers': e.fresh_arr(st, 'km_centers', 'frame', (K,))}))

    def state_clauses(self, L, X, n, K, dist, D0, med, D, asg, coords):
        out = [('number-of-clusters-kept', L.And(L.len(med) == K, L.len(coords) == K)),
               ('lengths', L.And(L.len(D) == n, L.len(asg) == n)),
               ('centers-are-frames-of-the-data', L.forall(0, K, lambda c: (coords[c] == X[med[c]]) if L.sym else L.same_array(coords[c], X[med[c]]))),
               ('cost-never-worse', L.rle(msq(L, D), msq(L, D0)))]
        out += [('consistent:' + nm, g) for nm, g in consistent(L, n, dist, D, asg, med, K)]
        return out

    def ensures(self, L, A, N, R, G, V):
        X, D0 = A['X'], A['distances']
        n, K, dist = L.len(X), L.len(A['cluster_center_inds']), G['dist']
        return self.state_clauses(L, X, n, K, dist, D0, R.center_indices, R.distances, R.assignments, R.centers)

    @property
    def invariants(self):
        def inv(L, V):
            A = V.old
            X, D0 = A['X'], A['distances']
            n, K, dist = L.len(X), L.len(A['cluster_center_inds']), V.ghost['dist']
            D, asg, med = V['distances'], V['assignments'], V['cluster_center_inds']
            out = [('lengths', L.And(L.len(D) == n, L.len(asg) == n, L.len(med) == K)),
                   ('cost-never-worse', L.rle(msq(L, D), msq(L, D0))),
                   ('result-defined-after-first', L.implies(V['i'] >= 1, V.defined('result')))]
            out += [('consistent:' + nm, g) for nm, g in consistent(L, n, dist, D, asg, med, K)]
            if 'result' in V and V.raw('result') is not None:
                r = V['result']
                try:
                    ok = L.And(L.same_array(r.center_indices, med), L.same_array(r.distances, D), L.same_array(r.assignments, asg),
                               L.len(r.centers) == K, L.forall(0, K, lambda c: r.centers[c] == X[med[c]]),
                               L.rle(msq(L, r.distances), msq(L, D0)))
                    out.append(('result-is-the-current-state', L.implies(V.defined('result'), ok)))
                except Exception:
                    pass
            return out
        return {1: inv}

    def pins(self):
        import z3
        return [[z3.Int('n') == a, z3.Int('K') == b, z3.Int('n_iters') == t] + ([z3.Int('NP') == b] if self.proposals == 'given' else [])
                for a, b, t in ((1, 1, 0), (2, 1, 0), (2, 2, 1), (2, 1, 1))]

    def want(self):
        import z3
        sz = lambda m: (m.eval(z3.Int('n'), True).as_long(), m.eval(z3.Int('K'), True).as_long())
        return {'n': lambda m: sz(m)[0], 'K': lambda m: sz(m)[1], 'table': model_table(), 'n_iters': lambda m: m.eval(z3.Int('n_iters'), True).as_long(),
                'dist0': lambda m: _arr(m, 'dist0', min(6, sz(m)[0]), 'real'), 'asg0': lambda m: _arr(m, 'asg0', min(6, sz(m)[0])),
                'med0': lambda m: _arr(m, 'med0', min(6, sz(m)[1])), 'prop': lambda m: _arr(m, 'prop', min(6, sz(m)[1]))}


def axioms(L):
    import z3
    ax = metric_axioms(L, tri=False)
    # MSQ is monotone on non-negative arrays (mean of squares); math fact, Lean lemma msq_monotone
    A = z3.ArraySort(z3.IntSort(), z3.RealSort())
    a, b, n = z3.Const('ma', A), z3.Const('mb', A), z3.Int('mn')
    i = z3.Int('mi')
    MSQ = z3.Function('MSQ', A, z3.IntSort(), z3.RealSort())
    ax.append(z3.ForAll([a, b, n], z3.Implies(z3.ForAll([i], z3.Implies(z3.And(0 <= i, i < n), z3.And(0 <= a[i], a[i] <= b[i]))),
                                               MSQ(a, n) <= MSQ(b, n)), patterns=[z3.MultiPattern(MSQ(a, n), MSQ(b, n))]))
    # definition of the ghost: MSQ(a, n) is the mean of the squares  (links the real _msq to the ghost)
    MEAN = z3.Function('MEAN_real', A, z3.IntSort(), z3.RealSort())
    sq = L.func('sq', 'real', 'real')
    i0 = z3.Int('i!0')
    ax.append(z3.ForAll([a, n], MSQ(a, n) == MEAN(z3.Lambda([i0], sq(a[i0])), n), patterns=[MSQ(a, n)]))
    return ax


def registry(proposals='random', exclude=()):
    a2n = AssignToNearest()
    a2n.rowwise = ('trajectory',)
    cs = [Msq(), Propose(), PamUpdate(proposals), Iterations(proposals, exclude), a2n, FindClusterCenters()]
    return {c.key: c for c in cs}


HY = 'enspara/cluster/hybrid.py::'


class Hybrid(Contract):
    """k-hybrid = k-centers followed by k-medoids sweeps: consistent state, never worse in cost than the
    k-centers solution it starts from (C01, C09)"""
    key = HY + 'hybrid'

    def __init__(self, cfg='both'):
        self.cfg = cfg
        from contracts.cluster import KCenters
        self.kc = KCenters(cfg, 'cold')

    def params(self, e, st):
        import z3
        p = self.kc.params(e, st)
        p = {('X' if k == 'traj' else k): v for k, v in p.items() if k != 'use_triangle_inequality'}
        p['n_iters'] = z3.Int('n_iters')
        return p

    def _kc_args(self, A):
        B = dict(A)
        B['traj'] = A['X']
        B['use_triangle_inequality'] = False
        return B

    def ghost(self, L, A):
        return {'dist': metric(L, A['X'], fn=A['distance_method'])}, []

    def requires(self, L, A, G):
        return [c for c in self.kc.requires(L, self._kc_args(A), G) if c[0] != 'shortcut-needs-a-true-metric']

    def ensures(self, L, A, N, R, G, V):
        X = A['X']
        n, dist = L.len(X), G['dist']
        D, asg, ctr, cen = R.distances, R.assignments, R.center_indices, R.centers
        k = L.len(ctr)
        out = [('lengths', L.And(L.len(D) == n, L.len(asg) == n, L.len(cen) == k)), ('at-least-one-center', k >= 1)]
        out += [('consistent:' + nm, g) for nm, g in consistent(L, n, dist, D, asg, ctr, k)]
        out.append(('center-is-the-frame-at-its-index', L.forall(0, k, lambda c: (cen[c] == X[ctr[c]]) if L.sym else L.same_array(cen[c], X[ctr[c]]))))
        if L.sym:
            kD = V['distances']        # the k-centers distances (the local is not rebound by the refinement stage)
            out.append(('never-worse-than-kcenters', L.rle(msq(L, D), msq(L, kD))))
            out.append(('same-number-of-clusters-as-kcenters', k == L.len(V['result'].center_indices)))
        else:
            from enspara.cluster import kcenters as KCm
            r0 = KCm.kcenters(X, A['distance_method'], n_clusters=A['n_clusters'], dist_cutoff=A['dist_cutoff'], init_centers=A.get('init_centers'))
            out.append(('never-worse-than-kcenters', L.rle(msq(L, D), msq(L, r0.distances))))
            out.append(('same-number-of-clusters-as-kcenters', k == len(r0.center_indices)))
        return out

    def pins(self):
        import z3
        return [[z3.Int('n') == a] for a in (1, 2, 3)]

    def want(self):
        w = self.kc.want()
        import z3
        w['n_iters'] = lambda m: m.eval(z3.Int('n_iters'), True).as_long()
        return w


def registry_hybrid(cfg='both', exclude=()):
    from contracts.cluster import KCenters
    reg = registry('random', exclude)
    kc = KCenters(cfg, 'cold')
    reg[kc.key] = kc
    h = Hybrid(cfg)
    reg[h.key] = h
    return reg
