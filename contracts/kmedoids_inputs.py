"""Contract for enspara/cluster/kmedoids.py::_kmedoids_inputs_tree (serial input handling of kmedoids(), C01 / C09):
what state the sweeps start from, for each form in which a caller can supply it.

  variant 'flat'      : flat centre indices + labels + distances given  -> returned exactly as given (same objects)
  variant 'pairs'     : centres as (trajectory, frame) pairs + X_lengths -> flat index = (sum of the lengths of the earlier
                        trajectories) + frame, in the order given; labels / distances returned as given
  variant 'inferred'  : no centres, labels + distances given            -> centres from find_cluster_centers (its contract)
  one of labels / distances without the other                          -> ImproperlyConfigured
The random cold start (nothing given) is outside the executor (NumPy generator): bounded only.
"""
from pyvc.spec import Contract
from contracts.cluster import consistent, metric as metric_of

KM = 'enspara/cluster/kmedoids.py::'


class InputsTree(Contract):
    key = KM + '_kmedoids_inputs_tree'
    prune_paths = True

    def __init__(self, variant='flat'):
        self.variant = variant

    def params(self, e, st):
        import z3
        from pyvc.logic import Arr
        from pyvc.engine import NONE
        n = z3.Int('n')
        O = z3.DeclareSort('Obj')
        X = e.new_obj(st, Arr(z3.Array('X', z3.IntSort(), z3.IntSort(), z3.RealSort()), (n, z3.Int('d')), 'real'))
        asg = e.new_obj(st, Arr(z3.Array('assignments', z3.IntSort(), z3.IntSort()), (n,), 'int'))
        D = e.new_obj(st, Arr(z3.Array('distances', z3.IntSort(), z3.RealSort()), (n,), 'real'))
        out = {'X': X, 'distance_method': z3.Const('metric', O), 'n_clusters': z3.Int('n_clusters'), 'assignments': asg, 'distances': D,
               'X_lengths': NONE, 'random_state': NONE}
        if self.variant == 'flat':
            out['cluster_center_inds'] = e.new_obj(st, Arr(z3.Array('ctr', z3.IntSort(), z3.IntSort()), (z3.Int('k'),), 'int', meta={'list': True}))
        elif self.variant == 'pairs':
            out['cluster_center_inds'] = e.new_obj(st, Arr((z3.Array('ctr_t', z3.IntSort(), z3.IntSort()), z3.Array('ctr_f', z3.IntSort(), z3.IntSort())), (z3.Int('k'),), 'tuple', meta={'list': True}))
            out['X_lengths'] = e.new_obj(st, Arr(z3.Array('X_lengths', z3.IntSort(), z3.IntSort()), (z3.Int('nt'),), 'int', meta={'list': True}))
        else:
            out['cluster_center_inds'] = NONE
        if self.variant == 'labels-without-distances':
            out['distances'] = NONE
        return out

    def ghost(self, L, A):
        if self.variant == 'pairs' and L.sym:
            return None, L.rangesum_axioms(A['X_lengths'])
        return None, []

    def raises(self, L, A, G):
        return {'ImproperlyConfigured': self.variant == 'labels-without-distances'}

    def requires(self, L, A, G):
        n = L.len(A['assignments'])
        out = [('some-frames', n >= 1)]
        if self.variant in ('flat', 'pairs'):
            out.append(('some-centres', L.len(A['cluster_center_inds']) >= 1))
        if self.variant == 'pairs':
            XL, c = A['X_lengths'], A['cluster_center_inds']
            out.append(('pairs-address-frames', L.forall(0, L.len(c), lambda i: L.And(c[i][0] >= 0, c[i][0] < L.len(XL), c[i][1] >= 0, c[i][1] < XL[c[i][0]]))))
        return out

    def ensures(self, L, A, N, R, G, V):
        if self.variant == 'labels-without-distances':
            return []
        asg, D, ctr = R
        out = [('labels-returned-as-given', L.same_array(asg, A['assignments'])), ('distances-returned-as-given', L.same_array(D, A['distances']))]
        c0 = A['cluster_center_inds']
        if self.variant == 'flat':
            out.append(('centres-returned-as-given', L.same_array(ctr, c0)))
        elif self.variant == 'pairs':
            XL = A['X_lengths']
            out.append(('flat-index-is-offset-of-the-trajectory-plus-frame', L.And(L.len(ctr) == L.len(c0), L.forall(0, L.len(c0), lambda i: ctr[i] == L.rangesum(XL, 0, c0[i][0]) + c0[i][1]))))
        return out

    def pins(self):
        import z3
        return [[z3.Int('n') == 2, z3.Int('d') == 1, z3.Int('k') == 1, z3.Int('nt') == 1], [z3.Int('n') == 3, z3.Int('d') == 1, z3.Int('k') == 2, z3.Int('nt') == 2]]


def registry(variant='flat'):
    from contracts import cluster as CC
    cs = [InputsTree(variant), CC.FindClusterCenters(), CC.AssignToNearest()]
    return {c.key: c for c in cs}
