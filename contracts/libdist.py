"""Contracts for the desugared enspara/geometry/libdist.pyx (C13): input validation, the three kernels, public wrappers.

Ghost partial sums  S(i,0)=0, S(i,j+1) = S(i,j) + term(X[i,j], y[j])   (term = squared difference / absolute
difference / [different]); opaque to the solver, unfolded by the axiom.  out[i] = sqrt(S(i,m)) / S(i,m) / S(i,m)/m."""
from pyvc.spec import Contract

F = 'enspara/geometry/libdist.pyx::'


def term(L, kind, x, yv):
    if L.sym:
        import z3
        d = L.real(x) - L.real(yv)
        if kind == 'euclidean':
            return L.func('sq', 'real', 'real')(d)
        if kind == 'manhattan':
            return z3.If(d >= 0, d, -d)
        return z3.If(yv != x, z3.RealVal(1), z3.RealVal(0))
    import numpy as np
    # C semantics of the typed kernel: floating operands subtract in their own type, integers are promoted (no wrap-around)
    d = float(x - yv) if isinstance(x, np.floating) else float(int(x) - int(yv))
    if kind == 'euclidean':
        if isinstance(x, np.floating):
            dd = x - yv
            return float(dd * dd)          # the square is taken in the operands' own floating type
        return d ** 2
    if kind == 'manhattan':
        return abs(d)
    return 1.0 if x != yv else 0.0


def partial_sums(L, kind, X, y):
    if L.sym:
        S = L.func('S_' + kind, 'int', 'int', 'real')
        n, m = L.shape(X, 0), L.len(y)
        ax = [L.forall(0, n, lambda i: S(i, 0) == 0),
              L.forall2((0, n), (0, m), lambda i, j: S(i, j + 1) == S(i, j) + term(L, kind, X[i, j], y[j]))]
        return S, ax
    import numpy as np
    Xa, ya = np.asarray(X), np.asarray(y)

    def S(i, j):
        acc = 0.0
        for t in range(int(j)):
            acc += term(L, kind, Xa[int(i), t], ya[t])
        return acc
    return S, []


class Kernel(Contract):
    modifies = ('out',)
    abstract_nonlinear = True

    def __init__(self, kind):
        self.kind = kind
        self.key = F + '_' + kind

    def params(self, e, st):
        import z3
        from pyvc.logic import Arr
        n, m = z3.Int('n'), z3.Int('m')
        ek = 'real' if self.kind != 'hamming' else 'int'
        return {'X': e.new_obj(st, Arr(z3.Array('X', z3.IntSort(), z3.IntSort(), z3.RealSort() if ek == 'real' else z3.IntSort()), (n, m), ek)),
                'y': e.new_obj(st, Arr(z3.Array('y', z3.IntSort(), z3.RealSort() if ek == 'real' else z3.IntSort()), (z3.Int('my'),), ek)),
                'out': e.new_obj(st, Arr(z3.Array('out0', z3.IntSort(), z3.RealSort()), (z3.Int('no'),), 'real'))}

    def ghost(self, L, A):
        S, ax = partial_sums(L, self.kind, A['X'], A['y'])
        return {'S': S}, ax

    def requires(self, L, A, G):
        X, y, out = A['X'], A['y'], A['out']
        c = [('out-length-matches', L.len(out) == L.shape(X, 0)), ('width-matches', L.len(y) == L.shape(X, 1))]
        if self.kind == 'hamming':
            c.append(('has-features', L.len(y) >= 1))
        return c

    def result(self, e, st, args):
        return args['out']

    def value(self, L, G, i, m):
        s = G['S'](i, m)
        if self.kind == 'euclidean':
            return L.func('sqrt', 'real', 'real')(s) if L.sym else s ** 0.5
        if self.kind == 'hamming':
            return L.func('div', 'real', 'real', 'real')(s, L.real(m)) if L.sym else s / float(m)
        return s

    def ensures(self, L, A, N, R, G, V):
        X, y = A['X'], A['y']
        n, m = L.shape(X, 0), L.len(y)
        out = N['out']
        return [('length-kept', L.len(out) == n),
                ('row-norm', L.forall(0, n, lambda i: L.req(out[i], self.value(L, G, i, m))))]

    @property
    def invariants(self):
        kind = self.kind

        def rows_done(L, V, upto, val):
            out = V['out']
            return L.forall(0, upto, lambda t: L.req(out[t], val(t)))

        def inv_zero(L, V):          # zeroing loop
            out, i = V['out'], V['i']
            return [('len', L.len(out) == L.shape(V.old['X'], 0)), ('zeroed', L.forall(0, i, lambda t: out[t] == 0))]

        def inv_acc_outer(L, V):     # accumulation loop over rows
            out, i, S = V['out'], V['i'], V.ghost['S']
            n, m = L.shape(V.old['X'], 0), L.len(V.old['y'])
            return [('len', L.len(out) == n), ('done', L.forall(0, i, lambda t: L.req(out[t], S(t, m)))),
                    ('rest-zero', L.forall(i, n, lambda t: out[t] == 0))]

        def inv_acc_inner(L, V):
            out, i, j, S = V['out'], V['i'], V['j'], V.ghost['S']
            n, m = L.shape(V.old['X'], 0), L.len(V.old['y'])
            return [('len', L.len(out) == n), ('row-in-range', L.between(0, i, n)), ('partial', L.req(out[i], S(i, j))),
                    ('done', L.forall(0, i, lambda t: L.req(out[t], S(t, m)))), ('rest-zero', L.forall(i + 1, n, lambda t: out[t] == 0))]

        def inv_sqrt(L, V):
            out, i, S = V['out'], V['i'], V.ghost['S']
            n, m = L.shape(V.old['X'], 0), L.len(V.old['y'])
            sq = L.func('sqrt', 'real', 'real')
            return [('len', L.len(out) == n), ('rooted', L.forall(0, i, lambda t: L.req(out[t], sq(S(t, m))))),
                    ('not-yet', L.forall(i, n, lambda t: L.req(out[t], S(t, m))))]

        if kind == 'euclidean':
            return {1: inv_zero, 2: inv_acc_outer, 3: inv_acc_inner, 4: inv_sqrt}
        if kind == 'manhattan':
            return {1: inv_zero, 2: inv_acc_outer, 3: inv_acc_inner}

        def ham_outer(L, V):
            out, i, S = V['out'], V['i'], V.ghost['S']
            n, m = L.shape(V.old['X'], 0), L.len(V.old['y'])
            return [('len', L.len(out) == n), ('done', L.forall(0, i, lambda t: L.req(out[t], L.func('div', 'real', 'real', 'real')(S(t, m), L.real(m)))))]

        def ham_inner(L, V):
            out, i, j, S = V['out'], V['i'], V['j'], V.ghost['S']
            n, m = L.shape(V.old['X'], 0), L.len(V.old['y'])
            return [('len', L.len(out) == n), ('row-in-range', L.between(0, i, n)), ('partial', L.req(out[i], S(i, j))),
                    ('done', L.forall(0, i, lambda t: L.req(out[t], L.func('div', 'real', 'real', 'real')(S(t, m), L.real(m)))))]
        return {1: ham_outer, 2: ham_inner}

    def pins(self):
        import z3
        return [[z3.Int('n') == a, z3.Int('m') == b, z3.Int('my') == b, z3.Int('no') == a] for a, b in ((1, 1), (2, 1), (1, 2), (2, 2))]

    def want(self):
        import z3
        def num(v):
            try:
                fr = v.as_fraction(); return [int(fr.numerator), int(fr.denominator)]
            except Exception:
                try: return v.as_long()
                except Exception: return str(v)
        ek = z3.RealSort() if self.kind != 'hamming' else z3.IntSort()
        X, y = z3.Array('X', z3.IntSort(), z3.IntSort(), ek), z3.Array('y', z3.IntSort(), ek)
        sz = lambda m: (m.eval(z3.Int('n'), True).as_long(), m.eval(z3.Int('m'), True).as_long())
        return {'X': lambda m: [[num(m.eval(X[i, j], True)) for j in range(min(4, sz(m)[1]))] for i in range(min(4, sz(m)[0]))],
                'y': lambda m: [num(m.eval(y[j], True)) for j in range(min(4, sz(m)[1]))], 'kind': lambda m: self.kind}


class CheckDim(Contract):
    def __init__(self, name, want, dim):
        self.key, self.want_dim, self.dim, self.pname = F + name, want, dim, ('X' if name.endswith('2d') else 'x')

    def params(self, e, st):
        import z3
        from pyvc.logic import Arr
        return {self.pname: e.new_obj(st, Arr(e.fresh('a', e.arr_sort('real', self.dim)), tuple(z3.Int('d%d' % k) for k in range(self.dim)), 'real'))}

    def raises(self, L, A, G):
        a = A[self.pname]
        nd = a.ndim if L.sym else len(a.shape)
        return {'DataInvalid': nd != self.want_dim}

    def result(self, e, st, args):
        from pyvc.engine import NONE
        return NONE


class Prepare(Contract):
    """wrong rank / width / out dtype / out length raise DataInvalid; otherwise exactly the kernels' preconditions hold"""
    key = F + '_prepare_for_2d_to_1d_distance'

    def __init__(self, out='none', xdim=2, ydim=1):
        self.out, self.xdim, self.ydim = out, xdim, ydim

    def params(self, e, st):
        import z3
        from pyvc.logic import Arr
        from pyvc.engine import NONE
        xs = tuple(z3.Int('x%d' % k) for k in range(self.xdim))
        ys = tuple(z3.Int('y%d' % k) for k in range(self.ydim))
        p = {'X': e.new_obj(st, Arr(e.fresh('X', e.arr_sort('real', self.xdim)), xs, 'real')),
             'y': e.new_obj(st, Arr(e.fresh('y', e.arr_sort('real', self.ydim)), ys, 'real'))}
        if self.out == 'none':
            p['out'] = NONE
        else:
            p['out'] = e.new_obj(st, Arr(z3.Array('outbuf', z3.IntSort(), z3.RealSort()), (z3.Int('no'),), 'real', meta={'dtype': 'float64' if self.out == 'f64' else 'float32'}))
        return p

    def raises(self, L, A, G):
        X, y, out = A['X'], A['y'], A['out']
        if L.sym:
            bad = self.xdim != 2 or self.ydim != 1
            if not bad:
                bad = L.shape(X, 1) != L.len(y)
                if self.out != 'none':
                    bad = L.Or(bad, self.out != 'f64', L.len(out) != L.shape(X, 0))
            return {'DataInvalid': bad}
        import numpy as np
        bad = np.ndim(X) != 2 or np.ndim(y) != 1
        if not bad:
            bad = X.shape[1] != y.shape[0]
            if out is not None:
                bad = bad or out.dtype != np.float64 or out.shape[0] != X.shape[0] or out.ndim != 1
        return {'DataInvalid': bool(bad)}

    def result(self, e, st, args):
        X = e.deref(st, args['X'])
        from pyvc.engine import NoneV
        if isinstance(args['out'], NoneV):
            return e.fresh_arr(st, 'outbuf', 'real', (X.shape[0],))
        return args['out']

    def ensures(self, L, A, N, R, G, V):
        X = A['X']
        c = [('out-length-matches', L.len(R) == L.shape(X, 0))]
        if L.is_none(A['out']):
            c.append(('fresh-buffer-zeroed', L.forall(0, L.len(R), lambda i: R[i] == 0)))
        else:
            c.append(('callers-buffer-returned', (R is N['out']) if not L.sym else L.same_array(R, N['out'])))
        return c


class Public(Contract):
    """euclidean / manhattan / hamming (X, y, out=None): 1-D float64 result (the caller's buffer if given) holding the row norms"""
    def __init__(self, kind, out='none'):
        self.kind, self.out = kind, out
        self.key = F + kind
        self.modifies = ('out',) if out != 'none' else ()
        self.K = Kernel(kind)

    def params(self, e, st):
        import z3
        from pyvc.logic import Arr
        from pyvc.engine import NONE
        p = self.K.params(e, st)
        if self.out == 'none':
            p['out'] = NONE
        return p

    def ghost(self, L, A):
        return self.K.ghost(L, A)

    def requires(self, L, A, G):
        c = []
        if self.kind == 'hamming':
            c.append(('has-features', L.len(A['y']) >= 1))
        return c

    def raises(self, L, A, G):
        X, y, out = A['X'], A['y'], A['out']
        if L.sym:
            bad = L.shape(X, 1) != L.len(y)
            if self.out != 'none':
                bad = L.Or(bad, L.len(out) != L.shape(X, 0))
            return {'DataInvalid': bad}
        import numpy as np
        bad = np.ndim(X) != 2 or np.ndim(y) != 1 or X.shape[1] != y.shape[0]
        if not bad and out is not None:
            bad = out.dtype != np.float64 or out.ndim != 1 or out.shape[0] != X.shape[0]
        return {'DataInvalid': bool(bad)}

    def ensures(self, L, A, N, R, G, V):
        X, y = A['X'], A['y']
        n, m = L.shape(X, 0), L.len(y)
        c = [('one-value-per-row', L.len(R) == n), ('row-norm', L.forall(0, n, lambda i: L.req(R[i], self.K.value(L, G, i, m))))]
        if not L.is_none(A['out']):
            c.append(('callers-buffer-holds-the-result', L.same_array(R, N['out'])))
        if not L.sym:
            import numpy as np
            c.append(('one-dimensional-float64', isinstance(R, np.ndarray) and R.ndim == 1 and R.dtype == np.float64))
        return c

    def pins(self):
        return self.K.pins()

    def want(self):
        return self.K.want()


def registry(kind='euclidean', out='none'):
    cs = [Kernel('euclidean'), Kernel('manhattan'), Kernel('hamming'), Prepare(out), CheckDim('_check_is_2d', 2, 2), CheckDim('_check_is_1d', 1, 1)]
    reg = {c.key: c for c in cs}
    p = Public(kind, out)
    reg[p.key] = p
    return reg
