"""Contracts for enspara/tpt/tpt.py (C08, dense branch): _get_data_from_tprob, reactive_fluxes, net_fluxes.
   f[i,j] = pi_i (1 - q_i) T_ij q_j off the diagonal, 0 on it;   net[i,j] = max(f[i,j] - f[j,i], 0).
The committor vector q is the result of core.committors (C07): only its length and its pinning clauses are used here."""
from pyvc.spec import Contract

F = 'enspara/tpt/tpt.py::'
CORE = 'enspara/tpt/core.py::'


def sym_matrix(e, st, name='tprob'):
    import z3
    from pyvc.logic import Arr
    n = z3.Int('n')
    return e.new_obj(st, Arr(z3.Array(name, z3.IntSort(), z3.IntSort(), z3.RealSort()), (n, n), 'real'))


def sym_states(e, st, name, ln):
    import z3
    from pyvc.logic import Arr
    return e.new_obj(st, Arr(z3.Array(name, z3.IntSort(), z3.IntSort()), (z3.Int(ln),), 'int', meta={'list': True}))


def sym_pops(e, st):
    import z3
    from pyvc.logic import Arr
    return e.new_obj(st, Arr(z3.Array('populations', z3.IntSort(), z3.RealSort()), (z3.Int('n'),), 'real'))


class CommittorsOpaque(Contract):
    """call-site contract of core.committors: a fresh vector of one value per state, 0 on sources, 1 on sinks"""
    key = CORE + 'committors'

    def requires(self, L, A, G):
        return []

    def result(self, e, st, args):
        n = e.deref(st, args['tprob']).shape[0]
        return e.fresh_arr(st, 'q', 'real', (n,))

    def ensures(self, L, A, N, R, G, V):
        so, si = A['sources'], A['sinks']
        return [('one-per-state', L.len(R) == L.shape(A['tprob'], 0)),
                ('zero-on-sources', L.forall(0, L.len(so), lambda k: R[so[k]] == 0)),
                ('one-on-sinks', L.forall(0, L.len(si), lambda k: R[si[k]] == 1))]


class GetData(Contract):
    key = F + '_get_data_from_tprob'

    def params(self, e, st):
        return {'tprob': sym_matrix(e, st), 'sources': sym_states(e, st, 'sources', 'ns'), 'sinks': sym_states(e, st, 'sinks', 'nk'),
                'populations': sym_pops(e, st)}

    def requires(self, L, A, G):
        n = L.shape(A['tprob'], 0)
        return [('square', L.shape(A['tprob'], 1) == n), ('one-population-per-state', L.len(A['populations']) == n),
                ('states-in-range', L.And(L.forall(0, L.len(A['sources']), lambda k: L.between(0, A['sources'][k], n)),
                                          L.forall(0, L.len(A['sinks']), lambda k: L.between(0, A['sinks'][k], n))))]

    def result(self, e, st, args):
        from pyvc.engine import Tup
        n = e.deref(st, args['tprob']).shape[0]
        return Tup([args['populations'], n, e.fresh_arr(st, 'fwd', 'real', (n,)), e.fresh_arr(st, 'rev', 'real', (n,))])

    def ensures(self, L, A, N, R, G, V):
        pi, n, fwd, rev = R
        so, si = A['sources'], A['sinks']
        nn = L.shape(A['tprob'], 0)
        return [('populations-are-the-given-ones', L.same_array(pi, A['populations'])), ('n-states', n == nn),
                ('lengths', L.And(L.len(fwd) == nn, L.len(rev) == nn)),
                ('backward-committor-is-one-minus-forward', L.forall(0, nn, lambda i: rev[i] == 1 - fwd[i])),
                ('forward-zero-on-sources', L.forall(0, L.len(so), lambda k: fwd[so[k]] == 0)),
                ('forward-one-on-sinks', L.forall(0, L.len(si), lambda k: fwd[si[k]] == 1))]


class ReactiveFluxes(Contract):
    key = F + 'reactive_fluxes'
    abstract_nonlinear = False

    def params(self, e, st):
        return GetData().params(e, st)

    def requires(self, L, A, G):
        return GetData().requires(L, A, G)

    def ghost(self, L, A):
        if L.sym:
            import z3
            q = z3.Function('Q', z3.IntSort(), z3.RealSort())      # the forward committor (ghost name for the callee's result)
            return {'q': q}, []
        return None, []

    def result(self, e, st, args):
        n = e.deref(st, args['tprob']).shape[0]
        return e.fresh_arr(st, 'fluxes', 'real', (n, n))

    def ensures(self, L, A, N, R, G, V):
        T, pi = A['tprob'], A['populations']
        n = L.shape(T, 0)
        if V is not None:
            q = V['forward_committors']
        else:
            return [('shape', L.And(L.shape(R, 0) == n, L.shape(R, 1) == n)),
                    ('zero-diagonal', L.forall(0, n, lambda i: R[i, i] == 0)),
                    ('flux-factorises', L.forall2((0, n), (0, n), lambda i, j: L.implies(i != j, R[i, j] == pi[i] * (1 - G['q'](i)) * T[i, j] * G['q'](j)))),
                    ('q-pinned', L.And(L.forall(0, L.len(A['sources']), lambda k: G['q'](A['sources'][k]) == 0),
                                       L.forall(0, L.len(A['sinks']), lambda k: G['q'](A['sinks'][k]) == 1)))]
        return [('shape', L.And(L.shape(R, 0) == n, L.shape(R, 1) == n)),
                ('zero-diagonal', L.forall(0, n, lambda i: R[i, i] == 0)),
                ('flux-definition', L.forall2((0, n), (0, n), lambda i, j: L.implies(i != j, R[i, j] == pi[i] * (1 - q[i]) * T[i, j] * q[j]))),
                ('nothing-out-of-sinks-nothing-into-sources', L.And(
                    L.forall2((0, L.len(A['sinks'])), (0, n), lambda k, j: R[A['sinks'][k], j] == 0),
                    L.forall2((0, L.len(A['sources'])), (0, n), lambda k, i: R[i, A['sources'][k]] == 0)))]


class NetFluxes(Contract):
    key = F + 'net_fluxes'
    abstract_nonlinear = False

    def params(self, e, st):
        return GetData().params(e, st)

    def requires(self, L, A, G):
        return GetData().requires(L, A, G)

    def ensures(self, L, A, N, R, G, V):
        n = L.shape(A['tprob'], 0)
        f = V['fluxes']
        return [('shape', L.And(L.shape(R, 0) == n, L.shape(R, 1) == n)),
                ('positive-part-of-flux-minus-transpose', L.forall2((0, n), (0, n), lambda i, j: R[i, j] == L.max(f[i, j] - f[j, i], 0))),
                ('at-most-one-direction', L.forall2((0, n), (0, n), lambda i, j: L.Or(R[i, j] == 0, R[j, i] == 0))),
                ('non-negative', L.forall2((0, n), (0, n), lambda i, j: R[i, j] >= 0))]


class ReactivePopulations(Contract):
    """reactive_populations: m_i = pi_i q+_i q-_i, normalised by its total; zero on sources and sinks (given a non-zero total)"""
    key = F + 'reactive_populations'
    abstract_nonlinear = False

    def params(self, e, st):
        return GetData().params(e, st)

    def requires(self, L, A, G):
        return GetData().requires(L, A, G)

    def ensures(self, L, A, N, R, G, V):
        pi = A['populations']
        n = L.shape(A['tprob'], 0)
        out = [('one-value-per-state', L.len(R) == n)]
        if V is not None and L.sym:
            import z3
            q, d = V['forward_committors'], V['densities']
            tot = z3.Function('SUM1_real', d.term.sort(), z3.IntSort(), z3.RealSort())(d.term, n)
            out += [('density-is-population-times-both-committors', L.forall(0, n, lambda i: d[i] == pi[i] * q[i] * (1 - q[i]))),
                    ('normalised-by-the-total-density', L.forall(0, n, lambda i: L.implies(tot != 0, R[i] * tot == d[i]))),
                    ('zero-on-sources-and-sinks', L.implies(tot != 0, L.And(L.forall(0, L.len(A['sources']), lambda k: R[A['sources'][k]] == 0),
                                                                        L.forall(0, L.len(A['sinks']), lambda k: R[A['sinks'][k]] == 0))))]
        return out


def registry():
    cs = [CommittorsOpaque(), GetData(), ReactiveFluxes(), NetFluxes(), ReactivePopulations()]
    return {c.key: c for c in cs}
