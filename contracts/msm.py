"""Contracts for enspara/msm/msm.py (C16): MSM.__init__, MSM.fit, config.
fit = method(trim?(assigns_to_counts(assigns, lag_time, max_n_states, sliding_window))) on the *constructor arguments*.
The three pipeline functions are uninterpreted (COUNTS, TRIM, the builder callable) in the proof: C16 is about the composition;
what each computes is C03 / C11 / C04."""
from pyvc.spec import Contract

F = 'enspara/msm/msm.py::'
TM = 'enspara/msm/transition_matrices.py::'


def O():
    from pyvc.logic import sort_of
    return sort_of('obj')


def none_or(v):
    """encoding of an optional int as a z3 Int (None -> -1)"""
    import z3
    from pyvc.engine import NoneV
    return z3.IntVal(-1) if isinstance(v, NoneV) or v is None else v


class Init(Contract):
    key = F + 'MSM.__init__'
    modifies = ('self',)

    def params(self, e, st):
        import z3
        from pyvc.engine import RecV
        return {'self': e.new_obj(st, RecV('MSM', {})), 'lag_time': z3.Int('lag_time'), 'method': z3.Const('method', O()),
                'trim': z3.Bool('trim'), 'sliding_window': z3.Bool('sliding_window'), 'max_n_states': z3.Int('max_n_states')}

    def requires(self, L, A, G):
        if L.sym:
            import z3
            return [('method-is-callable', z3.Function('IS_CALLABLE', O(), z3.BoolSort())(A['method']))]
        return [('method-is-callable', callable(A['method']))]

    def ensures(self, L, A, N, R, G, V):
        s = N['self']
        return [('stores-lag_time', L.eq(s.lag_time, A['lag_time'])), ('stores-trim', L.iff(s.trim, A['trim'])),
                ('stores-max_n_states', L.eq(s.max_n_states, A['max_n_states'])),
                ('stores-sliding_window', L.iff(s.sliding_window, A['sliding_window'])),
                ('stores-method', (s.method == A['method']) if L.sym else (s.method is A['method']))]

    def want(self):
        import z3
        return {'lag_time': lambda m: m.eval(z3.Int('lag_time'), True).as_long(), 'trim': lambda m: z3.is_true(m.eval(z3.Bool('trim'), True)),
                'sliding_window': lambda m: z3.is_true(m.eval(z3.Bool('sliding_window'), True))}


class CountsOpaque(Contract):
    """call-site contract: the count matrix is a function of exactly these four arguments"""
    key = TM + 'assigns_to_counts'

    def result(self, e, st, args):
        import z3
        f = z3.Function('COUNTS', O(), z3.IntSort(), z3.IntSort(), z3.BoolSort(), O())
        from pyvc.engine import to_z3, to_bool
        sw = to_bool(args['sliding_window'])
        return f(args['assigns'], to_z3(args['lag_time']), none_or(args['max_n_states']), z3.BoolVal(sw) if isinstance(sw, bool) else sw)


class TrimOpaque(Contract):
    key = TM + 'trim_disconnected'

    def result(self, e, st, args):
        import z3
        from pyvc.engine import Tup
        c = args['counts']
        return Tup([z3.Function('TRIM_MAPPING', O(), O())(c), z3.Function('TRIM_COUNTS', O(), O())(c)])


class Fit(Contract):
    key = F + 'MSM.fit'
    modifies = ('self',)

    def __init__(self, trim=None):
        self.trim = trim

    def params(self, e, st):
        import z3
        from pyvc.engine import RecV
        fields = {'lag_time': z3.Int('self_lag_time'), 'trim': z3.Bool('self_trim') if self.trim is None else self.trim,
                  'max_n_states': z3.Int('self_max_n_states'), 'sliding_window': z3.Bool('self_sliding_window'), 'method': z3.Const('self_method', O())}
        return {'self': e.new_obj(st, RecV('MSM', fields)), 'assigns': z3.Const('assigns', O())}

    def requires(self, L, A, G):
        if L.sym:
            return []
        # the builders' own domain (C04): after counting and trimming every state has outgoing counts
        import numpy as np
        from enspara.msm import transition_matrices as T
        s0 = A['self']
        tc = T.assigns_to_counts(A['assigns'], lag_time=s0.lag_time, max_n_states=s0.max_n_states, sliding_window=s0.sliding_window)
        if s0.trim:
            _, tc = T.trim_disconnected(tc)
        d = np.asarray(tc.toarray() if hasattr(tc, 'toarray') else tc)
        return [('every-state-has-outgoing-counts', bool((d.sum(axis=1) > 0).all()))]

    def ensures(self, L, A, N, R, G, V):
        s0, s = A['self'], N['self']
        if L.sym:
            import z3
            Ob = O()
            tc = z3.Function('COUNTS', Ob, z3.IntSort(), z3.IntSort(), z3.BoolSort(), Ob)(A['assigns'], s0.lag_time, s0.max_n_states, s0.sliding_window)
            tc2 = z3.If(s0.trim, z3.Function('TRIM_COUNTS', Ob, Ob)(tc), tc)
            mp = z3.If(s0.trim, z3.Function('TRIM_MAPPING', Ob, Ob)(tc),
                       z3.Function('IDENTITY_MAPPING', z3.IntSort(), Ob)(z3.Function('NROWS', Ob, z3.IntSort())(tc)))
            res = z3.Function('APPLY1_Obj', Ob, Ob, Ob)(s0.method, tc2)
            item = lambda k: z3.Function('ITEM%d' % k, Ob, Ob)(res)
            return [('mapping-is-trim-mapping-or-identity', s.mapping_ == mp), ('counts-from-the-builder', s.tcounts_ == item(0)),
                    ('probabilities-from-the-builder', s.tprobs_ == item(1)), ('populations-from-the-builder', s.eq_probs_ == item(2)),
                    ('configuration-untouched', L.And(s.lag_time == s0.lag_time, s.trim == s0.trim, s.max_n_states == s0.max_n_states,
                                                      s.sliding_window == s0.sliding_window, s.method == s0.method))]
        import numpy as np
        from enspara.msm import transition_matrices as T
        tc = T.assigns_to_counts(A['assigns'], lag_time=s0.lag_time, max_n_states=s0.max_n_states, sliding_window=s0.sliding_window)
        if s0.trim:
            mp, tc = T.trim_disconnected(tc)
        else:
            mp = T.TrimMapping(zip(range(tc.shape[0]), range(tc.shape[0])))
        c, t, p = s0.method(tc)
        dn = lambda x: np.asarray(x.toarray() if hasattr(x, 'toarray') else x)
        return [('mapping-is-trim-mapping-or-identity', s.mapping_ == mp), ('counts-from-the-builder', bool(np.array_equal(dn(s.tcounts_), dn(c)))),
                ('probabilities-from-the-builder', bool(np.allclose(dn(s.tprobs_), dn(t), rtol=1e-12, atol=0))),
                ('populations-from-the-builder', bool(np.allclose(np.asarray(s.eq_probs_), np.asarray(p), rtol=1e-12, atol=0))),
                ('configuration-untouched', s.lag_time == s0.lag_time and s.trim == s0.trim and s.max_n_states == s0.max_n_states and
                 s.sliding_window == s0.sliding_window and s.method is s0.method)]


class Config(Contract):
    key = F + 'MSM.config'

    def params(self, e, st):
        import z3
        from pyvc.engine import RecV
        fields = {'lag_time': z3.Int('self_lag_time'), 'trim': z3.Bool('self_trim'), 'max_n_states': z3.Int('self_max_n_states'),
                  'sliding_window': z3.Bool('self_sliding_window'), 'method': z3.Const('self_method', O())}
        return {'self': e.new_obj(st, RecV('MSM', fields))}

    def ensures(self, L, A, N, R, G, V):
        s = A['self']
        g = (lambda k: R[k]) if not L.sym else (lambda k: R[1][k])
        return [('reports-lag_time', L.eq(g('lag_time'), s.lag_time)), ('reports-sliding_window', L.iff(g('sliding_window'), s.sliding_window)),
                ('reports-trim', L.iff(g('trim'), s.trim))]


def registry():
    cs = [Init(), Fit(), Config(), CountsOpaque(), TrimOpaque()]
    return {c.key: c for c in cs}
