"""Contract for enspara/msm/transition_matrices.py::trim_disconnected (C11, dense branch).
With labels = SciPy's SCC labelling of the thresholded graph (assumed primitive contract) and
W(c) = sum of the original row totals over the states of component c:
  keep  = the increasing list of exactly the states of c* = first argmax_c W(c)
  renumbered: trimmed[a,b] = counts[keep[a], keep[b]], mapping new t <-> original keep[t] (order preserving bijection)
  in place  : trimmed[i,j] = counts[i,j] if both i and j are kept else 0, mapping identity on the kept states
  the caller's matrix is unchanged."""
from pyvc.spec import Contract

F = 'enspara/msm/transition_matrices.py::'


class Trim(Contract):
    key = F + 'trim_disconnected'

    def __init__(self, renumber=True):
        self.renumber = renumber

    def params(self, e, st):
        import z3
        from pyvc.logic import Arr
        n = z3.Int('n')
        return {'counts': e.new_obj(st, Arr(z3.Array('counts', z3.IntSort(), z3.IntSort(), z3.IntSort()), (n, n), 'int')),
                'threshold': z3.Int('threshold'), 'renumber_states': self.renumber}

    def requires(self, L, A, G):
        C = A['counts']
        n = L.shape(C, 0)
        return [('square-nonempty', L.And(L.shape(C, 1) == n, n >= 1))]

    def ensures(self, L, A, N, R, G, V):
        C, thr = A['counts'], A['threshold']
        n = L.shape(C, 0)
        mapping, T = R
        lab, keep, cstar, nsub, pops, thc = V['labels'], V['keep_states'], V['maxpop_subgraph'], V['n_subgraphs'], V['pops'], V['thresholded_counts']
        import z3
        W = lambda c: z3.Function('MASKSUM_int', pops.term.sort(), z3.ArraySort(z3.IntSort(), z3.BoolSort()), z3.IntSort(), z3.IntSort())(
            pops.term, z3.Lambda([z3.Int('i!0')], lab[z3.Int('i!0')] == c), n)
        rowsum = z3.Function('AXSUM1_int', C.term.sort(), z3.IntSort(), z3.IntSort(), z3.IntSort(), z3.IntSort())
        scc = z3.Function('SCC_LABELS', thc.term.sort(), z3.IntSort(), lab.term.sort(), z3.BoolSort())
        k = L.len(keep)
        out = [('graph-is-counts-at-or-above-threshold', L.forall2((0, n), (0, n), lambda i, j: thc[i, j] == L.ite(C[i, j] < thr, 0, C[i, j]))),
               ('components-are-scipys-strong-components-of-that-graph', scc(thc.term, n, lab.term)),
               ('component-weight-uses-original-row-totals', L.forall(0, n, lambda i: pops[i] == rowsum(C.term, n, n, i))),
               ('kept-component-is-heaviest', L.And(L.between(0, cstar, nsub), L.forall(0, nsub, lambda c: W(c) <= W(cstar)), L.forall(0, cstar, lambda c: W(c) < W(cstar)))),
               ('kept-states-are-exactly-that-component', L.And(L.forall(0, k, lambda t: L.And(L.between(0, keep[t], n), lab[keep[t]] == cstar)),
                                                                 L.forall(0, n, lambda s: L.implies(lab[s] == cstar, L.exists(0, k, lambda t: keep[t] == s))))),
               ('kept-states-increasing', L.forall2((0, k), (0, k), lambda a, b: L.implies(a < b, keep[a] < keep[b]))),
               ('mapping-originals-are-the-kept-states', L.same_array(mapping.original, keep))]
        if self.renumber:
            out += [('trimmed-keeps-counts-between-kept-states', L.And(L.shape(T, 0) == k, L.shape(T, 1) == k,
                                                                      L.forall2((0, k), (0, k), lambda a, b: T[a, b] == C[keep[a], keep[b]]))),
                    ('mapping-is-order-preserving', L.And(L.len(mapping.mapped) == k, L.forall(0, k, lambda t: mapping.mapped[t] == t)))]
        else:
            out += [('in-place-keeps-kept-and-zeroes-removed', L.And(L.shape(T, 0) == n, L.shape(T, 1) == n,
                                                                    L.forall2((0, n), (0, n), lambda i, j: T[i, j] == L.ite(L.And(lab[i] == cstar, lab[j] == cstar), C[i, j], 0)))),
                    ('mapping-is-identity-on-kept', L.same_array(mapping.mapped, keep))]
        return out

    def pins(self):
        import z3
        return [[z3.Int('n') == a] for a in (1, 2, 3)]


def registry(renumber=True):
    c = Trim(renumber)
    return {c.key: c}
