"""Contract for RaggedArray.__setitem__ with paired (row, column) index arrays and a scalar value (C06):
against the list of rows row(t)[j] := _data[PS(t) + j]  -  exactly the addressed cells receive the value, every other cell of the
flat data keeps its value, the row lengths are unchanged, IndexError exactly when an element lies outside its row (and then nothing
was written), the caller's index arrays are unchanged.  The rebuilt object-array view `_array` is not modelled (bounded driver)."""
from pyvc.spec import Contract
from contracts.ra_partition import prefix_sums, PartitionList
from contracts import ra_index as RI

F = RI.F


class SetItemPaired(Contract):
    key = F + 'RaggedArray.__setitem__'
    modifies = ('self',)
    prune_paths = True

    def params(self, e, st):
        import z3
        from pyvc.engine import Tup
        return {'self': RI._ra_self(e, st), 'iis': Tup([RI._arr(e, st, 'r', 'M'), RI._arr(e, st, 'c', 'M2')]), 'value': z3.Real('value')}

    def ghost(self, L, A):
        PS, ax = prefix_sums(L, A['self'].lengths, 'PSG')
        return {'PS': PS}, ax

    def lemmas(self, L, A, G):
        if not L.sym:
            return []
        n, PS = L.len(A['self'].lengths), G['PS']
        return [dict(name='prefix-sums-below-total', lo=0, hi=n, down=True, P=lambda t: PS(t) <= PS(n)),
                dict(name='prefix-sums-nonneg', lo=0, hi=n, down=False, P=lambda t: PS(t) >= 0)]

    def requires(self, L, A, G):
        s = A['self']
        ln, n = s.lengths, L.len(s.lengths)
        r, c = A['iis']
        return [('some-rows', n >= 1), ('lengths-positive', L.forall(0, n, lambda t: ln[t] >= 1)), ('flat-data-holds-all-rows', L.len(s._data) == G['PS'](n)),
                ('paired-indices', L.And(L.len(r) == L.len(c), L.len(r) >= 1)), ('rows-addressable', L.forall(0, L.len(r), lambda k: L.And(r[k] >= -n, r[k] < n)))]

    def raises(self, L, A, G):
        (r, c), ln = A['iis'], A['self'].lengths
        n = L.len(ln)
        return {'IndexError': L.exists(0, L.len(r), lambda k: L.Or(c[k] < -ln[RI.norm_row(L, r[k], n)], c[k] >= ln[RI.norm_row(L, r[k], n)]))}

    def ensures(self, L, A, N, R, G, V):
        s0, s1 = A['self'], N['self']
        ln, n, PS = s0.lengths, L.len(s0.lengths), G['PS']
        r, c = A['iis']
        rp = lambda k: RI.norm_row(L, r[k], n)
        cp = lambda k: L.ite(c[k] < 0, c[k] + ln[rp(k)], c[k])
        hit = lambda p: L.exists(0, L.len(r), lambda k: p == PS(rp(k)) + cp(k))
        tot = L.len(s0._data)
        return [('row-lengths-unchanged', L.same_array(s1.lengths, s0.lengths)),
                ('flat-data-keeps-its-size', L.len(s1._data) == tot),
                ('addressed-cells-receive-the-value', L.forall(0, L.len(r), lambda k: s1._data[PS(rp(k)) + cp(k)] == A['value'])),
                ('every-other-cell-is-unchanged', L.forall(0, tot, lambda p: L.implies(L.Not(hit(p)), s1._data[p] == s0._data[p])))]

    def pins(self):
        import z3
        return [[z3.Int('N') == 2, z3.Int('M') == 1, z3.Int('M2') == 1, z3.Int('ND') == 2]]


def registry():
    cs = [SetItemPaired(), RI.HandleNegative(), RI.ConvertFrom2d(), RI.Starts(), RI.RaggedInit(), PartitionList()]
    return {c.key: c for c in cs}


class SetItemSlice(RI.GetItem):
    store_witness = True
    """a[rows, lo:hi] = v, a[lo:hi, lo:hi] = v (scalar v): exactly the cells (selected row p, position S_p + j), j < count_p, of the
    flat data receive the value; every other cell and the row lengths are unchanged.  Same ghost (block offsets, Python slice
    bounds) and the same selection forms as RaggedArray.__getitem__ in contracts/ra_index.py."""
    key = F + 'RaggedArray.__setitem__'
    modifies = ('self',)
    store_witness = True

    def params(self, e, st):
        import z3
        out = RI.GetItem.params(self, e, st)
        out['value'] = z3.Real('value')
        return out

    def raises(self, L, A, G):
        return {}

    def ghost(self, L, A):
        G, ax = RI.GetItem.ghost(self, L, A)
        if L.sym:
            # every position below the total lies in exactly one block of the offsets (block_exists, lemmas/Sums.lean)
            import z3
            m = self.rows_of(L, A)[0]
            OFF, BLK = G['OFF'], L.func('OFFBLK', 'int', 'int')
            k = L.var('q')
            ax = ax + [z3.ForAll([k], z3.Implies(z3.And(k >= 0, k < OFF(m)), z3.And(BLK(k) >= 0, BLK(k) < m, OFF(BLK(k)) <= k, k < OFF(BLK(k) + 1))))]
        return G, ax

    @property
    def cuts(self):
        def targets(L, V):
            A = V.old
            ln, PS, OFF, cnt = A['self'].lengths, V.ghost['PS'], V.ghost['OFF'], V.ghost['cnt']
            sl = A['iis'][1]
            m, row = self.rows_of(L, A)
            S = lambda p: RI.py_bounds(L, sl, ln[row(p)])[0]
            flat = V['iis_1d'][0]
            BLK = L.func('OFFBLK', 'int', 'int')
            return [dict(name='flat-targets-are-the-selected-cells-in-order',
                         fact=L.And(L.len(flat) == OFF(m), L.forall_dep(0, m, cnt, lambda p, j: flat[OFF(p) + j] == PS(row(p)) + S(p) + j))),
                    # the same, read by position (so that an arbitrary target can be traced back to its selected cell)
                    dict(name='every-flat-target-is-a-selected-cell', using=['cut:flat-targets-are-the-selected-cells-in-order'],
                         fact=L.forall(0, OFF(m), lambda k: L.And(k - OFF(BLK(k)) >= 0, k - OFF(BLK(k)) < cnt(BLK(k)),
                                                                  flat[k] == PS(row(BLK(k))) + S(BLK(k)) + (k - OFF(BLK(k))))))]
        return {'iis_1d#2': targets}

    def ensures(self, L, A, N, R, G, V):
        s0, s1 = A['self'], N['self']
        ln, PS = s0.lengths, G['PS']
        sl = A['iis'][1]
        m, row = self.rows_of(L, A)
        cnt = G['cnt']
        S = lambda p: RI.py_bounds(L, sl, ln[row(p)])[0]
        tot = L.len(s0._data)
        import z3
        def hit(q):
            # q lies in the window of some selected row: PS(row) + S <= q < PS(row) + S + count
            return L.exists(0, m, lambda p: L.And(PS(row(p)) + S(p) <= q, q < PS(row(p)) + S(p) + cnt(p)))
        return [('row-lengths-unchanged', L.same_array(s1.lengths, s0.lengths)),
                ('flat-data-keeps-its-size', L.len(s1._data) == tot),
                ('selected-cells-receive-the-value', L.forall_dep(0, m, cnt, lambda p, j: s1._data[PS(row(p)) + S(p) + j] == A['value']),
                 ['store:self._data[iis_1d]', 'cut:flat-targets-are-the-selected-cells-in-order', 'lemma:block-offsets-below-total', 'lemma:every-selected-row-contributes'] + self.row_facts()),
                ('every-other-cell-is-unchanged', L.forall(0, tot, lambda q: L.implies(L.Not(hit(q)), s1._data[q] == s0._data[q])),
                 ['store:self._data[iis_1d]', 'cut:every-flat-target-is-a-selected-cell', 'cut:flat-targets-are-the-selected-cells-in-order', 'lemma:block-offsets-below-total', 'lemma:every-selected-row-contributes'] + self.row_facts())]


def registry_slice(form='rows-slice', start_none=False, stop_none=False, exclude=(), row_none=(True, True)):
    cs = [SetItemSlice(form, start_none, stop_none, exclude, row_none), RI.HandleNegative(), RI.ConvertFrom2d(), RI.Starts(), RI.RaggedInit(), PartitionList(),
          RI.IisFromSlices(start_none, stop_none, True, exclude), RI.IisFromList(), RI.SliceToList()]
    return {c.key: c for c in cs}
