"""Run-time contracts for the transition-matrix builders (C04) and the reversible ML estimator (C12) - bounded stand-ins."""
from pyvc.spec import Contract


def dense(x):
    import numpy as np
    return np.asarray(x.toarray() if hasattr(x, 'toarray') else x, dtype=float)


class Builder(Contract):
    """C04 for one builder call"""
    def __init__(self, name):
        self.name = name
        self.key = 'enspara/msm/builders.py::' + name

    def requires(self, L, A, G):
        import numpy as np
        C = dense(A['C'])
        pr = A.get('prior_counts')
        Cp = C + (0 if pr is None else pr)
        c = [('non-negative', bool((C >= 0).all())), ('every-state-has-outgoing-counts', bool((Cp.sum(axis=1) > 0).all()))]
        if self.name == 'mle' or A.get('calculate_eq_probs', True):
            n = len(Cp)
            reach = np.linalg.matrix_power((Cp > 0).astype(float) + np.eye(n), n) > 0
            c.append(('strongly-connected-for-stationarity-and-ML', bool(reach.all())))
        return c

    def ensures(self, L, A, N, R, G, V):
        import numpy as np
        import scipy.sparse
        Cin, pr = A['C'], A.get('prior_counts')
        C = dense(Cin) + (0 if pr is None else pr)
        want_eq = A.get('calculate_eq_probs', True)
        Cout, T, pi = R
        Td = dense(T)
        n = len(C)
        out = [('rows-are-distributions', bool(np.allclose(Td.sum(axis=1), 1.0, atol=1e-9)) and bool((Td >= -1e-12).all()))]
        if self.name == 'normalize':
            out.append(('row-normalised-equals-counts-over-row-totals', bool(np.allclose(Td, C / C.sum(axis=1)[:, None], rtol=1e-12, atol=1e-15))))
            out.append(('counts-returned-with-prior', bool(np.allclose(dense(Cout), C))))
        if self.name == 'mle':
            out.append(('counts-returned-equal-the-input-counts', bool(np.allclose(dense(Cout), C))))
            # "prior counts are added before estimation", whether or not populations were asked for: the returned matrix solves the
            # reversible-ML self-consistency equations (as in PrinzMLE below) of counts + prior, with T's own stationary vector
            w, v = np.linalg.eig(Td.T)
            p0 = np.real(v[:, int(np.argmax(np.real(w)))])
            p0 = p0 / p0.sum()
            X = p0[:, None] * Td
            X = X / X.sum()
            xr, cr = X.sum(axis=1), C.sum(axis=1)
            lhs = X * (cr[:, None] / xr[:, None] + cr[None, :] / xr[None, :])
            out.append(('estimate-of-counts-plus-prior', bool(np.allclose(lhs, C + C.T, rtol=1e-4, atol=1e-6 * C.sum()))))
        if self.name == 'transpose':
            S = C + C.T
            out.append(('symmetrised-then-normalised', bool(np.allclose(Td, S / S.sum(axis=1)[:, None], rtol=1e-12, atol=1e-15))))
            out.append(('counts-returned-symmetrised', bool(np.allclose(dense(Cout), S / 2))))
        if want_eq:
            out.append(('populations-returned-when-asked', pi is not None))
        if pi is not None:
            p = np.asarray(pi, dtype=float).flatten()
            out += [('populations-are-a-distribution', abs(p.sum() - 1) < 1e-9 and bool((p >= -1e-12).all()) and len(p) == n),
                    ('populations-stationary', bool(np.allclose(p @ Td, p, atol=1e-8)))]
            if self.name in ('transpose', 'mle'):
                F = p[:, None] * Td
                out.append(('detailed-balance', bool(np.allclose(F, F.T, atol=1e-8))))
        # container clauses
        sparse_in = scipy.sparse.issparse(Cin)
        if not sparse_in or pr is None:
            out.append(('probabilities-keep-container-type', type(T) is type(Cin)))
        else:
            out.append(('probabilities-container-or-densified', type(T) is type(Cin) or isinstance(T, np.ndarray)))
        return out


class BuilderAgreement(Contract):
    """same numbers for dense input and every sparse container; prior counts are added before estimation"""
    key = 'enspara/msm/builders.py::[container-agreement]'

    def ensures(self, L, A, N, R, G, V):
        import numpy as np
        ref, got = A['reference'], R
        out = []
        for k, nm in enumerate(('counts', 'probabilities', 'populations')):
            a, b = ref[k], got[k]
            ok = (a is None and b is None) or (a is not None and b is not None and bool(np.allclose(dense(a) if k < 2 else np.asarray(a).flatten(),
                                                                                                   dense(b) if k < 2 else np.asarray(b).flatten(), rtol=1e-9, atol=1e-12)))
            out.append(('same-' + nm, ok))
        return out


class PrinzMLE(Contract):
    """C12: fixed point of the Prinz self-consistency equations, likelihood at least that of the transpose estimate
    and of random reversible competitors with the same support, both implementations agree, no internal assertion failure"""
    def __init__(self, which):
        self.which = which
        self.key = 'enspara/msm/builders.py::' + which

    def requires(self, L, A, G):
        import numpy as np
        C = dense(A['C'])
        n = len(C)
        reach = np.linalg.matrix_power((C > 0).astype(float) + np.eye(n), n) > 0
        return [('strongly-connected', bool(reach.all())), ('non-negative', bool((C >= 0).all()))]

    def ensures(self, L, A, N, R, G, V):
        import numpy as np
        C = dense(A['C'])
        T, pi = np.asarray(R[0], dtype=float), np.asarray(R[1], dtype=float).flatten()
        n = len(C)
        X = pi[:, None] * T
        X = X / X.sum()
        xr, cr = X.sum(axis=1), C.sum(axis=1)
        out = [('row-stochastic', bool(np.allclose(T.sum(axis=1), 1, atol=1e-9))), ('reversible', bool(np.allclose(X, X.T, atol=1e-9)))]
        # Prinz self-consistency (scale-free form): x_ij (c_i/x_i + c_j/x_j) = c_ij + c_ji up to a common factor N = sum C
        Nn = C.sum()
        lhs = X * (cr[:, None] / xr[:, None] + cr[None, :] / xr[None, :])
        out.append(('self-consistency-equations', bool(np.allclose(lhs, (C + C.T), rtol=1e-4, atol=1e-6 * Nn))))

        def loglik(P):
            m = C > 0
            if (P[m] <= 0).any():
                return -np.inf
            return float((C[m] * np.log(P[m])).sum())
        ll = loglik(T)
        S = C + C.T
        out.append(('likelihood-at-least-transpose-estimate', ll >= loglik(S / S.sum(axis=1)[:, None]) - 1e-6 * max(1.0, abs(ll))))
        rng = np.random.default_rng(12345)
        ok = True
        for _ in range(20):
            W = (S > 0) * rng.random((n, n))
            W = W + W.T
            P = W / W.sum(axis=1)[:, None]
            ok = ok and ll >= loglik(P) - 1e-6 * max(1.0, abs(ll))
        out.append(('likelihood-at-least-random-reversible-competitors', ok))
        return out
