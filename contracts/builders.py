"""Contracts for the dense branches of enspara/msm/builders.py (C04): _apply_prior_counts, _row_normalize, normalize, transpose.
   w_i = sum_j C[i,j];  rownorm(C)[i,j] = C[i,j] * (1/w_i if w_i > 0 else 0)   (zero-row guard)
   transpose: S = C' + C'^T with C' = C + prior;  T = rownorm(S);  counts_out = S/2;  pi_i = sum_j S[i,j] / sum S."""
from pyvc.spec import Contract

F = 'enspara/msm/builders.py::'


def sym_counts(e, st, name='C', kind='real'):
    import z3
    from pyvc.logic import Arr
    n = z3.Int('n')
    return e.new_obj(st, Arr(z3.Array(name, z3.IntSort(), z3.IntSort(), z3.RealSort() if kind == 'real' else z3.IntSort()), (n, n), kind))


def rowsum(L, M):
    import z3
    f = z3.Function('AXSUM1_%s' % M.kind, M.term.sort(), z3.IntSort(), z3.IntSort(), z3.IntSort(), z3.RealSort() if M.kind == 'real' else z3.IntSort())
    return lambda i: f(M.term, M.shape[0], M.shape[1], i)


class RowNormalize(Contract):
    key = F + '_row_normalize'
    abstract_nonlinear = False

    def params(self, e, st):
        return {'C': sym_counts(e, st)}

    def requires(self, L, A, G):
        return [('square', L.shape(A['C'], 0) == L.shape(A['C'], 1))]

    def result(self, e, st, args):
        C = e.deref(st, args['C'])
        return e.fresh_arr(st, 'T', 'real', C.shape)

    def ensures(self, L, A, N, R, G, V):
        C = A['C']
        n = L.shape(C, 0)
        w = rowsum(L, C)
        return [('shape', L.And(L.shape(R, 0) == n, L.shape(R, 1) == L.shape(C, 1))),
                ('counts-over-row-totals-with-zero-row-guard', L.forall2((0, n), (0, L.shape(C, 1)), lambda i, j:
                                                                       R[i, j] == L.real(C[i, j]) * L.ite(w(i) > 0, 1 / L.real(w(i)), 0)))]


class ApplyPrior(Contract):
    key = F + '_apply_prior_counts'

    def __init__(self, prior='none'):
        self.prior = prior

    def params(self, e, st):
        import z3
        from pyvc.engine import NONE
        return {'C': sym_counts(e, st), 'prior_counts': NONE if self.prior == 'none' else z3.Real('prior')}

    def result(self, e, st, args):
        from pyvc.engine import NoneV
        if isinstance(args['prior_counts'], NoneV):
            return args['C']
        C = e.deref(st, args['C'])
        return e.fresh_arr(st, 'Cp', 'real', C.shape)

    def ensures(self, L, A, N, R, G, V):
        C, p = A['C'], A['prior_counts']
        n = L.shape(C, 0)
        if L.is_none(p):
            return [('no-prior-returns-the-counts', L.same_array(R, C))]
        return [('shape', L.And(L.shape(R, 0) == n, L.shape(R, 1) == L.shape(C, 1))),
                ('prior-added-to-every-cell', L.forall2((0, n), (0, L.shape(C, 1)), lambda i, j: R[i, j] == C[i, j] + p))]


class Transpose(Contract):
    key = F + 'transpose'
    abstract_nonlinear = False

    def __init__(self, prior='none', eq=True):
        self.prior, self.eq = prior, eq

    def params(self, e, st):
        import z3
        from pyvc.engine import NONE
        return {'C': sym_counts(e, st), 'prior_counts': NONE if self.prior == 'none' else z3.Real('prior'), 'calculate_eq_probs': self.eq}

    def requires(self, L, A, G):
        return [('square', L.shape(A['C'], 0) == L.shape(A['C'], 1))]

    def ensures(self, L, A, N, R, G, V):
        C, p = A['C'], A['prior_counts']
        n = L.shape(C, 0)
        p = 0 if L.is_none(p) else p
        Cout, T, pi = R
        S = lambda i, j: (C[i, j] + p) + (C[j, i] + p)
        Sarr = V['C_sym']
        w = rowsum(L, Sarr)
        import z3
        tot = z3.Function('SUM2_real', Sarr.term.sort(), z3.IntSort(), z3.IntSort(), z3.RealSort())(Sarr.term, n, n)
        out = [('symmetrised-with-prior-first', L.forall2((0, n), (0, n), lambda i, j: Sarr[i, j] == S(i, j))),
               ('counts-returned-are-half-the-symmetrised', L.forall2((0, n), (0, n), lambda i, j: Cout[i, j] == S(i, j) / 2)),
               ('probabilities-are-row-normalised-symmetrised-counts', L.forall2((0, n), (0, n), lambda i, j: T[i, j] == S(i, j) * L.ite(w(i) > 0, 1 / w(i), 0)))]
        if self.eq:
            out.append(('populations-are-symmetric-row-totals-over-total', L.And(L.len(pi) == n, L.forall(0, n, lambda i: pi[i] == w(i) / tot))))
        else:
            out.append(('no-populations-when-not-asked', pi is None))
        return out


class Normalize(Contract):
    key = F + 'normalize'
    abstract_nonlinear = False

    def __init__(self, prior='none'):
        self.prior = prior

    def params(self, e, st):
        import z3
        from pyvc.engine import NONE
        return {'C': sym_counts(e, st), 'prior_counts': NONE if self.prior == 'none' else z3.Real('prior'), 'calculate_eq_probs': False}

    def requires(self, L, A, G):
        return [('square', L.shape(A['C'], 0) == L.shape(A['C'], 1))]

    def ensures(self, L, A, N, R, G, V):
        C, p = A['C'], A['prior_counts']
        n = L.shape(C, 0)
        p = 0 if L.is_none(p) else p
        Cout, T, pi = R
        w = rowsum(L, Cout)
        return [('counts-returned-with-prior', L.forall2((0, n), (0, n), lambda i, j: Cout[i, j] == C[i, j] + p)),
                ('probabilities-are-counts-over-row-totals', L.forall2((0, n), (0, n), lambda i, j: T[i, j] == Cout[i, j] * L.ite(w(i) > 0, 1 / w(i), 0))),
                ('no-populations-when-not-asked', pi is None)]


def registry(prior='none', eq=True):
    cs = [RowNormalize(), ApplyPrior(prior), Transpose(prior, eq), Normalize(prior)]
    return {c.key: c for c in cs}


class PrinzEstimator(Contract):
    """call-site contract of the reversible estimator used by `mle`: its two results are (uninterpreted) functions of the
    count matrix it is given - what the sweep computes is C12's contract (contracts/prinz.py), not repeated here"""
    key = F + '_prinz_mle_py'

    def requires(self, L, A, G):
        return [('square', L.shape(A['C'], 0) == L.shape(A['C'], 1))]

    def result(self, e, st, args):
        from pyvc.engine import Tup
        C = e.deref(st, args['C'])
        return Tup([e.fresh_arr(st, 'T_mle', 'real', C.shape), e.fresh_arr(st, 'pi_mle', 'real', (C.shape[0],))])

    @staticmethod
    def fns(M):
        import z3
        PT = z3.Function('PRINZ_T', M.term.sort(), z3.IntSort(), z3.IntSort(), z3.IntSort(), z3.RealSort())
        PP = z3.Function('PRINZ_PI', M.term.sort(), z3.IntSort(), z3.IntSort(), z3.RealSort())
        return PT, PP

    def ensures(self, L, A, N, R, G, V):
        C = A['C']
        n = L.shape(C, 0)
        T, pi = R
        PT, PP = self.fns(C)
        return [('shape', L.And(L.shape(T, 0) == n, L.shape(T, 1) == n, L.len(pi) == n)),
                ('estimate-of-these-counts', L.forall2((0, n), (0, n), lambda i, j: T[i, j] == PT(C.term, n, i, j))),
                ('populations-of-these-counts', L.forall(0, n, lambda i: pi[i] == PP(C.term, n, i)))]


class Mle(Contract):
    """dense branch of builders.mle: the estimator is run on counts + prior (once, before estimation); the counts returned are
    counts + prior; matrix and populations returned are the estimator's two results for exactly that matrix, whether or not
    populations were asked for (they are computed together)."""
    key = F + 'mle'

    def __init__(self, prior='none', eq=True):
        self.prior, self.eq = prior, eq

    def params(self, e, st):
        import z3
        from pyvc.engine import NONE
        return {'C': sym_counts(e, st), 'prior_counts': NONE if self.prior == 'none' else z3.Real('prior'), 'calculate_eq_probs': self.eq}

    def requires(self, L, A, G):
        return [('square', L.shape(A['C'], 0) == L.shape(A['C'], 1))]

    def ensures(self, L, A, N, R, G, V):
        C, p = A['C'], A['prior_counts']
        n = L.shape(C, 0)
        p = 0 if L.is_none(p) else p
        Cout, T, pi = R
        PT, PP = PrinzEstimator.fns(Cout)
        out = [('shape', L.And(L.shape(Cout, 0) == n, L.shape(Cout, 1) == n, L.shape(T, 0) == n, L.shape(T, 1) == n)),
               ('counts-returned-are-counts-plus-prior', L.forall2((0, n), (0, n), lambda i, j: Cout[i, j] == C[i, j] + p)),
               ('probabilities-are-the-estimate-of-the-returned-counts', L.forall2((0, n), (0, n), lambda i, j: T[i, j] == PT(Cout.term, n, i, j)))]
        if self.eq:
            out.append(('populations-are-the-estimate-of-the-returned-counts', False if pi is None else L.And(L.len(pi) == n, L.forall(0, n, lambda i: pi[i] == PP(Cout.term, n, i)))))
        else:
            out.append(('no-populations-when-not-asked', pi is None))
        return out


def registry_mle(prior='none', eq=True):
    cs = [ApplyPrior(prior), PrinzEstimator(), Mle(prior, eq)]
    return {c.key: c for c in cs}
