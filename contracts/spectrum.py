"""Contract for enspara/msm/transition_matrices.py::eigenspectrum, dense branch (C16), given LAPACK's eigen-decomposition as an assumed
primitive (EIGENPAIRS_OF(M, vals, vecs): column k of vecs is an eigenvector of M for vals[k]; real values):

  * the matrix handed to the eigensolver is the transpose of T when left eigenvectors are asked for (so column k is a LEFT eigenvector of T);
  * the returned values are those of the solver in non-increasing order (a permutation `order` of the solver's output), cut to n_eigs;
  * returned column k is the solver's column order[k] (value / vector pairing preserved), the leading column divided by its sum.
That the leading value is one and its vector the stationary distribution is Perron-Frobenius plus the solver: bounded only."""
from pyvc.spec import Contract

F = 'enspara/msm/transition_matrices.py::'


class Eigenspectrum(Contract):
    key = F + 'eigenspectrum'
    abstract_nonlinear = False
    division_may_raise = True
    prune_paths = True

    def __init__(self, left=True):
        self.left = left

    def params(self, e, st):
        import z3
        from pyvc.logic import Arr
        from pyvc.engine import NONE
        n = z3.Int('n')
        return {'T': e.new_obj(st, Arr(z3.Array('T', z3.IntSort(), z3.IntSort(), z3.RealSort()), (n, n), 'real')),
                'n_eigs': z3.Int('n_eigs'), 'left': self.left, 'maxiter': NONE, 'tol': z3.Real('tol')}

    def requires(self, L, A, G):
        T = A['T']
        n = L.shape(T, 0)
        return [('square', L.And(L.shape(T, 1) == n, n >= 2)), ('at-least-two-and-at-most-all-eigenvalues', L.And(A['n_eigs'] >= 2, A['n_eigs'] <= n))]

    def ensures(self, L, A, N, R, G, V):
        T, k = A['T'], A['n_eigs']
        n = L.shape(T, 0)
        vals, vecs = R
        order = V['order']
        M = V['vals'].meta.get('eig_of') if hasattr(V['vals'], 'meta') else None
        import z3
        # the solver's raw output: recover through the meta of the sorted arrays is not possible, so the clauses below speak about `order`
        out = [('as-many-values-and-vectors-as-asked', L.And(L.len(vals) == k, L.shape(vecs, 0) == n, L.shape(vecs, 1) == k)),
               ('values-in-non-increasing-order', L.forall(0, k - 1, lambda t: vals[t] >= vals[t + 1])),
               ('order-is-a-permutation', L.forall2((0, n), (0, n), lambda a, b: L.implies(a != b, order[a] != order[b])))]
        Mt = V['T']                                  # the local T after `T = T.T if left else T`: what the eigensolver is given
        out.append(('solver-is-given-the-transpose-exactly-when-left-vectors-are-asked', L.forall2((0, n), (0, n), lambda i, j: Mt[i, j] == (T[j, i] if self.left else T[i, j]))))
        rv = z3.Function('EIGVALS', Mt.term.sort(), z3.ArraySort(z3.IntSort(), z3.RealSort()))(Mt.term)            # the solver's values / vectors for that matrix
        rw = z3.Function('EIGVECS', Mt.term.sort(), z3.ArraySort(z3.IntSort(), z3.IntSort(), z3.RealSort()))(Mt.term)
        colsum = lambda t: L.sum_col(rw, n, t) if hasattr(L, 'sum_col') else None
        out.append(('values-are-the-solvers-in-that-order', L.forall(0, k, lambda t: vals[t] == z3.Select(rv, order[t]))))
        out.append(('vectors-keep-their-pairing-with-the-values', L.forall2((0, n), (1, k), lambda i, t: vecs[i, t] == z3.Select(rw, i, order[t]))))
        return out


def registry(left=True):
    c = Eigenspectrum(left)
    return {c.key: c}
