"""Run-time contracts (bounded stand-ins) for C18: joint counts and the algebraic laws of mutual information."""
from pyvc.spec import Contract


def entropy(counts):
    import numpy as np
    p = np.asarray(counts, dtype=float)
    p = p / p.sum()
    p = p[p > 0]
    return float(-(p * np.log(p)).sum())


class JointCounts(Contract):
    key = 'enspara/info_theory/mutual_info.py::joint_counts'

    def raises(self, L, A, G):
        import numpy as np
        X, Y = np.asarray(A['X']), (None if A.get('Y') is None else np.asarray(A['Y']))
        nx = A.get('n_x') if A.get('n_x') is not None else int(X.max()) + 1
        bad = X.min() < 0 or X.max() >= nx
        if Y is not None:
            ny = A.get('n_y') if A.get('n_y') is not None else int(Y.max()) + 1
            bad = bad or Y.min() < 0 or Y.max() >= ny or len(Y) != len(X)
        return {'AssertionError': bool(bad), 'DataInvalid': bool(bad), 'ValueError': bool(bad)} if bad else {}

    def ensures(self, L, A, N, R, G, V):
        import numpy as np
        X = np.asarray(A['X'])
        Y = X if A.get('Y') is None else np.asarray(A['Y'])
        if X.ndim == 1: X = X[:, None]
        if Y.ndim == 1: Y = Y[:, None]
        nx = A.get('n_x') if A.get('n_x') is not None else int(X.max()) + 1
        ny = (nx if A.get('Y') is None else (A.get('n_y') if A.get('n_y') is not None else int(Y.max()) + 1))
        want = np.zeros((X.shape[1], Y.shape[1], nx, ny), dtype=np.int64)
        for t in range(len(X)):
            for r in range(X.shape[1]):
                for s in range(Y.shape[1]):
                    want[r, s, int(X[t, r]), int(Y[t, s])] += 1
        return [('shape', tuple(R.shape) == want.shape), ('exact-joint-counts', tuple(R.shape) == want.shape and bool((np.asarray(R, dtype=np.int64) == want).all()))]


class MILaws(Contract):
    """laws of MI computed from the joint counts of a data set against itself"""
    key = 'enspara/info_theory/mutual_info.py::mutual_information'

    def ensures(self, L, A, N, R, G, V):
        import numpy as np
        jc = np.asarray(A['jc'])
        mi = np.asarray(R, dtype=float)
        nf = jc.shape[0]
        out = [('non-negative', bool((mi >= -1e-12).all())), ('finite', bool(np.isfinite(mi).all()))]
        # definition
        want = np.zeros(jc.shape[:2])
        for i in range(jc.shape[0]):
            for j in range(jc.shape[1]):
                n = jc[i, j].sum()
                if n == 0:
                    continue
                P = jc[i, j] / n
                pa, pb = P.sum(axis=1), P.sum(axis=0)
                for u in range(P.shape[0]):
                    for v in range(P.shape[1]):
                        if P[u, v] > 0:
                            want[i, j] += P[u, v] * np.log(P[u, v] / (pa[u] * pb[v]))
        out.append(('definition', bool(np.allclose(mi, want, atol=1e-10))))
        if A.get('self_pairs'):
            H = [entropy(jc[i, i].sum(axis=1)) for i in range(nf)]
            out += [('symmetric-for-a-data-set-against-itself', bool(np.allclose(mi, mi.T, atol=1e-10))),
                    ('diagonal-is-shannon-entropy', bool(np.allclose(np.diag(mi), H, atol=1e-10))),
                    ('at-most-the-smaller-marginal-entropy', all(mi[i, j] <= min(H[i], H[j]) + 1e-10 for i in range(nf) for j in range(nf)))]
        return out


class Normalization(Contract):
    key = 'enspara/info_theory/mutual_info.py::channel_capacity_normalization'

    def ensures(self, L, A, N, R, G, V):
        import numpy as np
        mi, nx, ny = np.asarray(A['mi'], dtype=float), np.asarray(A['n_x']), np.asarray(A['n_y'])
        if nx.ndim == 0: nx = np.full(mi.shape[0], int(nx))
        if ny.ndim == 0: ny = np.full(mi.shape[1], int(ny))
        want = np.array([[mi[i, j] / np.log(min(nx[i], ny[j])) for j in range(mi.shape[1])] for i in range(mi.shape[0])])
        return [('divides-entry-by-log-of-smaller-state-count', np.asarray(R).shape == want.shape and bool(np.allclose(R, want, rtol=1e-12, atol=1e-15)))]


class Relational(Contract):
    key = 'enspara/info_theory/mutual_info.py::[relational]'

    def ensures(self, L, A, N, R, G, V):
        import numpy as np
        base, relabelled, reordered, pooled, pooled_want, weighted, unweighted_norm = R
        return [('unchanged-by-relabelling-states', bool(np.allclose(base, relabelled, atol=1e-10))),
                ('unchanged-by-reordering-frames', bool(np.allclose(base, reordered, atol=1e-10))),
                ('several-trajectories-pool-their-counts', bool(np.allclose(pooled, pooled_want, atol=1e-10))),
                ('weighted-estimator-with-uniform-weights', bool(np.allclose(weighted, unweighted_norm, atol=1e-9)))]


class KL(Contract):
    key = 'enspara/info_theory/entropy.py::kl_divergence'

    def ensures(self, L, A, N, R, G, V):
        import numpy as np
        P, Q = np.asarray(A['P'], dtype=float), np.asarray(A['Q'], dtype=float)
        d = np.atleast_1d(np.asarray(R, dtype=float))
        same = np.allclose(P, Q, atol=0, rtol=0)
        rows_equal = np.all(np.isclose(np.atleast_2d(P), np.atleast_2d(Q), rtol=0, atol=0), axis=1)
        return [('non-negative', bool((d >= -1e-12).all())),
                ('zero-exactly-for-equal-distributions', all((abs(x) < 1e-12) == bool(eq) for x, eq in zip(d, rows_equal)))]


class Entropy(Contract):
    key = 'enspara/info_theory/entropy.py::shannon_entropy'

    def ensures(self, L, A, N, R, G, V):
        import numpy as np
        return [('value', abs(float(R) - entropy(A['p'])) < 1e-10 if A.get('normalize', True) or abs(np.sum(A['p']) - 1) < 1e-12 else True),
                ('finite', bool(np.isfinite(R)))]
