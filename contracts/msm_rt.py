"""Run-time-only contracts (bounded stand-ins) for the spectral / round-trip clauses of C16."""
from pyvc.spec import Contract


def _ergodic_stochastic(T):
    import numpy as np
    Td = np.asarray(T.toarray() if hasattr(T, 'toarray') else T, dtype=float)
    n = len(Td)
    if n > 60:
        from scipy.sparse.csgraph import connected_components
        import scipy.sparse as sp
        ok = connected_components(sp.csr_matrix(Td > 0), directed=True, connection='strong')[0] == 1
    else:
        ok = bool((np.linalg.matrix_power((Td > 0).astype(float) + np.eye(n), n) > 0).all())
    return bool(np.allclose(Td.sum(axis=1), 1)) and bool((Td >= 0).all()) and ok


class Eigenspectrum(Contract):
    key = 'enspara/msm/transition_matrices.py::eigenspectrum'

    def requires(self, L, A, G):
        return [('ergodic-row-stochastic', _ergodic_stochastic(A['T']))]

    def ensures(self, L, A, N, R, G, V):
        import numpy as np
        T = A['T']
        Td = np.asarray(T.toarray() if hasattr(T, 'toarray') else T, dtype=float)
        vals, vecs = R
        left = A.get('left', True)
        M = Td.T if left else Td
        out = [('eigenvalues-real', bool(np.all(np.isreal(vals)))),
               ('descending-order', bool(np.all(np.diff(np.real(vals)) <= 1e-9))),
               ('leading-value-one', abs(float(np.real(vals[0])) - 1.0) < 1e-8)]
        if left:
            pi = np.real(vecs[:, 0])
            out += [('leading-left-vector-is-stationary', bool(np.allclose(pi @ Td, pi, atol=1e-8))),
                    ('stationary-vector-is-a-distribution', abs(pi.sum() - 1) < 1e-8 and bool(np.all(pi >= -1e-8)))]      # (iterative sparse solver: components of order -1e-10 occur)
        return out


class EqProbs(Contract):
    key = 'enspara/msm/transition_matrices.py::eq_probs'

    def requires(self, L, A, G):
        return [('row-stochastic', _ergodic_stochastic(A['T']))]

    def ensures(self, L, A, N, R, G, V):
        import numpy as np
        T = A['T']
        pi = np.asarray(R, dtype=float).flatten()
        lhs = np.asarray(T.T @ pi if hasattr(T, 'toarray') else pi @ np.asarray(T)).flatten()
        return [('stationary', bool(np.allclose(lhs, pi, atol=1e-8))), ('distribution', abs(pi.sum() - 1) < 1e-8 and bool((pi >= -1e-8).all()) and len(pi) == T.shape[0])]


class ImpliedTimescales(Contract):
    key = 'enspara/msm/timescales.py::implied_timescales'

    def requires(self, L, A, G):
        # spectral clauses are quantified over ergodic models: every state must survive at every lag
        import numpy as np
        from enspara.msm import transition_matrices as T
        n = int(A['assigns'].max()) + 1
        ok = True
        for lag in A['lag_times']:
            C = T.assigns_to_counts(A['assigns'], lag_time=lag, max_n_states=n)
            _, C2 = T.trim_disconnected(C)
            ok = ok and C2.shape[0] == n
        return [('ergodic-at-every-lag', ok)]

    def ensures(self, L, A, N, R, G, V):
        import numpy as np
        from enspara.msm import transition_matrices as T
        out = []
        ok = True
        for row, lag in zip(R, A['lag_times']):
            C = T.assigns_to_counts(A['assigns'], lag_time=lag, max_n_states=int(A['assigns'].max()) + 1, sliding_window=A.get('sliding_window', True))
            if A.get('trim', False):
                _, C = T.trim_disconnected(C)
            _, P, _ = A['method'](C)
            Pd = np.asarray(P.toarray() if hasattr(P, 'toarray') else P, dtype=float)
            ev = np.sort(np.real(np.linalg.eigvals(Pd)))[::-1][1:1 + len(row)]
            sel = ev > 1e-6          # log of a (numerically) non-positive eigenvalue is outside the statement
            want = -lag / np.log(ev[sel])
            ok = ok and bool(np.allclose(np.asarray(row, dtype=float)[sel], want, rtol=1e-6, atol=1e-9))
        out.append(('timescale-is-minus-lag-over-log-eigenvalue', ok))
        return out


class SyntheticEnsemble(Contract):
    key = 'enspara/msm/synthetic_data.py::synthetic_ensemble'

    def requires(self, L, A, G):
        return [('ergodic-row-stochastic', _ergodic_stochastic(A['T']))]

    def ensures(self, L, A, N, R, G, V):
        import numpy as np
        T = A['T']
        Td = np.asarray(T.toarray() if hasattr(T, 'toarray') else T, dtype=float)
        p0, n = np.asarray(A['init_pops'], dtype=float), int(A['n_steps'])
        p, obs = R
        want, q = [], p0.copy()
        for m in range(n):
            want.append(q.copy())
            q = q @ Td
        o = A.get('observable_per_state')
        if o is not None:
            want = [w @ np.asarray(o, dtype=float) for w in want]
        return [('observation-m-is-p0-times-T-to-the-m', bool(np.allclose(np.asarray(obs), np.asarray(want), atol=1e-10))),
                ('final-populations', bool(np.allclose(p, p0 @ np.linalg.matrix_power(Td, n - 1), atol=1e-10)))]


class SaveLoad(Contract):
    key = 'enspara/msm/msm.py::MSM.save+load'

    def requires(self, L, A, G):
        import numpy as np
        m = A['m']
        d = np.asarray(m.tcounts_.toarray() if hasattr(m.tcounts_, 'toarray') else m.tcounts_)
        return [('model-has-counts-in-every-state', bool((d.sum(axis=1) > 0).all()) and not bool(np.isnan(np.asarray(m.eq_probs_, dtype=float)).any()))]

    def ensures(self, L, A, N, R, G, V):
        import numpy as np
        m, m2 = A['m'], R
        dn = lambda x: np.asarray(x.toarray() if hasattr(x, 'toarray') else x)
        return [('equal-model', bool(m2 == m)), ('same-config', m2.config == m.config),
                ('same-counts', bool(np.array_equal(dn(m2.tcounts_), dn(m.tcounts_)))),
                ('same-probabilities', bool(np.array_equal(dn(m2.tprobs_), dn(m.tprobs_)))),
                ('same-populations', bool(np.array_equal(np.atleast_1d(np.asarray(m2.eq_probs_)), np.atleast_1d(np.asarray(m.eq_probs_))))),   # a 1-state model reloads its single population as a 0-d array: same value
                ('same-mapping', m2.mapping_ == m.mapping_)]
