"""Contracts for the clustering core (C01, C02, C09, C10):
   enspara/cluster/kcenters.py::_kcenters_iteration, kcenters
   enspara/cluster/util.py::assign_to_nearest_center, find_cluster_centers

State predicate of C01 (from the property statement):
  consistent(X, dist, asg, ctr, k) :=
    forall f<n.  0 <= asg[f] < k  and  dist[f] = d(X[f], X[ctr[asg[f]]])      labels in range; distance is the metric distance
    forall f<n, c<k.  dist[f] <= d(X[f], X[ctr[c]])                           no other centre strictly closer
    forall c<k.  0 <= ctr[c] < n  and  asg[ctr[c]] = c  and  dist[ctr[c]] = 0  centre frame carries its own label at distance 0
The metric d is uninterpreted (any user callable obeying: finite, non-negative, d(x,x)=0); data points distinct.
In concrete mode d is a table computed with the real metric.
"""
from pyvc.spec import Contract

KC = 'enspara/cluster/kcenters.py::'
UT = 'enspara/cluster/util.py::'


# ------------------------------------------------------------------ metric plumbing (dual)
def metric(L, X, Y=None, fn=None):
    """returns dist(i, j) = d(X[i], Y[j])   (Y defaults to X)"""
    if L.sym:
        d = L.func('d', 'frame', 'frame', 'real')
        Yv = X if Y is None else Y
        return lambda i, j: d(X[i], Yv[j])
    import numpy as np
    if not callable(fn):
        from enspara.cluster.util import _get_distance_method
        fn = _get_distance_method(fn)
    Xa = np.asarray(X)
    Ya = Xa if Y is None else Y
    cache = {}

    def dist(i, j):
        j = int(j)
        if j not in cache:
            cache[j] = np.asarray(fn(Xa, Ya[j]), dtype=float)
        return float(cache[j][int(i)])
    return dist


def metric_axioms(L, tri=False):
    d = L.func('d', 'frame', 'frame', 'real')
    ax = [L.forall_sort(['frame', 'frame'], lambda x, y: L.And(d(x, y) >= 0, d(x, y) < L.inf)),
          L.forall_sort(['frame'], lambda x: d(x, x) == 0), L.inf > 0]
    if tri:
        ax += [L.forall_sort(['frame', 'frame'], lambda x, y: d(x, y) == d(y, x)),
               L.forall_sort(['frame', 'frame', 'frame'], lambda x, y, z: d(x, z) <= d(x, y) + d(y, z))]
    return ax


def distinct(L, X, dist):
    n = L.len(X)
    return L.forall2((0, n), (0, n), lambda i, j: L.implies(i != j, dist(i, j) > 0))


def metric_is_true(L, n, dist):
    """symmetry and triangle inequality over the data frames (needed only by the shortcut)"""
    return L.And(L.forall2((0, n), (0, n), lambda i, j: L.req(dist(i, j), dist(j, i))),
                 L.forallN([(0, n)] * 3, lambda i, j, l: L.rle(dist(i, l), dist(i, j) + dist(j, l))))


def consistent(L, n, dist, D, asg, ctr, k):
    """list of named clauses"""
    return [('labels-in-range', L.forall(0, n, lambda f: L.between(0, asg[f], k))),
            ('distance-is-metric', L.forall(0, n, lambda f: L.req(D[f], dist(f, ctr[asg[f]])))),
            ('nearest', L.forall2((0, n), (0, k), lambda f, c: L.rle(D[f], dist(f, ctr[c])))),
            ('centers-in-data', L.forall(0, k, lambda c: L.between(0, ctr[c], n))),
            ('own-label', L.forall(0, k, lambda c: L.And(asg[ctr[c]] == c, L.req(D[ctr[c]], 0))))]



def history_clauses(L, n, k, k0, dist, ctr, D, RAD, H, W, nc, dc, maxdist=None):
    """C02: farthest-first history.  H[c,f] / W[c,f] = distance / label of frame f w.r.t. the first c centres
    (i.e. at the moment centre c was chosen), RAD[c] = covering radius at that moment."""
    lo = L.max(k0, 1)
    cl = [('history-labels', L.forall2((lo, k), (0, n), lambda c, f: L.between(0, W[c, f], c))),
          ('history-exact', L.forall2((lo, k), (0, n), lambda c, f: L.req(H[c, f], dist(f, ctr[W[c, f]])))),
          ('history-nearest', L.forallN([(lo, k), (0, n), (0, k)], lambda c, f, c2: L.implies(c2 < c, L.rle(H[c, f], dist(f, ctr[c2]))))),
          ('farthest-first', L.forall2((lo, k), (0, n), lambda c, f: L.And(L.rle(H[c, f], RAD[c]), L.req(RAD[c], H[c, ctr[c]])))),
          ('added-only-above-cutoff', L.forall(k0, k, lambda c: L.And(L.rlt(dc, RAD[c]), L.int_below(c, nc)))),
          ('radius-never-grows', L.forall(lo + 1, k, lambda c: L.rle(RAD[c], RAD[c - 1]))),
          ('centers-pairwise-separated', L.forall2((lo, k), (0, k), lambda c, c2: L.implies(c2 < c, L.rle(RAD[c], dist(ctr[c], ctr[c2]))))),
          ('distances-only-shrink', L.forall2((lo, k), (0, n), lambda c, f: L.rle(D[f], H[c, f])))]
    if maxdist is not None:
        cl.append(('current-radius-below-last', L.implies(k > lo, L.rle(maxdist, RAD[k - 1]))))
    return cl


def concrete_history(n, k, dist, ctr):
    import numpy as np
    H = np.full((k, n), np.inf)
    W = np.full((k, n), -1, dtype=int)
    for c in range(1, k):
        for f in range(n):
            ds = [dist(f, ctr[c2]) for c2 in range(c)]
            W[c, f] = int(np.argmin(ds))
            H[c, f] = ds[W[c, f]]
    RAD = [float('inf')] + [float(H[c, ctr[c]]) for c in range(1, k)]
    return RAD, H, W


def sym_frames(e, st, name='traj', n='n'):
    import z3
    from pyvc.logic import Arr, sort_of
    return e.new_obj(st, Arr(z3.Array(name, z3.IntSort(), sort_of('frame')), (z3.Int(n),), 'frame'))


def model_table(n_name='n', k_name=None):
    """model extraction: metric table over the frames of `traj` (for replay with a table-lookup metric)"""
    import z3
    from pyvc.logic import sort_of
    X = z3.Array('traj', z3.IntSort(), sort_of('frame'))
    d = z3.Function('d', sort_of('frame'), sort_of('frame'), z3.RealSort())

    def table(m):
        n = m.eval(z3.Int(n_name), True).as_long()
        n = min(n, 6)
        return [[_num(m.eval(d(X[i], X[j]), True)) for j in range(n)] for i in range(n)]
    return table


def _num(v):
    import z3
    if z3.is_int_value(v):
        return v.as_long()
    if z3.is_rational_value(v):
        f = v.as_fraction()
        return [int(f.numerator), int(f.denominator)]
    if str(v) == 'INF':
        return 'inf'
    return str(v)


def _arr(m, name, n, sort='int'):
    import z3
    a = z3.Array(name, z3.IntSort(), z3.IntSort() if sort == 'int' else z3.RealSort())
    return [_num(m.eval(a[t], True)) for t in range(n)]


# ------------------------------------------------------------------ _kcenters_iteration
class KCentersIteration(Contract):
    key = KC + '_kcenters_iteration'
    modifies = ('distances', 'assignments', 'center_inds')
    resizes = ('center_inds',)

    def __init__(self, tri=None):
        self.tri = tri        # None: flag symbolic

    def params(self, e, st):
        import z3
        from pyvc.logic import Arr
        from pyvc.engine import Metric
        n, k = z3.Int('n'), z3.Int('k')
        return {'traj': sym_frames(e, st), 'distance_method': Metric('d'),
                'distances': e.new_obj(st, Arr(z3.Array('dist0', z3.IntSort(), z3.RealSort()), (n,), 'real')),
                'assignments': e.new_obj(st, Arr(z3.Array('asg0', z3.IntSort(), z3.IntSort()), (n,), 'int')),
                'center_inds': e.new_obj(st, Arr(z3.Array('ctr0', z3.IntSort(), z3.IntSort()), (k,), 'int', meta={'list': True})),
                'use_triangle_inequality': z3.Bool('use_ti')}

    def ghost(self, L, A):
        return {'dist': metric(L, A['traj'], fn=A['distance_method'])}, []

    def requires(self, L, A, G):
        X, D, asg, ctr = A['traj'], A['distances'], A['assignments'], A['center_inds']
        n, k, dist = L.len(X), L.len(ctr), G['dist']
        cold = L.And(k == 0, L.forall(0, n, lambda f: L.And(D[f] == L.inf, asg[f] == -1)))
        warm = L.And(k >= 1, *[g for _, g in consistent(L, n, dist, D, asg, ctr, k)])
        return [('nonempty', n >= 1), ('same-length', L.And(L.len(D) == n, L.len(asg) == n)),
                ('cold-or-consistent', L.Or(cold, warm)),
                ('radius-positive', L.exists(0, n, lambda w: D[w] > 0)),     # caller's loop guard: maxdist > cutoff >= 0
                ('distinct-points', distinct(L, X, dist)),
                ('shortcut-needs-a-true-metric', L.implies(A['use_triangle_inequality'], metric_is_true(L, n, dist)))]

    def result(self, e, st, args):
        from pyvc.engine import Tup
        return Tup([e.fresh('new_center', 'frame'), args['distances'], args['assignments'], args['center_inds']])

    def ensures(self, L, A, N, R, G, V):
        X, D0, a0, c0 = A['traj'], A['distances'], A['assignments'], A['center_inds']
        n, k, dist = L.len(X), L.len(c0), G['dist']
        newc, D, asg, ctr = R
        m = ctr[k] if L.sym else ctr[int(k)]
        out = [('returns-the-arguments', L.And(L.same_array(D, N['distances']), L.same_array(asg, N['assignments']), L.same_array(ctr, N['center_inds']))),
               ('one-more-center', L.len(ctr) == k + 1),
               ('lengths-kept', L.And(L.len(D) == n, L.len(asg) == n)),
               ('old-centers-kept', L.forall(0, k, lambda c: ctr[c] == c0[c])),
               ('new-center-in-data', L.between(0, m, n)),
               ('new-center-is-frame', (newc == X[m]) if L.sym else L.same_array(newc, X[m])),
               ('farthest-point', L.forall(0, n, lambda f: L.rle(D0[f], D0[m]))),
               ('first-farthest', L.forall(0, m, lambda f: L.rlt(D0[f], D0[m]))),
               ('cold-start-is-frame-0', L.implies(k == 0, m == 0)),
               ('radius-never-wider', L.forall(0, n, lambda f: L.rle(D[f], D0[f]))),
               ('functional-distances', L.forall(0, n, lambda f: L.req(D[f], L.min(D0[f], dist(f, m))))),
               ('functional-labels', L.forall(0, n, lambda f: asg[f] == L.ite(L.rlt(dist(f, m), D0[f]), k, a0[f])))]
        out += [('consistent:' + nm, g) for nm, g in consistent(L, n, dist, D, asg, ctr, k + 1)]
        return out

    def pins(self):
        import z3
        return [[z3.Int('n') == a, z3.Int('k') == b] for a, b in ((1, 0), (2, 0), (2, 1), (3, 1), (3, 2))]

    def want(self):
        import z3
        def sizes(m):
            return m.eval(z3.Int('n'), True).as_long(), m.eval(z3.Int('k'), True).as_long()
        return {'n': lambda m: sizes(m)[0], 'k': lambda m: sizes(m)[1], 'table': model_table(),
                'dist0': lambda m: _arr(m, 'dist0', min(6, sizes(m)[0]), 'real'), 'asg0': lambda m: _arr(m, 'asg0', min(6, sizes(m)[0])),
                'ctr0': lambda m: _arr(m, 'ctr0', min(6, sizes(m)[1])), 'use_ti': lambda m: z3.is_true(m.eval(z3.Bool('use_ti'), True))}


# ------------------------------------------------------------------ assign_to_nearest_center
class AssignToNearest(Contract):
    """every frame gets a centre at minimal distance (first minimiser) and exactly that distance (C10);
       inputs unchanged (frame)"""
    key = UT + 'assign_to_nearest_center'

    def params(self, e, st):
        import z3
        from pyvc.engine import Metric
        return {'trajectory': sym_frames(e, st, 'traj', 'n'), 'cluster_centers': sym_frames(e, st, 'centers', 'k'),
                'distance_method': Metric('d')}

    def ghost(self, L, A):
        return {'dist': metric(L, A['trajectory'], A['cluster_centers'], fn=A['distance_method'])}, []

    def requires(self, L, A, G):
        return [('has-centers', L.len(A['cluster_centers']) >= 1)]

    def result(self, e, st, args):
        from pyvc.engine import Tup
        n = e.deref(st, args['trajectory']).shape[0]
        return Tup([e.fresh_arr(st, 'assignments', 'int', (n,)), e.fresh_arr(st, 'distances', 'real', (n,))])

    def ensures(self, L, A, N, R, G, V):
        X, C = A['trajectory'], A['cluster_centers']
        n, k, dist = L.len(X), L.len(C), G['dist']
        asg, D = R
        return [('lengths', L.And(L.len(asg) == n, L.len(D) == n)),
                ('labels-in-range', L.forall(0, n, lambda f: L.between(0, asg[f], k))),
                ('distance-is-exact', L.forall(0, n, lambda f: L.req(D[f], dist(f, asg[f])))),
                ('distance-is-minimal', L.forall2((0, n), (0, k), lambda f, c: L.rle(D[f], dist(f, c)))),
                ('first-minimiser', L.forall2((0, n), (0, k), lambda f, c: L.implies(c < asg[f], L.rlt(D[f], dist(f, c)))))]

    @property
    def invariants(self):
        def inv(L, V):
            i, asg, D = V['i'], V['assignments'], V['distances']
            X, C = V.old['trajectory'], V.old['cluster_centers']
            n, dist = L.len(X), V.ghost['dist']
            return [('lengths', L.And(L.len(asg) == n, L.len(D) == n)),
                    ('none-yet', L.implies(i == 0, L.forall(0, n, lambda f: L.And(D[f] == L.inf, asg[f] == 0)))),
                    ('labels', L.implies(i > 0, L.forall(0, n, lambda f: L.between(0, asg[f], i)))),
                    ('exact', L.implies(i > 0, L.forall(0, n, lambda f: L.req(D[f], dist(f, asg[f]))))),
                    ('minimal', L.forall2((0, n), (0, i), lambda f, c: L.rle(D[f], dist(f, c)))),
                    ('first', L.forall2((0, n), (0, i), lambda f, c: L.implies(c < asg[f], L.rlt(D[f], dist(f, c)))))]
        return {2: inv}

    def pins(self):
        import z3
        return [[z3.Int('n') == a, z3.Int('k') == b] for a, b in ((1, 1), (2, 1), (2, 2), (3, 2))]


# ------------------------------------------------------------------ find_cluster_centers
class FindClusterCenters(Contract):
    """for each label present, a member frame of smallest distance (C10); one entry per distinct label,
       in increasing label order"""
    key = UT + 'find_cluster_centers'
    local_kinds = {'ind': 'int', 'c': 'int', 'assigned_frames': lambda e, h: None}

    def params(self, e, st):
        import z3
        from pyvc.logic import Arr
        n = z3.Int('n')
        return {'assignments': e.new_obj(st, Arr(z3.Array('asg', z3.IntSort(), z3.IntSort()), (n,), 'int')),
                'distances': e.new_obj(st, Arr(z3.Array('dist', z3.IntSort(), z3.RealSort()), (n,), 'real'))}

    def raises(self, L, A, G):
        return {'DataInvalid': L.len(A['assignments']) != L.len(A['distances'])}

    def result(self, e, st, args):
        m = e.fresh('nlabels', 'int')
        st.pc.append(m >= 0)
        return e.fresh_arr(st, 'center_inds', 'int', (m,))

    def ensures(self, L, A, N, R, G, V):
        asg, D = A['assignments'], A['distances']
        n, m = L.len(asg), L.len(R)
        return [('members-in-data', L.forall(0, m, lambda i: L.between(0, R[i], n))),
                ('smallest-distance-member', L.forall2((0, m), (0, n), lambda i, f: L.implies(asg[f] == asg[R[i]], L.rle(D[R[i]], D[f])))),
                ('first-such-member', L.forall2((0, m), (0, n), lambda i, f: L.implies(L.And(asg[f] == asg[R[i]], f < R[i]), L.rlt(D[R[i]], D[f])))),
                ('labels-increasing', L.forall2((0, m), (0, m), lambda i, j: L.implies(i < j, asg[R[i]] < asg[R[j]]))),
                ('every-label-present', self.every_label_present(L, asg, R, n, m, at_call_site=(L.sym and V is None)))]

    @staticmethod
    def label_idx(L, asg):
        """ghost witness: position in the result of the centre found for frame f's label"""
        import z3
        fn = z3.Function('label_idx', asg.term.sort(), z3.IntSort(), z3.IntSort())
        return lambda f: fn(asg.term, f)

    def every_label_present(self, L, asg, R, n, m, at_call_site):
        if at_call_site:      # assumed form: the existential is named by a ghost function (skolemised)
            J = self.label_idx(L, asg)
            return L.forall(0, n, lambda f: L.And(L.between(0, J(f), m), asg[R[J(f)]] == asg[f]))
        return L.forall(0, n, lambda f: L.exists(0, m, lambda i: asg[R[i]] == asg[f]))

    @property
    def invariants(self):
        def inv(L, V):
            i, out, U = V['i'], V['center_inds'], V['unique_centers']
            asg, D = V.old['assignments'], V.old['distances']
            n = L.len(asg)
            return [('length', L.len(out) == L.len(U)),
                    ('members', L.forall(0, i, lambda t: L.And(L.between(0, out[t], n), asg[out[t]] == U[t]))),
                    ('smallest', L.forall2((0, i), (0, n), lambda t, f: L.implies(asg[f] == U[t], L.rle(D[out[t]], D[f])))),
                    ('first', L.forall2((0, i), (0, n), lambda t, f: L.implies(L.And(asg[f] == U[t], f < out[t]), L.rlt(D[out[t]], D[f]))))]
        return {1: inv}

    def pins(self):
        import z3
        return [[z3.Int('n') == a] for a in (1, 2, 3)]

    def want(self):
        import z3
        return {'assignments': lambda m: _arr(m, 'asg', min(6, m.eval(z3.Int('n'), True).as_long())),
                'distances': lambda m: _arr(m, 'dist', min(6, m.eval(z3.Int('n'), True).as_long()), 'real')}


def axioms(L):
    return metric_axioms(L, tri=False)


def registry():
    cs = [KCentersIteration(), AssignToNearest(), FindClusterCenters()]
    return {c.key: c for c in cs}


# ------------------------------------------------------------------ kcenters (serial path)
class KCenters(Contract):
    """C01 + C02 for enspara.cluster.kcenters.kcenters.
    cfg: how the stopping criteria are given: 'both' (n_clusters int, dist_cutoff real), 'n' (dist_cutoff=None),
         'd' (n_clusters=None), 'inf' (n_clusters=np.inf);  start: 'cold' | 'warm'"""
    key = KC + 'kcenters'
    local_kinds = {'centers': 'frame', 'ctr_inds': 'int', 'new_center': 'frame', 'center_inds': 'list:int'}
    resizable = ('centers', 'ctr_inds', 'center_inds', 'ghost_RAD', 'ghost_H', 'ghost_W')

    def __init__(self, cfg='both', start='cold', tri=False):
        self.cfg, self.start, self.tri = cfg, start, tri

    def params(self, e, st):
        import z3
        from pyvc.engine import Metric, NONE
        from pyvc.logic import INF
        p = {'traj': sym_frames(e, st), 'distance_method': Metric('d'),
             'n_clusters': {'both': z3.Int('n_clusters'), 'n': z3.Int('n_clusters'), 'd': NONE, 'inf': INF()}[self.cfg],
             'dist_cutoff': {'both': z3.Real('dist_cutoff'), 'n': NONE, 'd': z3.Real('dist_cutoff'), 'inf': z3.Real('dist_cutoff')}[self.cfg],
             'use_triangle_inequality': z3.Bool('use_ti')}
        if self.start == 'warm':
            p['init_centers'] = sym_frames(e, st, 'init_centers', 'k0')
        return p

    def ghost(self, L, A):
        G = {'dist': metric(L, A['traj'], fn=A['distance_method'])}
        if self.start == 'warm':
            X, C = A['traj'], A['init_centers']
            if L.sym:
                import z3
                pos = z3.Array('init_pos', z3.IntSort(), z3.IntSort())
                G['pos'] = lambda c: pos[c]
            else:
                import numpy as np
                found = [[p for p in range(len(X)) if np.array_equal(np.asarray(X[p]), np.asarray(C[c]))] for c in range(len(C))]
                G['pos'] = lambda c: (found[int(c)][0] if found[int(c)] else -1)
        return G, []

    def crit(self, L, A):
        """normalised stopping criteria (documented defaults): (n_clusters or inf, dist_cutoff or 0)"""
        nc, dc = A['n_clusters'], A['dist_cutoff']
        nc = L.inf if L.is_none(nc) else nc
        dc = 0 if L.is_none(dc) else dc
        return nc, dc

    def requires(self, L, A, G):
        X = A['traj']
        n, dist = L.len(X), G['dist']
        nc, dc = self.crit(L, A)
        c = [('nonempty', n >= 1), ('distinct-points', distinct(L, X, dist)), ('cutoff-nonneg', L.rle(0, dc)), ('cutoff-finite', L.rlt(dc, L.inf)),
             ('shortcut-needs-a-true-metric', L.implies(A['use_triangle_inequality'], metric_is_true(L, n, dist)))]
        if self.cfg in ('both', 'n'):
            c.append(('n_clusters-positive', nc >= 1))
        if self.cfg == 'inf':
            c.append(('cutoff-positive', L.rlt(0, dc)))
        if self.start == 'warm':
            C, pos = A['init_centers'], G['pos']
            k0 = L.len(C)
            c += [('has-initial-centers', k0 >= 1),
                  ('initial-centers-are-frames-of-the-data', L.forall(0, k0, lambda i: L.And(L.between(0, pos(i), n), (C[i] == X[pos(i)]) if L.sym else True))),
                  ('initial-centers-distinct', L.forall2((0, k0), (0, k0), lambda i, j: L.implies(i != j, pos(i) != pos(j))))]
        return c

    def result(self, e, st, args):
        from pyvc.engine import RecV
        n = e.deref(st, args['traj']).shape[0]
        k = e.fresh('n_centers', 'int')
        st.pc.append(k >= 1)
        ci = e.fresh_arr(st, 'center_indices', 'int', (k,))
        st.heap[ci.oid].meta = {'list': True}
        return e.new_obj(st, RecV('ClusterResult', {'center_indices': ci, 'assignments': e.fresh_arr(st, 'kc_assignments', 'int', (n,)),
                                                     'distances': e.fresh_arr(st, 'kc_distances', 'real', (n,)),
                                                     'centers': e.fresh_arr(st, 'kc_centers', 'frame', (k,))}))

    def ensures(self, L, A, N, R, G, V):
        X = A['traj']
        n, dist = L.len(X), G['dist']
        nc, dc = self.crit(L, A)
        D, asg, ctr, cen = R.distances, R.assignments, R.center_indices, R.centers
        k = L.len(ctr)
        out = [('lengths', L.And(L.len(D) == n, L.len(asg) == n, L.len(cen) == k)),
               ('at-least-one-center', k >= 1)]
        out += [('consistent:' + nm, g) for nm, g in consistent(L, n, dist, D, asg, ctr, k)]
        out += [('center-is-the-frame-at-its-index', L.forall(0, k, lambda c: (cen[c] == X[ctr[c]]) if L.sym else L.same_array(cen[c], X[ctr[c]]))),
                ('stops-on-cue', L.Or(L.rle(nc, k) if self.cfg != 'inf' and not L.is_none(A['n_clusters']) else False,
                                      L.forall(0, n, lambda f: L.rle(D[f], dc)))),
                ('not-too-many', ((k <= nc) if self.start == 'cold' else L.Or(k <= nc, k == L.len(A['init_centers']))) if (self.cfg in ('both', 'n')) else True)]
        if self.start == 'warm':
            out.append(('initial-centers-kept', L.And(k >= L.len(A['init_centers']), L.forall(0, L.len(A['init_centers']), lambda c: ctr[c] == G['pos'](c)))))
        if self.start == 'cold':
            out.append(('first-center-is-frame-0', ctr[0] == 0))
        k0 = 0 if self.start == 'cold' else L.len(A['init_centers'])
        if L.sym and V is None:
            return out          # call site: the farthest-first history is ghost state of the callee, not visible to callers
        if L.sym:
            RAD, H, W = V['ghost_RAD'], V['ghost_H'], V['ghost_W']
        else:
            RAD, H, W = concrete_history(int(n), int(k), dist, ctr)
        out += [('history:' + nm, g) for nm, g in history_clauses(L, n, k, k0, dist, ctr, D, RAD, H, W, nc, dc)]
        # final radius (largest distance) is at most the radius at which the last centre was added
        out.append(('final-radius-below-last', L.forall(0, n, lambda f: L.implies(k > L.max(k0, 1), L.rle(D[f], RAD[k - 1])))))
        return out

    @property
    def cuts(self):
        if self.start != 'warm':
            return {}

        def after_assign(L, V):
            A = V.old
            k0, pos, asg, D = L.len(A['init_centers']), V.ghost['pos'], V['assignments'], V['distances']
            base = ['pre:initial-centers-are-frames-of-the-data', 'pre:initial-centers-distinct', 'pre:distinct-points', 'pre:has-initial-centers',
                    'assign_to_nearest_center:lengths', 'assign_to_nearest_center:labels-in-range', 'assign_to_nearest_center:distance-is-exact',
                    'assign_to_nearest_center:distance-is-minimal']
            return [dict(name='initial-center-frames-at-distance-0', fact=L.forall(0, k0, lambda c: D[pos(c)] == 0), using=base),
                    dict(name='initial-center-frames-own-label', fact=L.forall(0, k0, lambda c: asg[pos(c)] == c),
                         using=base + ['cut:initial-center-frames-at-distance-0'])]

        def after_find(L, V):
            A = V.old
            k0, pos, ctr = L.len(A['init_centers']), V.ghost['pos'], V['ctr_inds']
            asg = V['assignments']
            m = L.len(ctr)
            J = FindClusterCenters.label_idx(L, asg)
            loc = ['pre:initial-centers-are-frames-of-the-data', 'pre:has-initial-centers', 'pre:distinct-points', 'assign_to_nearest_center:lengths',
                   'assign_to_nearest_center:labels-in-range', 'assign_to_nearest_center:distance-is-exact', 'find_cluster_centers:members-in-data',
                   'find_cluster_centers:labels-increasing', 'find_cluster_centers:every-label-present', 'find_cluster_centers:smallest-distance-member',
                   'cut:initial-center-frames-at-distance-0', 'cut:initial-center-frames-own-label']
            return [dict(name='found-labels-at-least-position', lo=0, hi=m, P=lambda t: L.forall(0, t, lambda i: asg[ctr[i]] >= i), using=loc),
                    dict(name='every-initial-label-has-a-found-center', fact=L.forall(0, k0, lambda c: L.And(L.between(0, J(pos(c)), m), asg[ctr[J(pos(c))]] == c)), using=loc),
                    dict(name='labels-of-found-centers-are-their-positions', lo=0, hi=m,
                         P=lambda t: L.forall(0, t, lambda i: asg[ctr[i]] == i),
                         using=['cut:found-labels-at-least-position', 'cut:every-initial-label-has-a-found-center',
                                'find_cluster_centers:labels-increasing', 'find_cluster_centers:members-in-data',
                                'assign_to_nearest_center:labels-in-range', 'assign_to_nearest_center:lengths']),
                    dict(name='one-index-per-initial-center', fact=m == k0,
                         using=loc + ['cut:found-labels-at-least-position', 'cut:every-initial-label-has-a-found-center', 'cut:labels-of-found-centers-are-their-positions']),
                    dict(name='indices-are-the-initial-frames', fact=L.forall(0, k0, lambda c: ctr[c] == pos(c)),
                         using=loc + ['cut:labels-of-found-centers-are-their-positions', 'cut:one-index-per-initial-center'])]
        return {'call:assign_to_nearest_center': after_assign, 'call:find_cluster_centers': after_find}

    @property
    def ghost_loops(self):
        def init(L, V):
            import z3
            from pyvc.logic import Arr
            n = L.len(V.old['traj'])
            k = L.len(V['ctr_inds'])       # rows below the initial number of centres are never constrained
            return {'ghost_RAD': Arr(z3.K(z3.IntSort(), z3.RealVal(0)), (k,), 'real'),
                    'ghost_H': Arr(z3.Lambda([z3.Int('i!0'), z3.Int('i!1')], z3.RealVal(0)), (k, n), 'real'),
                    'ghost_W': Arr(z3.Lambda([z3.Int('i!0'), z3.Int('i!1')], z3.IntVal(0)), (k, n), 'int')}

        def step(L, V0, V1):
            import z3
            from pyvc.logic import Arr
            n = L.len(V0.old['traj'])
            k0 = L.len(V0['ctr_inds'])
            D0, a0, md0 = V0['distances'], V0['assignments'], V0['maxdist']
            RAD, H, W = V0['ghost_RAD'], V0['ghost_H'], V0['ghost_W']
            i, j = z3.Int('i!0'), z3.Int('i!1')
            return {'ghost_RAD': Arr(z3.Store(RAD.term, k0, md0), (k0 + 1,), 'real'),
                    'ghost_H': Arr(z3.Lambda([i, j], z3.If(i == k0, D0[j], H[i, j])), (k0 + 1, n), 'real'),
                    'ghost_W': Arr(z3.Lambda([i, j], z3.If(i == k0, a0[j], W[i, j])), (k0 + 1, n), 'int')}
        return {1: dict(init=init, step=step)}

    @property
    def invariants(self):
        def inv(L, V):
            A = V.old
            X = A['traj']
            n, dist = L.len(X), V.ghost['dist']
            nc, dc = self.crit(L, A)
            D, asg, ctr, cen, md = V['distances'], V['assignments'], V['ctr_inds'], V['centers'], V['maxdist']
            k = L.len(ctr)
            cold = L.And(L.forall(0, n, lambda f: L.And(D[f] == L.inf, asg[f] == -1)), md == L.inf)
            out = [('lengths', L.And(L.len(D) == n, L.len(asg) == n, L.len(cen) == k, k >= 0)),
                   ('cold-state', L.implies(k == 0, cold)),
                   ('maxdist-upper', L.forall(0, n, lambda f: L.rle(D[f], md))),
                   ('maxdist-witness', L.exists(0, n, lambda w: D[w] == md)),
                   ('centers-are-frames', L.forall(0, k, lambda c: cen[c] == X[ctr[c]])),
                   ('not-too-many', ((k <= nc) if self.start == 'cold' else L.Or(k <= nc, k == L.len(A['init_centers']))) if (self.cfg in ('both', 'n')) else True),
                   ('defined-after-first', L.implies(k >= 1, V.defined('center_inds')) if self.start == 'cold' else L.implies(k > L.len(A['init_centers']), V.defined('center_inds'))),
                   ('never-fewer-than-initial', (k >= L.len(A['init_centers'])) if self.start == 'warm' else True),
                   ('initial-centers-kept', L.forall(0, L.len(A['init_centers']), lambda c: ctr[c] == V.ghost['pos'](c)) if self.start == 'warm' else True)]
            if self.start == 'cold':
                out.append(('first-is-0', L.implies(k >= 1, ctr[0] == 0)))
            out += [('consistent:' + nm, L.implies(k >= 1, g)) for nm, g in consistent(L, n, dist, D, asg, ctr, k)]
            k0 = 0 if self.start == 'cold' else L.len(A['init_centers'])
            RAD, H, W = V['ghost_RAD'], V['ghost_H'], V['ghost_W']
            out += [('ghost-shapes', L.And(L.len(RAD) == k, L.shape(H, 0) == k, L.shape(W, 0) == k, L.shape(H, 1) == n, L.shape(W, 1) == n))]
            out += [('history:' + nm, g) for nm, g in history_clauses(L, n, k, k0, dist, ctr, D, RAD, H, W, nc, dc, maxdist=md)]
            return out
        return {1: inv}

    def pins(self):
        import z3
        return [[z3.Int('n') == a] for a in (1, 2, 3)]

    def want(self):
        import z3
        return {'n': lambda m: m.eval(z3.Int('n'), True).as_long(), 'table': model_table(),
                'n_clusters': lambda m: _num(m.eval(z3.Int('n_clusters'), True)), 'dist_cutoff': lambda m: _num(m.eval(z3.Real('dist_cutoff'), True)),
                'use_ti': lambda m: z3.is_true(m.eval(z3.Bool('use_ti'), True)),
                'k0': lambda m: m.eval(z3.Int('k0'), True).as_long(),
                'init_pos': lambda m: _arr(m, 'init_pos', max(0, min(6, m.eval(z3.Int('k0'), True).as_long())))}


def registry_kcenters(cfg='both', start='cold'):
    cs = [KCentersIteration(), AssignToNearest(), FindClusterCenters(), KCenters(cfg, start)]
    return {c.key: c for c in cs}
