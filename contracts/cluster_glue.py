"""Run-time-only contracts (bounded stand-ins) for glue code around the proved clustering functions (C10)."""
from pyvc.spec import Contract


class PartitionResult(Contract):
    """ClusterResult.partition(lengths): values and order preserved, flat centre index -> (trajectory, frame) of the same
    frame, rectangular ndarray iff all lengths equal else RaggedArray, concatenation restores the flat arrays"""
    key = 'enspara/cluster/util.py::ClusterResult.partition'

    def requires(self, L, A, G):
        import numpy as np
        r, lens = A['self'], A['lengths']
        return [('lengths-cover', int(np.sum(lens)) == len(r.assignments)), ('has-trajectories', len(lens) >= 1),
                ('positive-lengths', all(int(l) >= 1 for l in lens))]

    def ensures(self, L, A, N, R, G, V):
        import numpy as np
        from enspara import ra
        r, lens = A['self'], [int(l) for l in A['lengths']]
        starts = np.concatenate([[0], np.cumsum(lens)])
        square = all(l == lens[0] for l in lens)
        out = [('container-type', (isinstance(R.assignments, np.ndarray) and isinstance(R.distances, np.ndarray)) if square
                else (isinstance(R.assignments, ra.RaggedArray) and isinstance(R.distances, ra.RaggedArray)))]
        rows_a = [np.asarray(R.assignments[t]) for t in range(len(lens))]
        rows_d = [np.asarray(R.distances[t]) for t in range(len(lens))]
        out.append(('rows-are-windows', all(np.array_equal(rows_a[t], r.assignments[starts[t]:starts[t + 1]]) and
                                            np.array_equal(rows_d[t], r.distances[starts[t]:starts[t + 1]]) for t in range(len(lens)))))
        out.append(('concatenation-restores', np.array_equal(np.concatenate(rows_a), r.assignments) and np.array_equal(np.concatenate(rows_d), r.distances)))
        out.append(('one-pair-per-center', len(R.center_indices) == len(r.center_indices)))
        out.append(('pair-addresses-same-frame', all(0 <= f < lens[t] and starts[t] + f == int(g)
                                                      for (t, f), g in zip(R.center_indices, r.center_indices))))
        out.append(('centers-kept', R.centers is r.centers or np.array_equal(np.asarray(R.centers), np.asarray(r.centers))))
        return out


class Predict(Contract):
    """estimator.predict(X): every frame gets a fitted centre at minimal distance and exactly that distance"""
    key = 'enspara/cluster/util.py::MolecularClusterMixin.predict'

    def ensures(self, L, A, N, R, G, V):
        import numpy as np
        from enspara.cluster.util import _get_distance_method
        est, X = A['self'], np.asarray(A['X'])
        dm = _get_distance_method(est.metric)
        C = est.centers_
        T = np.array([dm(X, c) for c in C]).T
        n, k = T.shape
        return [('labels-in-range', all(0 <= int(a) < k for a in R.assignments)),
                ('distance-is-exact', all(L.req(R.distances[f], T[f, int(R.assignments[f])]) for f in range(n))),
                ('distance-is-minimal', all(L.rle(R.distances[f], T[f, c]) for f in range(n) for c in range(k))),
                ('center-finder-member-of-smallest-distance', all(
                    int(R.assignments[int(ci)]) in set(int(a) for a in R.assignments) and
                    all(L.rle(R.distances[int(ci)], R.distances[f]) for f in range(n) if R.assignments[f] == R.assignments[int(ci)])
                    for ci in R.center_indices)),
                ('one-center-per-label-present', len(R.center_indices) == len(set(int(a) for a in R.assignments)))]


class ClusterEntry(Contract):
    """Run-time contract for a clustering entry point as a whole (kmedoids(), hybrid(), estimator .fit): C01 state
    predicate on the result, centres are frames, K fixed where given, inputs unchanged, cost vs. a reference state."""
    def __init__(self, key, ref_cost=None, k_expected=None, data_arg='X', metric_arg='distance_method', modifies=()):
        self.key, self.ref_cost, self.k_expected, self.data_arg, self.metric_arg = key, ref_cost, k_expected, data_arg, metric_arg
        self.modifies = tuple(modifies)

    def ensures(self, L, A, N, R, G, V):
        import numpy as np
        from contracts.cluster import metric, consistent
        from contracts.kmedoids import msq
        X = np.asarray(A[self.data_arg])
        res = R if hasattr(R, 'assignments') else R.result_
        dist = metric(L, X, fn=A[self.metric_arg] if self.metric_arg in A else A['self'].metric)
        D, asg, ctr, cen = res.distances, res.assignments, res.center_indices, res.centers
        n, k = len(X), len(ctr)
        out = [('lengths', len(D) == n and len(asg) == n and len(cen) == k)]
        out += [('consistent:' + nm, g) for nm, g in consistent(L, n, dist, D, asg, ctr, k)]
        out.append(('center-is-the-frame-at-its-index', all(np.array_equal(np.asarray(cen[c]), X[int(ctr[c])]) for c in range(k))))
        if self.k_expected is not None:
            out.append(('number-of-clusters', k == self.k_expected))
        if self.ref_cost is not None:
            out.append(('cost-never-worse-than-start', L.rle(msq(L, D), self.ref_cost)))
        return out
