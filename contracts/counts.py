"""Contracts for enspara/msm/transition_matrices.py (C03): _transitions_helper, assigns_to_counts."""
from pyvc.spec import Contract

F = 'enspara/msm/transition_matrices.py::'


class TransitionsHelper(Contract):
    """rows of equal width m; m = max(0, L-lag) (sliding) or ceil(max(0, L-lag)/lag) (strided);
       start[t] = a[t*s], end[t] = a[t*s+lag], t*s+lag < L, s = 1 or lag; for every L >= 0, lag >= 1"""
    key = F + '_transitions_helper'
    abstract_nonlinear = False

    def params(self, e, st):
        import z3
        from pyvc.logic import Arr
        return {'assigns_1d': e.new_obj(st, Arr(z3.Array('a1d', z3.IntSort(), z3.IntSort()), (z3.Int('LEN'),), 'int')),
                'lag_time': z3.Int('lag'), 'sliding_window': z3.Bool('sliding')}

    def requires(self, L, A, G):
        return [('lag-positive', A['lag_time'] >= 1)]

    def result(self, e, st, args):
        a = e.deref(st, args['assigns_1d'])
        m = e.fresh('npairs', 'int')
        st.pc.append(m >= 0)
        return e.fresh_arr(st, 'pairs', 'int', (2, m))

    def width(self, L, n, lag, sliding, m):
        """m is the number of lagged pairs (characterised without division)"""
        avail = L.max(0, n - lag)
        return L.ite(sliding, m == avail,
                     L.And(m >= 0, L.implies(avail == 0, m == 0),
                           L.implies(avail > 0, L.And(L.mul(m - 1, lag) < avail, avail <= L.mul(m, lag)))))

    def ensures(self, L, A, N, R, G, V):
        a, lag, sl = A['assigns_1d'], A['lag_time'], A['sliding_window']
        n = L.len(a)
        m = L.shape(R, 1)
        s = L.ite(sl, 1, lag)
        return [('two-rows', L.shape(R, 0) == 2),
                ('number-of-pairs', self.width(L, n, lag, sl, m)),
                ('pairs-inside-trajectory', L.forall(0, m, lambda t: L.And(L.mul(t, s) >= 0, L.mul(t, s) + lag < n))),
                ('start-states', L.forall(0, m, lambda t: R[0, t] == a[L.mul(t, s)])),
                ('end-states', L.forall(0, m, lambda t: R[1, t] == a[L.mul(t, s) + lag]))]

    def pins(self):
        import z3
        return [[z3.Int('LEN') == n, z3.Int('lag') == l] for n, l in ((3, 1), (3, 2), (4, 2), (5, 2), (5, 3), (2, 3))]

    def want(self):
        import z3
        a = z3.Array('a1d', z3.IntSort(), z3.IntSort())
        return {'assigns_1d': lambda m: [m.eval(a[t], True).as_long() for t in range(min(10, m.eval(z3.Int('LEN'), True).as_long()))],
                'lag_time': lambda m: m.eval(z3.Int('lag'), True).as_long(),
                'sliding_window': lambda m: z3.is_true(m.eval(z3.Bool('sliding'), True))}


def registry():
    return {TransitionsHelper.key: TransitionsHelper()}


class AssignsToCounts(Contract):
    """C03 as a contract on assigns_to_counts.  Concrete oracle = the statement: entry (i,j) is the number of pairs
    (t, t+lag) inside one trajectory (every lag-th pair when not sliding), trailing -1 padding ignored."""
    key = F + 'assigns_to_counts'

    @staticmethod
    def rows(assigns):
        import numpy as np
        out = []
        for r in assigns:
            r = np.asarray(r)
            k = len(r)
            while k > 0 and r[k - 1] == -1:
                k -= 1
            out.append(r[:k])
        return out

    def requires(self, L, A, G):
        import numpy as np
        rows = self.rows(A['assigns']) if getattr(A['assigns'], 'ndim', 2) != 1 or hasattr(A['assigns'], 'lengths') else []
        interior = all((np.asarray(r) >= 0).all() for r in rows)
        mx = A.get('max_n_states')
        import numbers
        return [('integral-lag-at-least-1', isinstance(A['lag_time'], numbers.Integral) and A['lag_time'] >= 1),
                ('two-dimensional-or-ragged', hasattr(A['assigns'], 'lengths') or getattr(A['assigns'], 'ndim', 2) == 2),
                ('only-trailing-padding', interior),
                ('some-state-or-explicit-count', mx is not None or any(len(r) for r in rows)),
                ('states-below-explicit-count', mx is None or all((np.asarray(r) < mx).all() for r in rows))]

    def raises(self, L, A, G):
        # the statement quantifies over integral lag >= 1 and 2-D / ragged input; what happens outside is not part of C03
        return {}

    def ensures(self, L, A, N, R, G, V):
        import numpy as np
        rows, lag = self.rows(A['assigns']), int(A['lag_time'])
        sliding = A.get('sliding_window', True)
        n = A.get('max_n_states')
        if n is None:
            n = int(max(int(r.max()) for r in rows if len(r))) + 1
        want = np.zeros((n, n), dtype=np.int64)
        total_sliding = 0
        for r in rows:
            total_sliding += max(0, len(r) - lag)
            step = 1 if sliding else lag
            t = 0
            while t + lag < len(r):
                want[int(r[t]), int(r[t + lag])] += 1
                t += step
        got = np.asarray(R.toarray() if hasattr(R, 'toarray') else R)
        out = [('square-with-n-states', got.shape == (n, n)),
               ('entry-is-number-of-lagged-pairs', got.shape == want.shape and bool((got == want).all()))]
        if sliding:
            out.append(('total-is-sum-of-max-0-len-minus-lag', int(got.sum()) == total_sliding))
        return out


class AssignsToCountsSym(Contract):
    """Deductive contract of assigns_to_counts on a rectangular -1-padded array (symbolic number of trajectories, length, lag).
    stripped row r = the order-preserving sub-sequence of row r without -1 (np.where contract);
    the coordinate list is the concatenation over r of the lagged pairs of stripped row r (so no pair spans two trajectories):
        coords[0, OFF(r)+t] = strip_r[t*s],  coords[1, OFF(r)+t] = strip_r[t*s+lag],  t < m_r,  OFF = prefix sums of the m_r;
    every coordinate is one unit count; the matrix is square with max_n_states (or largest state + 1)."""
    key = F + 'assigns_to_counts'
    abstract_nonlinear = True        # products t*lag only need to stay syntactically equal here (the arithmetic is the helper's)

    def __init__(self, explicit_states=True, sliding=True):
        self.explicit, self.sliding = explicit_states, sliding

    def params(self, e, st):
        import z3
        from pyvc.logic import Arr
        from pyvc.engine import NONE
        return {'assigns': e.new_obj(st, Arr(z3.Array('assigns', z3.IntSort(), z3.IntSort(), z3.IntSort()), (z3.Int('n_trj'), z3.Int('n_frames')), 'int')),
                'lag_time': z3.Int('lag'), 'max_n_states': z3.Int('max_n_states') if self.explicit else NONE, 'sliding_window': self.sliding}

    def requires(self, L, A, G):
        a = A['assigns']
        c = [('lag-at-least-1', A['lag_time'] >= 1), ('has-trajectories', L.shape(a, 0) >= 1),
             ('states-nonneg-or-padding', L.forall2((0, L.shape(a, 0)), (0, L.shape(a, 1)), lambda r, t: a[r, t] >= -1))]
        if self.explicit:
            c.append(('states-below-explicit-count', L.forall2((0, L.shape(a, 0)), (0, L.shape(a, 1)), lambda r, t: a[r, t] < A['max_n_states'])))
        else:
            c.append(('some-assigned-frame', L.exists(0, L.shape(a, 0), lambda r: L.exists(0, L.shape(a, 1), lambda t: a[r, t] != -1))))
        return c

    def ensures(self, L, A, N, R, G, V):
        import z3
        a, lag, sl = A['assigns'], A['lag_time'], A['sliding_window']
        n = L.shape(a, 0)
        strip = V.raw('assigns')           # the local `assigns` now holds the stripped rows (ragged)
        from pyvc.engine import Ref
        S = V._st.heap[strip.oid]
        coords = R.coords
        PS = coords.meta['PS']
        s = L.ite(sl, 1, lag)
        r, t = L.var('q'), L.var('q')
        row = S.row(r)
        ln = row.shape[0]
        avail = L.max(0, ln - lag)
        # number of pairs of row r (width of its block), characterised without division
        m = PS(r + 1) - PS(r)
        width_ok = L.ite(sl, m == avail, L.And(m >= 0, L.implies(avail == 0, m == 0), L.implies(avail > 0, L.And(L.mul(m - 1, lag) < avail, avail <= L.mul(m, lag)))))
        N_ = A['max_n_states'] if self.explicit else V['max_n_states']
        return [('square-with-n-states', L.And(R.n_rows == N_, R.n_cols == N_)),
                ('one-unit-count-per-pair', L.And(L.len(R.data) == L.shape(coords, 1), L.forall(0, L.len(R.data), lambda k: R.data[k] == 1))),
                ('total-number-of-pairs', L.shape(coords, 1) == PS(n)),
                ('pairs-per-trajectory', z3.ForAll([r], z3.Implies(z3.And(r >= 0, r < n), width_ok))),
                ('pairs-never-span-trajectories', z3.ForAll([r, t], z3.Implies(z3.And(r >= 0, r < n, t >= 0, t < m),
                                                                           z3.And(L.mul(t, s) + lag < ln, coords[0, PS(r) + t] == row[L.mul(t, s)], coords[1, PS(r) + t] == row[L.mul(t, s) + lag])))),
                ('padding-removed-order-kept', self.strip_clause(L, a, S, n))]

    @property
    def cuts(self):
        def ragged(V, name):
            return V._st.heap[V.raw(name).oid]

        def after_strip(L, V):
            import z3
            a = V.old['assigns']
            S = ragged(V, 'assigns')
            r, i = L.var('q'), L.var('q')
            row = S.row(r)
            hi = V.old['max_n_states'] if self.explicit else None
            body = z3.And(row[i] >= 0, row[i] < hi) if hi is not None else (row[i] >= 0)
            return [dict(name='stripped-values-are-states', fact=z3.ForAll([r, i], z3.Implies(z3.And(r >= 0, r < L.shape(a, 0), i >= 0, i < row.shape[0]), body)))]

        def after_hstack(L, V):
            import z3
            coords = V['mat_coords']
            BLK, PS = coords.meta['BLK'], coords.meta['PS']
            S = ragged(V, 'assigns')
            n = S.n
            k = L.var('q')
            lag = V.old['lag_time']
            s = 1 if self.sliding else lag
            row = S.row(BLK(k))
            tt = k - PS(BLK(k))
            r_, t_ = L.var('q'), L.var('q')
            rowr = S.row(r_)
            m_ = PS(r_ + 1) - PS(r_)
            local = ['comp:assign', 'prim:np.hstack', 'pre:lag-at-least-1']
            return [dict(name='pairs-never-span-trajectories', using=local,
                         fact=z3.ForAll([r_, t_], z3.Implies(z3.And(r_ >= 0, r_ < n, t_ >= 0, t_ < m_),
                                                             z3.And(L.mul(t_, s) + lag < rowr.shape[0], coords[0, PS(r_) + t_] == rowr[L.mul(t_, s)], coords[1, PS(r_) + t_] == rowr[L.mul(t_, s) + lag])))),
                    dict(name='every-coordinate-is-a-lagged-pair-of-its-trajectory', using=local,
                         fact=z3.ForAll([k], z3.Implies(z3.And(k >= 0, k < L.shape(coords, 1)),
                                                        z3.And(L.mul(tt, s) + lag < row.shape[0], L.mul(tt, s) >= 0, coords[0, k] == row[L.mul(tt, s)], coords[1, k] == row[L.mul(tt, s) + lag]))))]
        return {'assigns': after_strip, 'mat_coords': after_hstack}

    def strip_clause(self, L, a, S, n):
        import z3
        r, i, j = L.var('q'), L.var('q'), L.var('q')
        row = S.row(r)
        # every stripped value is an assigned state (never the padding value)
        return z3.ForAll([r, i], z3.Implies(z3.And(r >= 0, r < n, i >= 0, i < row.shape[0]), row[i] != -1))

    def pins(self):
        import z3
        return [[z3.Int('n_trj') == 1, z3.Int('n_frames') == k] for k in (1, 2, 3)]


def registry_counts(explicit=True, sliding=True):
    cs = [TransitionsHelper(), AssignsToCountsSym(explicit, sliding)]
    return {c.key: c for c in cs}
