"""Contracts for enspara/msm/transition_matrices.py (C03): _transitions_helper, assigns_to_counts."""
from pyvc.spec import Contract

F = 'enspara/msm/transition_matrices.py::'


class TransitionsHelper(Contract):
    """rows of equal width m; m = max(0, L-lag) (sliding) or ceil(max(0, L-lag)/lag) (strided);
       start[t] = a[t*s], end[t] = a[t*s+lag], t*s+lag < L, s = 1 or lag; for every L >= 0, lag >= 1"""
    key = F + '_transitions_helper'
    abstract_nonlinear = False

    def params(self, e, st):
        import z3
        from pyvc.logic import Arr
        return {'assigns_1d': e.new_obj(st, Arr(z3.Array('a1d', z3.IntSort(), z3.IntSort()), (z3.Int('LEN'),), 'int')),
                'lag_time': z3.Int('lag'), 'sliding_window': z3.Bool('sliding')}

    def requires(self, L, A, G):
        return [('lag-positive', A['lag_time'] >= 1)]

    def result(self, e, st, args):
        a = e.deref(st, args['assigns_1d'])
        m = e.fresh('npairs', 'int')
        st.pc.append(m >= 0)
        return e.fresh_arr(st, 'pairs', 'int', (2, m))

    def width(self, L, n, lag, sliding, m):
        """m is the number of lagged pairs (characterised without division)"""
        avail = L.max(0, n - lag)
        return L.ite(sliding, m == avail,
                     L.And(m >= 0, L.implies(avail == 0, m == 0),
                           L.implies(avail > 0, L.And((m - 1) * lag < avail, avail <= m * lag))))

    def ensures(self, L, A, N, R, G, V):
        a, lag, sl = A['assigns_1d'], A['lag_time'], A['sliding_window']
        n = L.len(a)
        m = L.shape(R, 1)
        s = L.ite(sl, 1, lag)
        return [('two-rows', L.shape(R, 0) == 2),
                ('number-of-pairs', self.width(L, n, lag, sl, m)),
                ('pairs-inside-trajectory', L.forall(0, m, lambda t: L.And(t * s >= 0, t * s + lag < n))),
                ('start-states', L.forall(0, m, lambda t: R[0, t] == a[t * s])),
                ('end-states', L.forall(0, m, lambda t: R[1, t] == a[t * s + lag]))]

    def pins(self):
        import z3
        return [[z3.Int('LEN') == n, z3.Int('lag') == l] for n, l in ((3, 1), (3, 2), (4, 2), (5, 2), (5, 3), (2, 3))]

    def want(self):
        import z3
        a = z3.Array('a1d', z3.IntSort(), z3.IntSort())
        return {'assigns_1d': lambda m: [m.eval(a[t], True).as_long() for t in range(min(10, m.eval(z3.Int('LEN'), True).as_long()))],
                'lag_time': lambda m: m.eval(z3.Int('lag'), True).as_long(),
                'sliding_window': lambda m: z3.is_true(m.eval(z3.Bool('sliding'), True))}


def registry():
    return {TransitionsHelper.key: TransitionsHelper()}
