"""Contracts for enspara/msm/transition_matrices.py (C03): _transitions_helper, assigns_to_counts."""
from pyvc.spec import Contract

F = 'enspara/msm/transition_matrices.py::'


class TransitionsHelper(Contract):
    """rows of equal width m; m = max(0, L-lag) (sliding) or ceil(max(0, L-lag)/lag) (strided);
       start[t] = a[t*s], end[t] = a[t*s+lag], t*s+lag < L, s = 1 or lag; for every L >= 0, lag >= 1"""
    key = F + '_transitions_helper'
    abstract_nonlinear = False

    def params(self, e, st):
        import z3
        from pyvc.logic import Arr
        return {'assigns_1d': e.new_obj(st, Arr(z3.Array('a1d', z3.IntSort(), z3.IntSort()), (z3.Int('LEN'),), 'int')),
                'lag_time': z3.Int('lag'), 'sliding_window': z3.Bool('sliding')}

    def requires(self, L, A, G):
        return [('lag-positive', A['lag_time'] >= 1)]

    def result(self, e, st, args):
        a = e.deref(st, args['assigns_1d'])
        m = e.fresh('npairs', 'int')
        st.pc.append(m >= 0)
        return e.fresh_arr(st, 'pairs', 'int', (2, m))

    def width(self, L, n, lag, sliding, m):
        """m is the number of lagged pairs (characterised without division)"""
        avail = L.max(0, n - lag)
        return L.ite(sliding, m == avail,
                     L.And(m >= 0, L.implies(avail == 0, m == 0),
                           L.implies(avail > 0, L.And((m - 1) * lag < avail, avail <= m * lag))))

    def ensures(self, L, A, N, R, G, V):
        a, lag, sl = A['assigns_1d'], A['lag_time'], A['sliding_window']
        n = L.len(a)
        m = L.shape(R, 1)
        s = L.ite(sl, 1, lag)
        return [('two-rows', L.shape(R, 0) == 2),
                ('number-of-pairs', self.width(L, n, lag, sl, m)),
                ('pairs-inside-trajectory', L.forall(0, m, lambda t: L.And(t * s >= 0, t * s + lag < n))),
                ('start-states', L.forall(0, m, lambda t: R[0, t] == a[t * s])),
                ('end-states', L.forall(0, m, lambda t: R[1, t] == a[t * s + lag]))]

    def pins(self):
        import z3
        return [[z3.Int('LEN') == n, z3.Int('lag') == l] for n, l in ((3, 1), (3, 2), (4, 2), (5, 2), (5, 3), (2, 3))]

    def want(self):
        import z3
        a = z3.Array('a1d', z3.IntSort(), z3.IntSort())
        return {'assigns_1d': lambda m: [m.eval(a[t], True).as_long() for t in range(min(10, m.eval(z3.Int('LEN'), True).as_long()))],
                'lag_time': lambda m: m.eval(z3.Int('lag'), True).as_long(),
                'sliding_window': lambda m: z3.is_true(m.eval(z3.Bool('sliding'), True))}


def registry():
    return {TransitionsHelper.key: TransitionsHelper()}


class AssignsToCounts(Contract):
    """C03 as a contract on assigns_to_counts.  Concrete oracle = the statement: entry (i,j) is the number of pairs
    (t, t+lag) inside one trajectory (every lag-th pair when not sliding), trailing -1 padding ignored."""
    key = F + 'assigns_to_counts'

    @staticmethod
    def rows(assigns):
        import numpy as np
        out = []
        for r in assigns:
            r = np.asarray(r)
            k = len(r)
            while k > 0 and r[k - 1] == -1:
                k -= 1
            out.append(r[:k])
        return out

    def requires(self, L, A, G):
        import numpy as np
        rows = self.rows(A['assigns']) if getattr(A['assigns'], 'ndim', 2) != 1 or hasattr(A['assigns'], 'lengths') else []
        interior = all((np.asarray(r) >= 0).all() for r in rows)
        mx = A.get('max_n_states')
        import numbers
        return [('integral-lag-at-least-1', isinstance(A['lag_time'], numbers.Integral) and A['lag_time'] >= 1),
                ('two-dimensional-or-ragged', hasattr(A['assigns'], 'lengths') or getattr(A['assigns'], 'ndim', 2) == 2),
                ('only-trailing-padding', interior),
                ('some-state-or-explicit-count', mx is not None or any(len(r) for r in rows)),
                ('states-below-explicit-count', mx is None or all((np.asarray(r) < mx).all() for r in rows))]

    def raises(self, L, A, G):
        # the statement quantifies over integral lag >= 1 and 2-D / ragged input; what happens outside is not part of C03
        return {}

    def ensures(self, L, A, N, R, G, V):
        import numpy as np
        rows, lag = self.rows(A['assigns']), int(A['lag_time'])
        sliding = A.get('sliding_window', True)
        n = A.get('max_n_states')
        if n is None:
            n = int(max(int(r.max()) for r in rows if len(r))) + 1
        want = np.zeros((n, n), dtype=np.int64)
        total_sliding = 0
        for r in rows:
            total_sliding += max(0, len(r) - lag)
            step = 1 if sliding else lag
            t = 0
            while t + lag < len(r):
                want[int(r[t]), int(r[t + lag])] += 1
                t += step
        got = np.asarray(R.toarray() if hasattr(R, 'toarray') else R)
        out = [('square-with-n-states', got.shape == (n, n)),
               ('entry-is-number-of-lagged-pairs', got.shape == want.shape and bool((got == want).all()))]
        if sliding:
            out.append(('total-is-sum-of-max-0-len-minus-lag', int(got.sum()) == total_sliding))
        return out
