"""Run-time contract (bounded stand-in) for ergodic trimming (C11)."""
from pyvc.spec import Contract


def dense(x):
    import numpy as np
    return np.asarray(x.toarray() if hasattr(x, 'toarray') else x)


def sccs(adj):
    """strongly connected components by mutual reachability (independent of scipy.csgraph)"""
    import numpy as np
    n = len(adj)
    reach = (adj > 0) | np.eye(n, dtype=bool)
    for _ in range(n):
        reach = reach | ((reach.astype(int) @ reach.astype(int)) > 0)
    mutual = reach & reach.T
    comps, seen = [], set()
    for i in range(n):
        if i not in seen:
            c = [j for j in range(n) if mutual[i, j]]
            seen.update(c)
            comps.append(c)
    return comps


class Trim(Contract):
    key = 'enspara/msm/transition_matrices.py::trim_disconnected'

    def requires(self, L, A, G):
        C = dense(A['counts'])
        return [('square-nonneg', C.shape[0] == C.shape[1] and bool((C >= 0).all())), ('nonempty', len(C) >= 1)]

    def ensures(self, L, A, N, R, G, V):
        import numpy as np
        Cin = A['counts']
        C = dense(Cin)
        thr = A.get('threshold', 1)
        renum = A.get('renumber_states', True)
        mapping, Tm = R
        T = dense(Tm)
        comps = sccs(np.where(C >= thr, C, 0))
        w = [C[c, :].sum() for c in comps]
        heaviest = [sorted(c) for c, x in zip(comps, w) if x == max(w)]
        to_orig = mapping.to_original
        kept = sorted(to_orig.values())
        out = [('keeps-a-heaviest-strongly-connected-component', kept in heaviest),
               ('container-type-kept', type(Tm) is type(Cin))]
        if renum:
            k = len(kept)
            out += [('mapping-is-order-preserving-bijection', sorted(to_orig.keys()) == list(range(k)) and [to_orig[t] for t in range(k)] == kept),
                    ('counts-between-kept-states-preserved', T.shape == (k, k) and bool(np.array_equal(T, C[np.ix_(kept, kept)])))]
        else:
            want = np.zeros_like(C)
            want[np.ix_(kept, kept)] = C[np.ix_(kept, kept)]
            out += [('mapping-is-identity-on-kept', all(to_orig[s] == s for s in kept) and sorted(to_orig.keys()) == kept),
                    ('in-place-keeps-kept-and-zeroes-removed', T.shape == C.shape and bool(np.array_equal(T, want)))]
        # inverse mapping consistent
        tm = mapping.to_mapped
        out.append(('to_mapped-is-the-inverse', all(tm[o] == t for t, o in to_orig.items()) and len(tm) == len(to_orig)))
        # the trimmed model is strongly connected w.r.t. the threshold (sub-graph induced on one SCC)
        sub = C[np.ix_(kept, kept)]
        out.append(('trimmed-is-strongly-connected', len(sccs(np.where(sub >= thr, sub, 0))) == 1))
        return out


class TrimVariantsAgree(Contract):
    key = 'enspara/msm/transition_matrices.py::trim_disconnected[variants]'

    def ensures(self, L, A, N, R, G, V):
        import numpy as np
        (m1, t1), (m2, t2), (m3, t3) = R       # renumbered, in place, renumbered-dense
        kept = [m1.to_original[t] for t in range(len(m1.to_original))]
        T1, T2 = dense(t1), dense(t2)
        return [('renumbered-equals-in-place-restricted', bool(np.array_equal(T1, T2[np.ix_(kept, kept)]))),
                ('same-kept-set', sorted(m2.to_original.values()) == kept),
                ('dense-and-sparse-agree', bool(np.array_equal(T1, dense(t3))) and m1 == m3)]


class FitReportsMapping(Contract):
    key = 'enspara/msm/msm.py::MSM.fit[trim-mapping]'

    def ensures(self, L, A, N, R, G, V):
        import numpy as np
        from enspara.msm import transition_matrices as T
        est = R
        C = T.assigns_to_counts(A['assigns'], lag_time=A['lag_time'])
        mp, tc = T.trim_disconnected(C)
        return [('fitted-model-reports-the-trim-mapping', est.mapping_ == mp),
                ('fitted-counts-are-the-trimmed-counts', bool(np.array_equal(dense(est.tcounts_), dense(tc))))]
