"""Contracts for enspara/tpt/core.py (C07): _I_m_Q and committors build exactly the linear system whose exact solution
obeys the first-step equations (that implication is lemmas/Committor.lean).
  M[i,j] = (1 if i=j and i in A else 0)  if i in A or j in A   else   delta_ij - T[i,j]          (A = absorbing states)
  R[i,c] = 1 if i in sinks, else 0 if i in sources, else T[i, sinks[c]]
  q[i]   = 1 if i in sinks else sum_c B[i,c]      where  M B = R."""
from pyvc.spec import Contract
from contracts.tpt import sym_matrix, sym_states

F = 'enspara/tpt/core.py::'


def in_range(L, idx, n):
    return L.forall(0, L.len(idx), lambda k: L.between(0, idx[k], n))


class ImQ(Contract):
    key = F + '_I_m_Q'

    def params(self, e, st):
        import z3
        return {'tprob': sym_matrix(e, st), 'absorbing_states': sym_states(e, st, 'absorbing', 'na'), 'n_states': z3.Int('n')}

    def requires(self, L, A, G):
        T = A['tprob']
        n = L.shape(T, 0)
        return [('square', L.shape(T, 1) == n), ('n-states-matches', A['n_states'] == n), ('states-in-range', in_range(L, A['absorbing_states'], n))]

    def result(self, e, st, args):
        n = e.deref(st, args['tprob']).shape[0]
        return e.fresh_arr(st, 'I_m_Q', 'real', (n, n))

    def system(self, L, T, Ab, i, j):
        mi, mj = L.member(Ab, i), L.member(Ab, j)
        return L.ite(L.Or(mi, mj), L.ite(L.And(i == j, mi), 1, 0), L.ite(i == j, 1, 0) - T[i, j])

    def ensures(self, L, A, N, R, G, V):
        T, Ab = A['tprob'], A['absorbing_states']
        n = L.shape(T, 0)
        return [('shape', L.And(L.shape(R, 0) == n, L.shape(R, 1) == n)),
                ('identity-minus-T-with-absorbing-rows-and-columns', L.forall2((0, n), (0, n), lambda i, j: L.req(R[i, j], self.system(L, T, Ab, i, j))))]


class Committors(Contract):
    key = F + 'committors'

    def params(self, e, st):
        return {'tprob': sym_matrix(e, st), 'sources': sym_states(e, st, 'sources', 'ns'), 'sinks': sym_states(e, st, 'sinks', 'nk')}

    def requires(self, L, A, G):
        T = A['tprob']
        n = L.shape(T, 0)
        return [('square', L.shape(T, 1) == n), ('states-in-range', L.And(in_range(L, A['sources'], n), in_range(L, A['sinks'], n))),
                ('has-sinks', L.len(A['sinks']) >= 1),
                ('sources-and-sinks-disjoint', L.forall2((0, L.len(A['sources'])), (0, L.len(A['sinks'])), lambda a, b: A['sources'][a] != A['sinks'][b]))]

    def ensures(self, L, A, N, R, G, V):
        T, so, si = A['tprob'], A['sources'], A['sinks']
        n, s = L.shape(T, 0), L.len(si)
        Rm, B, M = V['R'], V['B'], V['I_m_Q']
        import z3
        rowsum = z3.Function('AXSUM1_real', B.term.sort(), z3.IntSort(), z3.IntSort(), z3.IntSort(), z3.RealSort())
        solves = z3.Function('SOLVES_2d', M.term.sort(), Rm.term.sort(), Rm.term.sort(), z3.BoolSort())
        imq = ImQ()
        allabs = V['all_absorbing']
        return [('one-value-per-state', L.len(R) == n),
                ('right-hand-side', L.forall2((0, n), (0, s), lambda i, c: L.req(Rm[i, c], L.ite(L.member(si, i), 1, L.ite(L.member(so, i), 0, T[i, si[c]]))))),
                ('absorbing-list-is-sources-then-sinks', L.And(L.len(allabs) == L.len(so) + s, L.forall(0, L.len(so), lambda k: allabs[k] == so[k]),
                                                              L.forall(0, s, lambda k: allabs[L.len(so) + k] == si[k]))),
                ('system-matrix', L.forall2((0, n), (0, n), lambda i, j: L.req(M[i, j], imq.system(L, T, allabs, i, j)))),
                ('B-solves-the-system', solves(M.term, Rm.term, B.term)),
                ('committor-is-row-sum-with-sinks-pinned', L.forall(0, n, lambda i: L.req(R[i], L.ite(L.member(si, i), 1, rowsum(B.term, n, s, i)))))]


def registry():
    cs = [ImQ(), Committors()]
    return {c.key: c for c in cs}


class EqProbsOpaque(Contract):
    key = 'enspara/msm/transition_matrices.py::eq_probs'

    def result(self, e, st, args):
        n = e.deref(st, args['T']).shape[0]
        return e.fresh_arr(st, 'eq_probs', 'real', (n,))

    def ensures(self, L, A, N, R, G, V):
        return [('one-per-state', L.len(R) == L.shape(A['T'], 0))]


class MfptsSinks(Contract):
    """mfpts(tprob, sinks=S, lagtime): x solves M x = c with M the absorbing system for S and c = 0 on S, 1 elsewhere;
    result = lagtime * x   (so it is linear in the lag time; first-step equations: lemmas/Mfpt.lean)"""
    key = F + 'mfpts'
    abstract_nonlinear = False

    def params(self, e, st):
        import z3
        return {'tprob': sym_matrix(e, st), 'sinks': sym_states(e, st, 'sinks', 'nk'), 'lagtime': z3.Real('lagtime')}

    def requires(self, L, A, G):
        T = A['tprob']
        n = L.shape(T, 0)
        return [('square', L.shape(T, 1) == n), ('states-in-range', in_range(L, A['sinks'], n)), ('nonempty', n >= 1)]

    def ensures(self, L, A, N, R, G, V):
        T, si, lag = A['tprob'], A['sinks'], A['lagtime']
        n = L.shape(T, 0)
        M, c = V['I_m_Q'], V['c']
        import z3
        x = z3.Array('mfpt_solution', z3.IntSort(), z3.RealSort())
        solves = z3.Function('SOLVES_1d', M.term.sort(), c.term.sort(), c.term.sort(), z3.BoolSort())
        imq = ImQ()
        return [('system-matrix', L.forall2((0, n), (0, n), lambda i, j: L.req(M[i, j], imq.system(L, T, si, i, j)))),
                ('right-hand-side-zero-on-sinks-one-elsewhere', L.forall(0, n, lambda i: c[i] == L.ite(L.member(si, i), 0, 1))),
                ('result-is-lag-time-times-an-exact-solution', z3.Exists([x], z3.And(solves(M.term, c.term, x), L.len(R) == n,
                                                                                 L.forall(0, n, lambda i: R[i] == lag * x[i]))))]


class MfptsAllPairs(Contract):
    """mfpts(tprob, populations=pi, lagtime) without sinks: W[i,j] = pi_j, Z = inverse of (I - T + W) (np.linalg.inv: assumed exact),
    result[i,j] = lagtime * (Z[j,j] - Z[i,j]) / pi_j.  That this is zero on the diagonal and satisfies the first-step equations
    m[i,j] = lag + sum_k T[i,k] m[k,j] (i != j) for a stationary pi is lemmas/MfptAll.lean."""
    key = F + 'mfpts'
    abstract_nonlinear = False
    division_may_raise = True

    def params(self, e, st):
        import z3
        from pyvc.logic import Arr
        from pyvc.engine import NONE
        n = z3.Int('n')
        return {'tprob': sym_matrix(e, st), 'sinks': NONE, 'lagtime': z3.Real('lagtime'),
                'populations': e.new_obj(st, Arr(z3.Array('populations', z3.IntSort(), z3.RealSort()), (n,), 'real'))}

    def requires(self, L, A, G):
        T = A['tprob']
        n = L.shape(T, 0)
        return [('square', L.shape(T, 1) == n), ('nonempty', n >= 1), ('one-population-per-state', L.len(A['populations']) == n)]

    def ensures(self, L, A, N, R, G, V):
        T, pi, lag = A['tprob'], A['populations'], A['lagtime']
        n = L.shape(T, 0)
        W, Z = V['W'], V['Z']
        M = Z.meta['inverse_of']
        return [('W-rows-are-the-populations', L.And(L.shape(W, 0) == n, L.shape(W, 1) == n, L.forall2((0, n), (0, n), lambda i, j: W[i, j] == pi[j]))),
                ('Z-inverts-identity-minus-T-plus-W', L.forall2((0, n), (0, n), lambda i, j: M[i, j] == L.ite(i == j, 1, 0) - T[i, j] + pi[j])),
                ('fundamental-matrix-formula', L.And(L.shape(R, 0) == n, L.shape(R, 1) == n,
                                                     L.forall2((0, n), (0, n), lambda i, j: L.implies(pi[j] != 0, R[i, j] * pi[j] == lag * (Z[j, j] - Z[i, j]))))),
                ('zero-on-the-diagonal', L.forall(0, n, lambda j: L.implies(pi[j] != 0, R[j, j] == 0)))]


def registry_mfpts_all():
    cs = [ImQ(), EqProbsOpaque(), MfptsAllPairs()]
    return {c.key: c for c in cs}


def registry_mfpts():
    cs = [ImQ(), EqProbsOpaque(), MfptsSinks()]
    return {c.key: c for c in cs}
