"""Contracts for the estimator classes' fit methods (C01 names them): KCenters.fit, KMedoids.fit, KHybrid.fit are one call each -
the function implementation with the STORED configuration; the result (whose self-consistency is that function's contract) is
stored as `result_`, the configuration is left as it was, `self` is returned.  The clustering functions are uninterpreted here
(what they compute is proved in their own units); this unit is about the hand-over of the arguments."""
from pyvc.spec import Contract


def O():
    from pyvc.logic import sort_of
    return sort_of('obj')


def optint(v):
    import z3
    from pyvc.engine import NoneV
    return z3.IntVal(-1) if v is None or isinstance(v, NoneV) else v


class Opaque3(Contract):
    """call-site contract of a clustering function: its result is a function of exactly the arguments it is given"""
    def __init__(self, key, fname, argnames):
        self.key, self.fname, self.argnames = key, fname, argnames

    def result(self, e, st, args):
        import z3
        from pyvc.engine import to_z3, NoneV, Opaque
        vals = []
        for a in self.argnames:
            v = args.get(a)
            if v is None or isinstance(v, NoneV):
                vals.append(z3.Const('NONE_OBJ', O()))
            elif isinstance(v, bool):
                vals.append(z3.Const('TRUE_OBJ' if v else 'FALSE_OBJ', O()))
            elif isinstance(v, Opaque):
                vals.append(z3.Const('OPAQUE_' + v.tag, O()))
            else:
                z = to_z3(v)
                vals.append(z if z.sort() == O() else z3.Function('BOX_%s' % z.sort().name(), z.sort(), O())(z))
        f = z3.Function(self.fname, *([O()] * len(vals)), O())
        return f(*vals)


class Fit(Contract):
    modifies = ('self',)

    def __init__(self, cls, relpath, fname, fields, call_args):
        self.key = '%s::%s.fit' % (relpath, cls)
        self.cls, self.fname, self.fields, self.call_args = cls, fname, fields, call_args

    def params(self, e, st):
        import z3
        from pyvc.engine import RecV, NONE
        flds = {}
        for nm, kind in self.fields.items():
            flds[nm] = {'obj': z3.Const('self_' + nm, O()), 'int': z3.Int('self_' + nm), 'real': z3.Real('self_' + nm), 'false': False, 'none': NONE}[kind]
        out = {'self': e.new_obj(st, RecV(self.cls, flds)), 'X': z3.Const('X', O())}
        for extra in self.extra_params():
            out[extra] = z3.Const(extra, O())
        return out

    def extra_params(self):
        return {'KCenters': ['init_centers'], 'KHybrid': ['init_centers'], 'KMedoids': ['cluster_center_inds', 'assignments', 'distances', 'X_lengths']}[self.cls]

    def ensures(self, L, A, N, R, G, V):
        if not L.sym:
            return []
        import z3
        s0, s1 = A['self'], N['self']
        box = lambda z: z if z.sort() == O() else z3.Function('BOX_%s' % z.sort().name(), z.sort(), O())(z)
        vals = []
        for kind, nm in self.call_args:
            if kind == 'arg':
                vals.append(A[nm])
            elif kind == 'field':
                v = getattr(s0, nm)
                if v is None:
                    vals.append(z3.Const('NONE_OBJ', O()))
                elif isinstance(v, bool):
                    vals.append(z3.Const('TRUE_OBJ' if v else 'FALSE_OBJ', O()))
                else:
                    vals.append(box(v))
            elif kind == 'none':
                vals.append(z3.Const('NONE_OBJ', O()))
            elif kind == 'false':
                vals.append(z3.Const('FALSE_OBJ', O()))
        f = z3.Function(self.fname, *([O()] * len(vals)), O())
        out = [('result-is-the-function-on-the-stored-configuration', s1.result_ == f(*vals))]
        keep = []
        for nm, kind in self.fields.items():
            a, b = getattr(s0, nm), getattr(s1, nm)
            if kind in ('obj', 'int', 'real'):
                keep.append(a == b)
            else:
                keep.append(z3.BoolVal((a is b) or (a == b)))
        out.append(('configuration-untouched', L.And(*keep)))
        return out


KC, KM, HY = 'enspara/cluster/kcenters.py', 'enspara/cluster/kmedoids.py', 'enspara/cluster/hybrid.py'


def registry():
    # every parameter of the function's signature (the ones the estimator does not pass take their defaults: the stored configuration
    # has no field for them - an estimator that switches one on, e.g. the triangle-inequality shortcut, no longer computes the
    # function of its configuration)
    kc_args = ['traj', 'distance_method', 'n_clusters', 'dist_cutoff', 'init_centers', 'random_first_center', 'use_triangle_inequality', 'mpi_mode']
    km_args = ['X', 'distance_method', 'n_clusters', 'n_iters', 'assignments', 'distances', 'cluster_center_inds', 'proposals', 'X_lengths', 'args', 'lengths', 'random_state']
    hy_args = ['X', 'distance_method', 'n_iters', 'n_clusters', 'dist_cutoff', 'random_first_center', 'init_centers', 'random_state', 'mpi_mode', 'args', 'lengths']
    cs = [Opaque3(KC + '::kcenters', 'KCENTERS', kc_args), Opaque3(KM + '::kmedoids', 'KMEDOIDS', km_args), Opaque3(HY + '::hybrid', 'HYBRID', hy_args),
          Fit('KCenters', KC, 'KCENTERS', {'metric': 'obj', 'n_clusters': 'int', 'cluster_radius': 'real', 'random_first_center': 'false', 'mpi_mode': 'false'},
              [('arg', 'X'), ('field', 'metric'), ('field', 'n_clusters'), ('field', 'cluster_radius'), ('arg', 'init_centers'), ('field', 'random_first_center'), ('false', None), ('field', 'mpi_mode')]),
          Fit('KMedoids', KM, 'KMEDOIDS', {'metric': 'obj', 'n_clusters': 'int', 'n_iters': 'int'},
              [('arg', 'X'), ('field', 'metric'), ('field', 'n_clusters'), ('field', 'n_iters'), ('arg', 'assignments'), ('arg', 'distances'), ('arg', 'cluster_center_inds'), ('none', None), ('arg', 'X_lengths'), ('none', None), ('none', None), ('none', None)]),
          Fit('KHybrid', HY, 'HYBRID', {'metric': 'obj', 'n_clusters': 'int', 'cluster_radius': 'real', 'kmedoids_updates': 'int', 'random_first_center': 'false', 'random_state': 'obj', 'mpi_mode': 'false', 'args': 'none', 'lengths': 'none'},
              [('arg', 'X'), ('field', 'metric'), ('field', 'kmedoids_updates'), ('field', 'n_clusters'), ('field', 'cluster_radius'), ('field', 'random_first_center'), ('arg', 'init_centers'),
               ('field', 'random_state'), ('field', 'mpi_mode'), ('field', 'args'), ('field', 'lengths')])]
    return {c.key: c for c in cs}
