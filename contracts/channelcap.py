"""Contracts for enspara/info_theory/mutual_info.py::channel_capacity_normalization and its validation helper
_validate_feature_states_array (C18: "channel-capacity normalisation divides entry (i, j) by the log of the smaller of
the two features' state counts").
   cc[i, j] = mi[i, j] / ln(min(n_x[i], n_y[j]));  mi itself is not modified;  state counts < 2 or of the wrong
   length are rejected (DataInvalid).  ln is an uninterpreted real function (the statement is about *which* quotient is
   formed, not about the value of the logarithm)."""
from pyvc.spec import Contract

F = 'enspara/info_theory/mutual_info.py::'


def _ints(e, st, name, n):
    import z3
    from pyvc.logic import Arr
    return e.new_obj(st, Arr(z3.Array(name, z3.IntSort(), z3.IntSort()), (n,), 'int'))


def _vec(n):
    """the argument is a vector of counts (symbolic Arr / ndarray / list), not one integer"""
    return getattr(n, 'ndim', 0) >= 1 or isinstance(n, (list, tuple))


class ValidateStates(Contract):
    """form='array': n is an integer vector; form='scalar': n is one integer, broadcast to mi_dim entries.
    At call sites the clauses follow the form of the actual argument."""
    key = F + '_validate_feature_states_array'

    def __init__(self, form='array'):
        self.form = form

    def params(self, e, st):
        import z3
        return {'n': _ints(e, st, 'nst', z3.Int('len_n')) if self.form == 'array' else z3.Int('nst0'), 'mi_dim': z3.Int('mi_dim')}

    def requires(self, L, A, G):
        return [('dimension-nonneg', A['mi_dim'] >= 0)]

    def raises(self, L, A, G):
        n, d = A['n'], A['mi_dim']
        if _vec(n):
            return {'DataInvalid': L.Or(L.len(n) != d, L.exists(0, L.len(n), lambda i: n[i] < 2))}
        return {'DataInvalid': L.And(d > 0, n < 2)}

    def result(self, e, st, args):
        from pyvc.engine import to_z3
        return e.fresh_arr(st, 'nvalid', 'int', (to_z3(args['mi_dim']),))

    def ensures(self, L, A, N, R, G, V):
        n, d = A['n'], A['mi_dim']
        val = (lambda i: n[i]) if _vec(n) else (lambda i: n)
        return [('one-count-per-feature', L.len(R) == d),
                ('counts-unchanged', L.forall(0, d, lambda i: R[i] == val(i))),
                ('at-least-two-states', L.forall(0, d, lambda i: R[i] >= 2))]

    def pins(self):
        import z3
        if self.form == 'array':
            return [[z3.Int('len_n') == a, z3.Int('mi_dim') == b] for a, b in ((0, 0), (1, 1), (2, 2), (1, 2), (2, 1))]
        return [[z3.Int('mi_dim') == b] for b in (0, 1, 2)]

    def want(self):
        import z3
        if self.form == 'array':
            a = z3.Array('nst', z3.IntSort(), z3.IntSort())
            return {'n': lambda m: [m.eval(a[t], True).as_long() for t in range(m.eval(z3.Int('len_n'), True).as_long())],
                    'mi_dim': lambda m: m.eval(z3.Int('mi_dim'), True).as_long()}
        return {'n': lambda m: m.eval(z3.Int('nst0'), True).as_long(), 'mi_dim': lambda m: m.eval(z3.Int('mi_dim'), True).as_long()}


class ChannelCapacity(Contract):
    key = F + 'channel_capacity_normalization'
    abstract_nonlinear = False

    def __init__(self, form='array'):
        self.form = form

    def params(self, e, st):
        import z3
        from pyvc.logic import Arr
        FA, FB = z3.Int('FA'), z3.Int('FB')
        mi = e.new_obj(st, Arr(z3.Array('mi', z3.IntSort(), z3.IntSort(), z3.RealSort()), (FA, FB), 'real'))
        # forms: 'array' (two vectors), 'scalar' (two integers), 'int-x' (integer n_x, vector n_y), 'int-y' (vector n_x, integer n_y)
        return {'mi': mi, 'n_x': _ints(e, st, 'n_x', z3.Int('len_x')) if self.form in ('array', 'int-y') else z3.Int('n_x0'),
                'n_y': _ints(e, st, 'n_y', z3.Int('len_y')) if self.form in ('array', 'int-x') else z3.Int('n_y0')}

    def raises(self, L, A, G):
        mi, nx, ny = A['mi'], A['n_x'], A['n_y']
        FA, FB = L.shape(mi, 0), L.shape(mi, 1)
        bad = lambda n, d: L.Or(L.len(n) != d, L.exists(0, L.len(n), lambda i: n[i] < 2)) if _vec(n) else L.And(d > 0, n < 2)
        return {'DataInvalid': L.Or(bad(nx, FA), bad(ny, FB))}

    def ensures(self, L, A, N, R, G, V):
        mi, nx, ny = A['mi'], A['n_x'], A['n_y']
        FA, FB = L.shape(mi, 0), L.shape(mi, 1)
        if L.sym:
            ln = L.func('ln', 'real', 'real')
            same = lambda a, b: a == b
        else:
            import math
            ln = lambda x: math.log(float(x))
            same = lambda a, b: abs(float(a) - float(b)) <= 1e-12 * max(1.0, abs(float(b)))     # floating-point quotient: 1e-12 relative
        vx = (lambda i: nx[i]) if _vec(nx) else (lambda i: nx)
        vy = (lambda j: ny[j]) if _vec(ny) else (lambda j: ny)
        return [('shape', L.And(L.shape(R, 0) == FA, L.shape(R, 1) == FB)),
                ('entry-over-log-of-the-smaller-state-count', L.forall2((0, FA), (0, FB), lambda i, j:
                    same(R[i, j], mi[i, j] / ln(L.real(L.ite(vx(i) <= vy(j), vx(i), vy(j)))))))]

    def pins(self):
        import z3
        FA, FB = z3.Int('FA'), z3.Int('FB')
        return [[FA == a, FB == b, z3.Int('len_x') == a, z3.Int('len_y') == b] for a, b in ((1, 1), (1, 2), (2, 1), (2, 2))]

    def want(self):
        import z3
        m_ = z3.Array('mi', z3.IntSort(), z3.IntSort(), z3.RealSort())
        I = lambda m, t: m.eval(t, True).as_long()

        def q(m, t):
            v = m.eval(t, True)
            return [v.numerator_as_long(), v.denominator_as_long()] if z3.is_rational_value(v) else [0, 1]
        out = {'mi': lambda m: [[q(m, m_[i, j]) for j in range(I(m, z3.Int('FB')))] for i in range(I(m, z3.Int('FA')))]}
        for nm, ln_, vec in (('n_x', 'len_x', self.form in ('array', 'int-y')), ('n_y', 'len_y', self.form in ('array', 'int-x'))):
            if vec:
                a = z3.Array(nm, z3.IntSort(), z3.IntSort())
                out[nm] = (lambda a, ln_: lambda m: [I(m, a[t]) for t in range(I(m, z3.Int(ln_)))])(a, ln_)
            else:
                out[nm] = (lambda nm: lambda m: I(m, z3.Int(nm + '0')))(nm)
        return out


def registry(form='array'):
    v, c = ValidateStates('scalar' if form == 'scalar' else 'array'), ChannelCapacity(form)
    return {v.key: v, c.key: c}
