"""Contract for enspara/tpt/path.py::top_path (C17): the widest-path search, PARTIAL correctness of what it returns.

Proved (for any number of states, any sources / sinks, any finite flux matrix):
  the returned nodes are states, the path ends at a sink, every consecutive pair is an edge of positive flux, the reported flux is
  at most the flux of every edge on the path and is attained on one of them (or is +-inf), a finite flux comes with at least one
  edge and is positive, and unless the flux is -inf (no sink reached) the path starts at a source.
NOT proved here: that no other path has a larger bottleneck (optimality), that the path repeats no node, termination.
Those stay with the bounded driver (exhaustive simple-path oracle).

Loop invariant of the search (prev = previous_node, mf = min_fluxes):
  prev[v] = -1  or  prev[v] is a visited state with F[prev[v], v] > 0 and mf[v] = min(mf[prev[v]], F[prev[v], v]);
  mf[v] is -inf or positive;  prev[v] = -1 implies mf[v] = +-inf;  mf[v] = +inf exactly marks the sources' initial value.
"""
from pyvc.spec import Contract

F = 'enspara/tpt/path.py::'


class TopPathProved(Contract):
    key = F + 'top_path'
    local_kinds = {'test_node': 'int', 'top_path': 'int'}
    resizable = ('queue', 'top_path')
    negative_index_ok = False

    def params(self, e, st):
        import z3
        from pyvc.logic import Arr
        n = z3.Int('n')
        return {'sources': e.new_obj(st, Arr(z3.Array('sources', z3.IntSort(), z3.IntSort()), (z3.Int('nsrc'),), 'int', meta={'list': True})),
                'sinks': e.new_obj(st, Arr(z3.Array('sinks', z3.IntSort(), z3.IntSort()), (z3.Int('nsnk'),), 'int', meta={'list': True})),
                'net_flux': e.new_obj(st, Arr(z3.Array('F', z3.IntSort(), z3.IntSort(), z3.RealSort()), (n, n), 'real'))}

    def ghost(self, L, A):
        return None, ([L.inf > 0] if L.sym else [])

    def requires(self, L, A, G):
        Fm, src, snk = A['net_flux'], A['sources'], A['sinks']
        n = L.shape(Fm, 0)
        return [('square-matrix', L.And(L.shape(Fm, 1) == n, n >= 1)),
                ('fluxes-finite', L.forall2((0, n), (0, n), lambda i, j: L.And(Fm[i, j] < L.inf, Fm[i, j] > -L.inf))),
                ('sources-are-states', L.And(L.len(src) >= 1, L.forall(0, L.len(src), lambda k: L.And(src[k] >= 0, src[k] < n)))),
                ('sinks-are-states', L.And(L.len(snk) >= 1, L.forall(0, L.len(snk), lambda k: L.And(snk[k] >= 0, snk[k] < n))))]

    def ensures(self, L, A, N, R, G, V):
        Fm, src, snk = A['net_flux'], A['sources'], A['sinks']
        n = L.shape(Fm, 0)
        p, flux = R
        m = L.len(p)
        edge = lambda k: Fm[p[k], p[k + 1]]
        finite = L.And(flux != L.inf, flux != -L.inf)
        return [('path-visits-states', L.And(m >= 1, L.forall(0, m, lambda k: L.And(p[k] >= 0, p[k] < n)))),
                ('ends-at-a-sink', L.member(snk, p[m - 1])),
                ('edges-carry-positive-flux', L.forall(0, m - 1, lambda k: edge(k) > 0)),
                ('reported-flux-at-most-every-edge', L.forall(0, m - 1, lambda k: flux <= edge(k))),
                # symbolically the witness is named (ghost_w counts from the sink, the returned path is reversed): a stronger statement of the same clause
                ('reported-flux-attained-on-the-path-or-infinite',
                 L.Or(flux == L.inf, flux == -L.inf, L.And(V['ghost_w'] >= 0, V['ghost_w'] <= m - 2, flux == edge(m - 2 - V['ghost_w']))) if (L.sym and V is not None and 'ghost_w' in V)
                 else L.Or(flux == L.inf, flux == -L.inf, L.exists(0, m - 1, lambda k: flux == edge(k)))),
                ('finite-flux-is-positive-and-has-an-edge', L.implies(finite, L.And(m >= 2, flux > 0))),
                ('starts-at-a-source-unless-no-sink-was-reached', L.implies(flux != -L.inf, L.member(src, p[0]))),
                ('no-state-is-visited-twice', L.forall2((0, m), (0, m), lambda a, b: L.implies(a < b, p[a] != p[b])))]

    def result(self, e, st, args):
        from pyvc.engine import Tup
        plen = e.fresh('tp_len', 'int')
        st.pc.append(plen >= 1)
        return Tup([e.fresh_arr(st, 'tp_path', 'int', (plen,)), e.fresh('tp_flux', 'real')])

    # ------------------------------------------------------------ invariants
    def search_facts(self, L, V):
        Fm = V.old['net_flux']
        n = L.shape(Fm, 0)
        vis, prev, mf, src = V['visited'], V['previous_node'], V['min_fluxes'], V['sources']
        return [('shapes', L.And(L.len(vis) == n, L.len(prev) == n, L.len(mf) == n)),
                ('predecessor-edge', L.forall(0, n, lambda v: L.Or(prev[v] == -1, L.And(prev[v] >= 0, prev[v] < n, vis[prev[v]], Fm[prev[v], v] > 0,
                                                                                        mf[v] == L.min(mf[prev[v]], Fm[prev[v], v]))))),
                ('widths-positive-or-unreached', L.forall(0, n, lambda v: L.Or(mf[v] == -L.inf, mf[v] > 0))),
                ('no-predecessor-means-initial-width', L.forall(0, n, lambda v: L.implies(prev[v] == -1, L.Or(mf[v] == L.inf, mf[v] == -L.inf)))),
                ('infinite-width-marks-a-source', L.forall(0, n, lambda v: L.implies(mf[v] == L.inf, L.member(src, v)))),
                ('sources-keep-their-initial-state', L.forall(0, L.len(src), lambda k: L.And(mf[src[k]] == L.inf, prev[src[k]] == -1, src[k] >= 0, src[k] < n)))]

    def order_facts(self, L, V):
        """ghost: ghost_ord[v] = number of the sweep in which v was first taken from the queue; predecessors were taken earlier"""
        n = L.shape(V.old['net_flux'], 0)
        vis, prev, od, it = V['visited'], V['previous_node'], V['ghost_ord'], V['ghost_it']
        has = lambda v: od[v] >= 0
        return [('visit-order-recorded', L.And(it >= 0, L.forall(0, n, lambda v: L.And(L.implies(has(v), L.And(vis[v], od[v] < it)), L.implies(vis[v], has(v)))))),
                ('predecessors-have-an-order', L.forall(0, n, lambda v: L.implies(prev[v] != -1, has(prev[v])))),
                ('predecessors-were-visited-earlier', L.forall(0, n, lambda v: L.implies(L.And(prev[v] != -1, has(v)), od[prev[v]] < od[v])))]

    @property
    def invariants(self):
        def search(L, V):
            n = L.shape(V.old['net_flux'], 0)
            q = V['queue']
            return self.search_facts(L, V) + [('queue-holds-states', L.forall(0, L.len(q), lambda k: L.And(q[k] >= 0, q[k] < n)))] + self.order_facts(L, V)

        def backtrack(L, V):
            Fm = V.old['net_flux']
            n = L.shape(Fm, 0)
            tp, prev, mf, snk = V['top_path'], V['previous_node'], V['min_fluxes'], V['sinks']
            k = L.len(tp)
            return [('path-so-far-visits-states', L.And(k >= 1, L.forall(0, k, lambda j: L.And(tp[j] >= 0, tp[j] < n)))),
                    ('begins-at-a-sink', L.member(snk, tp[0])),
                    ('follows-predecessors', L.forall(0, k - 1, lambda j: L.And(tp[j + 1] == prev[tp[j]], prev[tp[j]] != -1))),
                    ('width-at-most-along-the-way', L.And(L.forall(0, k, lambda j: mf[tp[0]] <= mf[tp[j]]),
                                                          L.forall(0, k - 1, lambda j: mf[tp[0]] <= Fm[tp[j + 1], tp[j]]))),
                    ('walked-states-have-an-order', L.forall(1, k, lambda j: V['ghost_ord'][tp[j]] >= 0)),
                    ('walk-goes-back-in-visit-order', L.forall2((0, k), (0, k), lambda a, b: L.implies(L.And(a < b, L.Or(a >= 1, V['ghost_ord'][tp[0]] >= 0)), V['ghost_ord'][tp[b]] < V['ghost_ord'][tp[a]]))),
                    # ghost witness w: the step of the walk on which the reported width is attained (-1: not yet, the width still equals the
                    # width of the node the walk stands on)
                    ('width-attained', L.And(V['ghost_w'] >= -1, V['ghost_w'] < k - 1,
                                             L.implies(V['ghost_w'] == -1, mf[tp[0]] == mf[tp[k - 1]]),
                                             L.implies(V['ghost_w'] >= 0, mf[tp[0]] == Fm[tp[V['ghost_w'] + 1], tp[V['ghost_w']]])))]
        return {1: search, 2: backtrack}

    @property
    def ghost_loops(self):
        def init(L, V):
            import z3
            return {'ghost_w': z3.IntVal(-1)}

        def step(L, V0, V1):
            import z3
            Fm = V0.old['net_flux']
            tp0, mf, prev = V0['top_path'], V0['min_fluxes'], V0['previous_node']
            k0 = L.len(tp0)
            last = tp0[k0 - 1]
            w0 = V0['ghost_w']
            return {'ghost_w': z3.If(w0 >= 0, w0, z3.If(mf[tp0[0]] == Fm[prev[last], last], k0 - 1, z3.IntVal(-1)))}
        def init1(L, V):
            import z3
            from pyvc.logic import Arr
            n = L.shape(V.old['net_flux'], 0)
            return {'ghost_it': z3.IntVal(0), 'ghost_ord': Arr(z3.K(z3.IntSort(), z3.IntVal(-1)), (n,), 'int')}

        def step1(L, V0, V1):
            import z3
            from pyvc.logic import Arr
            n = L.shape(V0.old['net_flux'], 0)
            it0, od0, vis0 = V0['ghost_it'], V0['ghost_ord'], V0['visited']
            t = V1['test_node']           # the state taken from the queue in this sweep
            return {'ghost_it': it0 + 1, 'ghost_ord': Arr(z3.If(vis0[t], od0.term, z3.Store(od0.term, t, it0)), (n,), 'int')}
        return {1: dict(init=init1, step=step1), 2: dict(init=init, step=step)}

    def pins(self):
        import z3
        return [[z3.Int('n') == 2, z3.Int('nsrc') == 1, z3.Int('nsnk') == 1], [z3.Int('n') == 3, z3.Int('nsrc') == 1, z3.Int('nsnk') == 1]]


def registry():
    c = TopPathProved()
    return {c.key: c}
