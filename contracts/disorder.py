"""Contract for enspara/cards/disorder.py::transitions (C20, transition bookkeeping).
Statement: a transition is reported at frame n exactly when frames n and n+1 differ, per trajectory."""
from pyvc.spec import Contract

F = 'enspara/cards/disorder.py::'


class Transitions1D(Contract):
    key = F + 'transitions'

    def params(self, e, st):
        import z3
        return {'assignments': e.new_obj(st, __import__('pyvc.logic', fromlist=['Arr']).Arr(
            z3.Array('assignments', z3.IntSort(), z3.IntSort()), (z3.Int('n'),), 'int'))}

    def requires(self, L, A, G):
        return [('one-dimensional', True)]

    def ensures(self, L, A, N, R, G, V):
        a = A['assignments']
        n = L.len(a)
        m = L.len(R)
        return [('strictly-increasing', L.forall2((0, m), (0, m), lambda i, j: L.implies(i < j, R[i] < R[j]))),
                ('sound', L.forall(0, m, lambda j: L.And(0 <= R[j], R[j] < n - 1, a[R[j]] != a[R[j] + 1]))),
                ('complete', L.forall(0, n - 1, lambda t: L.implies(a[t] != a[t + 1], L.exists(0, m, lambda j: R[j] == t))))]

    def pins(self):
        import z3
        return [[z3.Int('n') == k] for k in (0, 1, 2, 3)]

    def want(self):
        import z3
        a = z3.Array('assignments', z3.IntSort(), z3.IntSort())
        return {'assignments': lambda m: [m.eval(a[t], True).as_long() for t in range(m.eval(z3.Int('n'), True).as_long())]}


class Transitions2D(Contract):
    key = F + 'transitions'

    def __init__(self, exclude=()):
        self.exclude = set(exclude)

    def params(self, e, st):
        import z3
        from pyvc.logic import Arr
        return {'assignments': e.new_obj(st, Arr(z3.Array('assignments2', z3.IntSort(), z3.IntSort(), z3.IntSort()),
                                                  (z3.Int('n_trj'), z3.Int('n_frames')), 'int'))}

    def requires(self, L, A, G):
        a = A['assignments']
        c = [('has-frame-pairs', L.shape(a, 1) >= 2), ('has-rows', L.shape(a, 0) >= 1)]
        if 'transitions2d-no-transition-anywhere' in self.exclude:
            # known finding: excluded witness class = no trajectory has any transition
            c.append(('outside-known-finding-class',
                      L.Not(L.forall2((0, L.shape(a, 0)), (0, L.shape(a, 1) - 1), lambda i, j: a[i, j] == a[i, j + 1]))))
        return c

    def ensures(self, L, A, N, R, G, V):
        a = A['assignments']
        return [('one-row-per-trajectory', L.len(R.lengths) == L.shape(a, 0))]

    def pins(self):
        import z3
        return [[z3.Int('n_trj') == r, z3.Int('n_frames') == c] for r, c in ((1, 2), (2, 2), (2, 3), (3, 2))]

    def want(self):
        import z3
        a = z3.Array('assignments2', z3.IntSort(), z3.IntSort(), z3.IntSort())

        def get(m):
            r, c = m.eval(z3.Int('n_trj'), True).as_long(), m.eval(z3.Int('n_frames'), True).as_long()
            return [[m.eval(a[i, j], True).as_long() for j in range(c)] for i in range(r)]
        return {'assignments': get}
