"""Contract for the Prinz reversible maximum-likelihood iteration (C12): enspara/msm/builders.py::_prinz_mle_py and the
compiled enspara/msm/libmsm.pyx::_mle_prinz_dense (same contract text => the two implementations perform the same update).

Mathematical (real) arithmetic; proved for every sweep of the iteration:
  * X stays symmetric;
  * every pair update writes X[i,j] = X[j,i] = v where v is a root of Prinz's quadratic  a v^2 + b v + c = 0  built from the
    current counts / row sums (or the old value when a = 0), and moves the running row sums X_rs[i], X_rs[j] by the same delta;
  * the diagonal update is Prinz's  X_ii = C_ii (X_rs_i - X_ii) / (C_rs_i - C_ii)  when the denominator is positive;
  * the returned T is X row-normalised, hence in detailed balance with the row totals of X.
NOT proved (left open, `may_raise`): that the internal assertions never fail and that the loop converges - both depend on
floating-point behaviour of running sums; the bounded driver exercises them.
"""
from pyvc.spec import Contract

PY = 'enspara/msm/builders.py::_prinz_mle_py'
PYX = 'enspara/msm/libmsm.pyx::_mle_prinz_dense'


class PrinzStep(Contract):
    abstract_nonlinear = False
    asserts_raise = True
    may_raise = ('AssertionError',)
    opaque_locals = ('a', 'b', 'c', 'v')
    division_may_raise = True      # NumPy scalars give inf/nan, C doubles raise ZeroDivisionError: absence is not proved here
    local_kinds = {'tmp': 'real', 'denom': 'real', 'a': 'real', 'b': 'real', 'c': 'real', 'v': 'real', 'logl': 'real', 'oldlogl': 'real',
                   'i': 'int', 'j': 'int', 'n_iter': 'int'}

    def __init__(self, key):
        self.key = key

    def params(self, e, st):
        import z3
        from pyvc.logic import Arr
        n = z3.Int('n')
        return {'C': e.new_obj(st, Arr(z3.Array('C', z3.IntSort(), z3.IntSort(), z3.RealSort()), (n, n), 'real')),
                'tol': z3.Real('tol'), 'max_iter': z3.Int('max_iter')}

    def requires(self, L, A, G):
        C = A['C']
        n = L.shape(C, 0)
        return [('square', L.And(L.shape(C, 1) == n, n >= 1)), ('at-least-one-sweep', A['max_iter'] >= 1),
                ('counts-non-negative', L.forall2((0, n), (0, n), lambda i, j: C[i, j] >= 0))]

    def ghost(self, L, A):
        if not L.sym:
            return None, []
        import z3
        C = A['C']
        n = L.shape(C, 0)
        x = z3.Real('sq!x')
        sqrt = L.func('sqrt', 'real', 'real')
        rowsum = z3.Function('AXSUM1_real', C.term.sort(), z3.IntSort(), z3.IntSort(), z3.IntSort(), z3.RealSort())
        return None, [z3.ForAll([x], z3.Implies(x >= 0, z3.And(sqrt(x) >= 0, sqrt(x) * sqrt(x) == x)), patterns=[sqrt(x)]),     # definition of the square root
                      # a row total of non-negative entries is at least each entry (Finset.single_le_sum)
                      L.forall2((0, n), (0, n), lambda i, j: rowsum(C.term, n, n, i) >= C[i, j])]

    @property
    def cuts(self):
        def after_v(L, V):
            C, X, Xrs, Crs = V['C'], V['X'], V['X_rs'], V['C_rs']
            i, j, a, b, c, v = V['i'], V['j'], V['a'], V['b'], V['c'], V['v']
            # Prinz et al. 2011, eq. for the off-diagonal update, written from the paper
            pa = (Crs[i] - C[i, j]) + (Crs[j] - C[j, i])
            pb = Crs[i] * (Xrs[j] - X[i, j]) + Crs[j] * (Xrs[i] - X[i, j]) - (C[i, j] + C[j, i]) * (Xrs[i] + Xrs[j] - 2 * X[i, j])
            pc = -(C[i, j] + C[j, i]) * (Xrs[i] - X[i, j]) * (Xrs[j] - X[i, j])
            return [dict(name='coefficients-are-prinz-quadratic', fact=L.And(a == pa, b == pb, c == pc)),
                    dict(name='leading-coefficient-non-negative', fact=a >= 0),
                    dict(name='constant-coefficient-non-positive', fact=c <= 0),
                    dict(name='discriminant-non-negative', using=['cut:leading-coefficient-non-negative', 'cut:constant-coefficient-non-positive'], fact=b * b - 4 * a * c >= 0),
                    dict(name='new-value-solves-the-quadratic', using=['def:v', 'cut:discriminant-non-negative'], fact=L.implies(a != 0, a * v * v + b * v + c == 0)),
                    dict(name='new-value-non-negative', using=['def:v', 'cut:discriminant-non-negative', 'cut:leading-coefficient-non-negative', 'cut:constant-coefficient-non-positive'],
                         fact=L.implies(a != 0, v >= 0))]
        def unchanged(L, V):
            # the pair keeps its old value only when the quadratic degenerates (a = 0 exactly: two states without self-counts)
            return [dict(name='pair-left-unchanged-only-for-the-degenerate-quadratic', fact=L.And(V['a'] == 0, V['v'] == V['X'][V['j'], V['i']]))]
        return {'v': unchanged, 'v#2': after_v}

    def sym(self, L, X, n):
        return L.forall2((0, n), (0, n), lambda a, b: X[a, b] == X[b, a])

    def ensures(self, L, A, N, R, G, V):
        n = L.shape(A['C'], 0)
        T, pi = R
        X = V['X']
        rs = V.rowsum(X) if hasattr(V, 'rowsum') else None
        import z3
        out = [('iterate-is-symmetric', self.sym(L, X, n))]
        if L.sym:
            RS = z3.Function('AXSUM1_real', X.term.sort(), z3.IntSort(), z3.IntSort(), z3.IntSort(), z3.RealSort())
            rs = lambda i: RS(X.term, n, n, i)
            out += [('result-is-the-row-normalised-iterate', L.And(L.shape(T, 0) == n, L.shape(T, 1) == n,
                                                                  L.forall2((0, n), (0, n), lambda i, j: L.implies(rs(i) != 0, T[i, j] * rs(i) == X[i, j])))),
                    ('detailed-balance-with-the-row-totals', L.forall2((0, n), (0, n), lambda i, j: L.implies(L.And(rs(i) != 0, rs(j) != 0), T[i, j] * rs(i) == T[j, i] * rs(j))))]
        return out

    @property
    def invariants(self):
        def shapes(L, V):
            n = L.shape(V.old['C'], 0)
            X, Xrs, Crs = V['X'], V['X_rs'], V['C_rs']
            return [('shapes', L.And(L.shape(X, 0) == n, L.shape(X, 1) == n, L.len(Xrs) == n, L.len(Crs) == n)),
                    ('symmetric', self.sym(L, X, n))]

        def outer(L, V):
            return shapes(L, V) + [('sweep-counter-bound-after-first-sweep', L.implies(V['__it1'] > 0, V.defined('n_iter')))]
        return {1: outer, 2: shapes, 3: shapes, 4: shapes}


def registry(which='py'):
    c = PrinzStep(PY if which == 'py' else PYX)
    return {c.key: c}
