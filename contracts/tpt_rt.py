"""Run-time contracts (bounded stand-ins) for TPT: committors / MFPTs (C07) and reactive flux (C08)."""
from pyvc.spec import Contract


def dense(x):
    import numpy as np
    return np.asarray(x.toarray() if hasattr(x, 'toarray') else x, dtype=float)


def ergodic(T):
    import numpy as np
    n = len(T)
    return bool(np.allclose(T.sum(axis=1), 1)) and bool((T >= 0).all()) and bool((np.linalg.matrix_power((T > 0) + np.eye(n), n) > 0).all())


class Committors(Contract):
    key = 'enspara/tpt/core.py::committors'

    def requires(self, L, A, G):
        T = dense(A['tprob'])
        so, si = set(map(int, A['sources'])), set(map(int, A['sinks']))
        return [('ergodic-row-stochastic', ergodic(T)), ('disjoint-nonempty', bool(so) and bool(si) and not (so & si))]

    def ensures(self, L, A, N, R, G, V):
        import numpy as np
        T = dense(A['tprob'])
        so, si = sorted(set(map(int, A['sources']))), sorted(set(map(int, A['sinks'])))
        q = np.asarray(R, dtype=float).flatten()
        n = len(T)
        mid = [i for i in range(n) if i not in so and i not in si]
        return [('zero-on-sources', bool(np.allclose(q[so], 0, atol=1e-12))), ('one-on-sinks', bool(np.allclose(q[si], 1, atol=1e-12))),
                ('within-0-1', bool((q >= -1e-9).all() and (q <= 1 + 1e-9).all()) and len(q) == n),
                ('first-step-equation', bool(np.allclose(q[mid], (T @ q)[mid], atol=1e-9)))]


class Mfpts(Contract):
    key = 'enspara/tpt/core.py::mfpts'

    def requires(self, L, A, G):
        T = dense(A['tprob'])
        return [('ergodic-row-stochastic', ergodic(T)), ('positive-lag', A.get('lagtime', 1.0) > 0)]

    def ensures(self, L, A, N, R, G, V):
        import numpy as np
        T = dense(A['tprob'])
        lag = float(A.get('lagtime', 1.0))
        n = len(T)
        M = np.asarray(R, dtype=float)
        if A.get('sinks') is None:
            ok_diag = bool(np.allclose(np.diag(M), 0, atol=1e-8))
            ok = True
            for j in range(n):
                col = M[:, j]
                rest = [i for i in range(n) if i != j]
                ok = ok and bool(np.allclose(col[rest], (lag + T @ col)[rest], rtol=1e-7, atol=1e-7))
            return [('table-zero-on-diagonal', ok_diag), ('every-column-satisfies-first-step-equation', ok), ('shape', M.shape == (n, n))]
        si = sorted(set(map(int, np.atleast_1d(A['sinks']))))
        t = M.flatten()
        rest = [i for i in range(n) if i not in si]
        return [('zero-on-sinks', bool(np.allclose(t[si], 0, atol=1e-12))),
                ('first-step-equation', bool(np.allclose(t[rest], (lag + T @ t)[rest], rtol=1e-8, atol=1e-8))), ('length', len(t) == n)]


class Relational(Contract):
    """all-pairs column = single-sink computation; linear in the lag time; dense = sparse"""
    key = 'enspara/tpt/core.py::[relational]'

    def requires(self, L, A, G):
        return [('ergodic-row-stochastic', ergodic(dense(A['T'])))]

    def ensures(self, L, A, N, R, G, V):
        import numpy as np
        table, singles, table3, q_dense, q_sparse, t_dense = R
        n = len(table)
        return [('all-pairs-column-equals-single-sink', all(np.allclose(table[:, j], singles[j], rtol=1e-7, atol=1e-7) for j in range(n))),
                ('linear-in-lag-time', bool(np.allclose(table3, 3.5 * table, rtol=1e-9, atol=1e-9))),
                ('dense-and-sparse-committors-agree', bool(np.allclose(q_dense, q_sparse, atol=1e-10)))]


class ReactiveFluxes(Contract):
    key = 'enspara/tpt/tpt.py::reactive_fluxes'

    def requires(self, L, A, G):
        import numpy as np
        T = dense(A['tprob'])
        so, si = set(map(int, np.atleast_1d(A['sources']))), set(map(int, np.atleast_1d(A['sinks'])))
        c = [('ergodic-row-stochastic', ergodic(T)), ('disjoint-nonempty', bool(so) and bool(si) and not (so & si))]
        if A.get('populations') is not None:
            p = np.asarray(A['populations'], dtype=float)
            c.append(('populations-are-stationary', bool(np.allclose(p @ T, p, atol=1e-9)) and abs(p.sum() - 1) < 1e-9))
        return c

    @staticmethod
    def pieces(A):
        import numpy as np
        from contracts.tpt_rt import dense
        T = dense(A['tprob'])
        n = len(T)
        if A.get('populations') is not None:
            pi = np.asarray(A['populations'], dtype=float)
        else:
            w, v = np.linalg.eig(T.T)
            pi = np.real(v[:, np.argmax(np.real(w))])
            pi = pi / pi.sum()
        so, si = sorted(set(map(int, np.atleast_1d(A['sources'])))), sorted(set(map(int, np.atleast_1d(A['sinks']))))
        mid = [i for i in range(n) if i not in so and i not in si]
        q = np.zeros(n)
        q[si] = 1
        if mid:
            Am = np.eye(len(mid)) - T[np.ix_(mid, mid)]
            q[mid] = np.linalg.solve(Am, T[np.ix_(mid, si)].sum(axis=1))
        return T, pi, q, so, si, mid

    def ensures(self, L, A, N, R, G, V):
        import numpy as np
        T, pi, q, so, si, mid = self.pieces(A)
        F = dense(R)
        want = pi[:, None] * (1 - q)[:, None] * T * q[None, :]
        np.fill_diagonal(want, 0)
        return [('flux-definition-off-diagonal-zero-on-it', bool(np.allclose(F, want, atol=1e-10)))]


class NetFluxes(ReactiveFluxes):
    key = 'enspara/tpt/tpt.py::net_fluxes'

    def ensures(self, L, A, N, R, G, V):
        import numpy as np
        T, pi, q, so, si, mid = self.pieces(A)
        f = pi[:, None] * (1 - q)[:, None] * T * q[None, :]
        np.fill_diagonal(f, 0)
        Nf = dense(R)
        want = np.maximum(f - f.T, 0)
        out = [('net-flux-is-positive-part', bool(np.allclose(Nf, want, rtol=1e-6, atol=1e-13 * max(1e-300, float(np.abs(f).max()))))),
               ('at-most-one-direction', bool(np.all((Nf * Nf.T) <= 1e-18)))]
        rev = bool(np.allclose(pi[:, None] * T, (pi[:, None] * T).T, atol=1e-10))
        if rev:
            out += [('conserved-at-intermediates', bool(np.allclose(Nf[:, mid].sum(axis=0), Nf[mid, :].sum(axis=1), atol=1e-9))),
                    ('nothing-into-sources-or-out-of-sinks', bool(np.allclose(Nf[:, so], 0, atol=1e-10)) and bool(np.allclose(Nf[si, :], 0, atol=1e-10))),
                    ('source-outflow-equals-sink-inflow', abs(Nf[so, :].sum() - Nf[:, si].sum()) < 1e-9)]
        return out


class ReactivePopulations(ReactiveFluxes):
    key = 'enspara/tpt/tpt.py::reactive_populations'

    def requires(self, L, A, G):
        c = ReactiveFluxes.requires(self, L, A, G)
        if all(ok for _, ok in c):
            T, pi, q, so, si, mid = self.pieces(A)
            c.append(('has-intermediate-states', len(mid) >= 1))
            c.append(('some-reactive-density', float((pi * q * (1 - q)).sum()) > 1e-9))     # otherwise the vector is 0/0
        return c

    def ensures(self, L, A, N, R, G, V):
        import numpy as np
        T, pi, q, so, si, mid = self.pieces(A)
        r = np.asarray(R, dtype=float).flatten()
        d = pi * q * (1 - q)
        # non-negativity up to the accuracy of the committor solve (the rare-event chain has condition number ~1e7: q may exceed 1 by ~1e-9)
        return [('probability-vector', abs(r.sum() - 1) < 1e-9 and bool((r >= -1e-8).all())),
                ('vanishes-on-sources-and-sinks', bool(np.allclose(r[so + si], 0, atol=1e-12))),
                ('definition', bool(np.allclose(r, d / d.sum(), rtol=1e-6, atol=1e-12)))]
