"""Contracts for enspara/ra/ra.py::partition_list and partition_indices (C10 bookkeeping).

Ghost PS = prefix sums of the length vector:  PS(0)=0, PS(t+1)=PS(t)+L[t].
  partition_list(xs, L): raises DataInvalid unless sum(L)=len(xs); piece t is xs[PS(t) : PS(t)+L[t]]
  partition_indices(I, L): for 0 <= I[q] < PS(len L): exactly one pair (t,f) per index, in order,
                           with PS(t)+f = I[q] and 0 <= f < L[t]   (the pair addresses the same frame)
"""
from pyvc.spec import Contract

F = 'enspara/ra/ra.py::'


def prefix_sums(L, lens, name='PS'):
    n = L.len(lens)
    if L.sym:
        import z3
        if z3.is_const(lens.term) and lens.term.decl().kind() == z3.Z3_OP_UNINTERPRETED:
            name = 'PS!' + lens.term.decl().name()      # one ghost per array: contracts about the same lengths share their prefix sums
        PS = L.func(name, 'int', 'int')
        ax = [PS(0) == 0, L.forall(0, n, lambda t: PS(t + 1) == PS(t) + lens[t]),
              L.sum(lens) == PS(n)]          # np.sum(L) is the last prefix sum (definition of the ghost)
        return PS, ax
    acc = [0]
    for k in range(int(n)):
        acc.append(acc[-1] + int(lens[k]))
    return (lambda t: acc[int(t)]), []


class PartitionIndices(Contract):
    key = F + 'partition_indices'
    resizable = ('partitioned_indices',)
    local_kinds = {'index': 'int', 'traj_len': 'int', 'trj_index': 'int', 'partitioned_indices': 'tuple:int,int'}

    def params(self, e, st):
        import z3
        from pyvc.logic import Arr
        return {'indices': e.new_obj(st, Arr(z3.Array('indices', z3.IntSort(), z3.IntSort()), (z3.Int('NI'),), 'int', meta={'list': True})),
                'traj_lengths': e.new_obj(st, Arr(z3.Array('traj_lengths', z3.IntSort(), z3.IntSort()), (z3.Int('NT'),), 'int'))}

    def ghost(self, L, A):
        PS, ax = prefix_sums(L, A['traj_lengths'])
        return {'PS': PS}, ax

    def requires(self, L, A, G):
        I, Ln = A['indices'], A['traj_lengths']
        return [('lengths-nonneg', L.forall(0, L.len(Ln), lambda t: Ln[t] >= 0)),
                ('indices-in-range', L.forall(0, L.len(I), lambda q: L.And(I[q] >= 0, I[q] < G['PS'](L.len(Ln)))))]

    def good(self, L, out, upto, I, Ln, PS):
        return L.forall(0, upto, lambda q: L.And(out[q][0] >= 0, out[q][0] < L.len(Ln), out[q][1] >= 0,
                                                 out[q][1] < Ln[out[q][0]], PS(out[q][0]) + out[q][1] == I[q]))

    def ensures(self, L, A, N, R, G, V):
        I, Ln = A['indices'], A['traj_lengths']
        return [('one-pair-per-index', L.len(R) == L.len(I)),
                ('pair-addresses-same-frame', self.good(L, R, L.len(I), I, Ln, G['PS']))]

    @property
    def invariants(self):
        def outer(L, V):
            out, p = V['partitioned_indices'], V['__it1']
            I, Ln = V.old['indices'], V.old['traj_lengths']
            return [('one-per-index', L.len(out) == p), ('pairs', self.good(L, out, p, I, Ln, V.ghost['PS']))]

        def inner(L, V):
            out, p, pt = V['partitioned_indices'], V['__it1'], V['__it2']
            I, Ln = V.old['indices'], V.old['traj_lengths']
            return [('outer-pos', L.And(p >= 0, p < L.len(I))), ('trj-is-position', V['trj_index'] == pt),
                    ('remainder', L.And(V['index'] >= 0, V['index'] + V.ghost['PS'](pt) == I[p])),
                    ('not-yet', L.len(out) == p), ('pairs', self.good(L, out, p, I, Ln, V.ghost['PS']))]
        return {1: outer, 2: inner}

    def pins(self):
        import z3
        return [[z3.Int('NI') == a, z3.Int('NT') == b] for a, b in ((1, 1), (1, 2), (2, 2), (2, 3))]

    def want(self):
        import z3
        I, Ln = z3.Array('indices', z3.IntSort(), z3.IntSort()), z3.Array('traj_lengths', z3.IntSort(), z3.IntSort())
        g = lambda m, a, n: [m.eval(a[t], True).as_long() for t in range(min(8, m.eval(z3.Int(n), True).as_long()))]
        return {'indices': lambda m: g(m, I, 'NI'), 'traj_lengths': lambda m: g(m, Ln, 'NT')}


class PartitionList(Contract):
    key = F + 'partition_list'
    resizable = ('partitioned_list',)
    local_kinds = {'partitioned_list': 'slices:list_to_partition'}

    def params(self, e, st):
        import z3
        from pyvc.logic import Arr
        return {'list_to_partition': e.new_obj(st, Arr(z3.Array('xs', z3.IntSort(), z3.IntSort()), (z3.Int('NX'),), 'int')),
                'partition_lengths': e.new_obj(st, Arr(z3.Array('plens', z3.IntSort(), z3.IntSort()), (z3.Int('NP'),), 'int'))}

    def result(self, e, st, args):
        import z3
        from pyvc.logic import Arr
        base, ln = e.deref(st, args['list_to_partition']), e.deref(st, args['partition_lengths'])
        cols = (e.fresh('pl_lo', e.arr_sort('int')), e.fresh('pl_n', e.arr_sort('int')))
        return e.new_obj(st, Arr(cols, (ln.shape[0],), 'slices', meta={'list': True, 'base': base}))

    def ghost(self, L, A):
        PS, ax = prefix_sums(L, A['partition_lengths'], 'PSL')
        return {'PS': PS}, ax

    def requires(self, L, A, G):
        Ln = A['partition_lengths']
        return [('lengths-nonneg', L.forall(0, L.len(Ln), lambda t: Ln[t] >= 0))]

    def lemmas(self, L, A, G):
        if not L.sym:
            return []
        n, PS = L.len(A['partition_lengths']), G['PS']
        return [dict(name='prefix-sums-below-total', lo=0, hi=n, down=True, P=lambda t: PS(t) <= PS(n)),
                dict(name='prefix-sums-nonneg', lo=0, hi=n, down=False, P=lambda t: PS(t) >= 0)]

    def raises(self, L, A, G):
        return {'DataInvalid': L.sum(A['partition_lengths']) != L.len(A['list_to_partition'])}

    def ensures(self, L, A, N, R, G, V):
        xs, Ln = A['list_to_partition'], A['partition_lengths']
        return [('one-piece-per-length', L.len(R) == L.len(Ln)),
                ('piece-is-window', L.forall(0, L.len(Ln), lambda t: L.slice_is(R[t], xs, G['PS'](t), Ln[t]))),
                ('windows-cover', G['PS'](L.len(Ln)) == L.len(xs))]

    @property
    def invariants(self):
        def inv(L, V):
            out, k = V['partitioned_list'], V['num']
            xs, Ln, PS = V.old['list_to_partition'], V.old['partition_lengths'], V.ghost['PS']
            return [('count', L.len(out) == k), ('start', V['start'] == PS(k)),
                    ('pieces', L.forall(0, k, lambda t: L.slice_is(out[t], xs, PS(t), Ln[t])))]
        return {1: inv}

    def pins(self):
        import z3
        return [[z3.Int('NX') == a, z3.Int('NP') == b] for a, b in ((1, 1), (2, 1), (2, 2), (3, 2))]

    def want(self):
        import z3
        X, Ln = z3.Array('xs', z3.IntSort(), z3.IntSort()), z3.Array('plens', z3.IntSort(), z3.IntSort())
        g = lambda m, a, n: [m.eval(a[t], True).as_long() for t in range(min(8, m.eval(z3.Int(n), True).as_long()))]
        return {'list_to_partition': lambda m: g(m, X, 'NX'), 'partition_lengths': lambda m: g(m, Ln, 'NP')}


def registry():
    return {c.key: c for c in (PartitionIndices(), PartitionList())}
