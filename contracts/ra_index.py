"""Contracts for the index arithmetic of enspara/ra/ra.py that every two-dimensional read (C05) and write (C06) goes
through.  Ghost PS = prefix sums of the row lengths (PS(0)=0, PS(t+1)=PS(t)+lengths[t]); `starts[t] = PS(t)`.

  _handle_negative_indices(r, c, lengths, starts)  (arrays of equal length m >= 2, modified in place)
        r'[k] = r[k] + n if r[k] < 0 else r[k];  c'[k] = c[k] + lengths[r'[k]] if c[k] < 0 else c[k]
        IndexError iff some r'[k] < 0 or some c'[k] < 0
  _convert_from_2d((r, c), lengths, starts)
        IndexError iff some element lies outside its row (not -lengths[r'] <= c < lengths[r'])
        flat[k] = starts[r'[k]] + c'[k]  and  PS(r'[k]) <= flat[k] < PS(r'[k] + 1)   (never a neighbouring row's data)
        the caller's index arrays are unchanged
"""
from pyvc.spec import Contract
from contracts.ra_partition import prefix_sums

F = 'enspara/ra/ra.py::'


def _arr(e, st, name, n, kind='int', **meta):
    import z3
    from pyvc.logic import Arr
    return e.new_obj(st, Arr(z3.Array(name, z3.IntSort(), z3.IntSort()), (z3.Int(n),), kind, meta=meta or None))


def norm_row(L, r, n):
    return L.ite(r < 0, r + n, r)


class HandleNegative(Contract):
    key = F + '_handle_negative_indices'
    modifies = ('first_dimension', 'second_dimension')

    def params(self, e, st):
        return {'first_dimension': _arr(e, st, 'r', 'M'), 'second_dimension': _arr(e, st, 'c', 'M2'),
                'lengths': _arr(e, st, 'lengths', 'N'), 'starts': _arr(e, st, 'starts', 'N2')}

    def requires(self, L, A, G):
        r, c, ln, stt = A['first_dimension'], A['second_dimension'], A['lengths'], A['starts']
        n = L.len(ln)
        return [('paired-indices', L.And(L.len(r) == L.len(c), L.len(r) >= 1)), ('one-start-per-row', L.And(L.len(stt) == n, n >= 1)),
                ('rows-addressable', L.forall(0, L.len(r), lambda k: L.And(r[k] >= -n, r[k] < n))),
                ('lengths-positive', L.forall(0, n, lambda t: ln[t] >= 1))]

    def rp(self, L, A):
        r, n = A['first_dimension'], L.len(A['lengths'])
        return lambda k: norm_row(L, r[k], n)

    def cp(self, L, A):
        c, ln, rp = A['second_dimension'], A['lengths'], self.rp(L, A)
        return lambda k: L.ite(c[k] < 0, c[k] + ln[rp(k)], c[k])

    def raises(self, L, A, G):
        m = L.len(A['first_dimension'])
        return {'IndexError': L.exists(0, m, lambda k: self.cp(L, A)(k) < 0)}

    def ensures(self, L, A, N, R, G, V):
        m = L.len(A['first_dimension'])
        r2, c2 = R
        return [('rows-normalised', L.And(L.len(r2) == m, L.forall(0, m, lambda k: r2[k] == self.rp(L, A)(k)))),
                ('columns-normalised', L.And(L.len(c2) == m, L.forall(0, m, lambda k: c2[k] == self.cp(L, A)(k))))]

    def result(self, e, st, args):
        import z3
        m = args['first_dimension'].shape[0] if hasattr(args['first_dimension'], 'shape') else z3.Int('M')
        from pyvc.engine import Tup
        return Tup([e.fresh_arr(st, 'hn_r', 'int', (m,)), e.fresh_arr(st, 'hn_c', 'int', (m,))])

    def pins(self):
        import z3
        return [[z3.Int('M') == 2, z3.Int('M2') == 2, z3.Int('N') == a, z3.Int('N2') == a] for a in (1, 2)]


class _Row:
    """row k of a 2-row index array, as an indexable"""
    def __init__(self, arr, k):
        self.arr, self.k = arr, k

    def __getitem__(self, j):
        return self.arr[self.k, j]


class ConvertFrom2d(Contract):
    key = F + '_convert_from_2d'
    prune_paths = True      # the scalar-column branch (size == 1) contradicts the precondition

    def __init__(self, arr2d=False):
        # arr2d: the index pairs arrive as one (2, M) array (what _get_iis_from_list builds) instead of a tuple of two arrays
        self.arr2d = arr2d

    def params(self, e, st):
        from pyvc.engine import Tup
        if self.arr2d:
            import z3
            from pyvc.logic import Arr
            iis = e.new_obj(st, Arr(z3.Array('rc', z3.IntSort(), z3.IntSort(), z3.IntSort()), (z3.IntVal(2), z3.Int('M')), 'int'))
        else:
            iis = Tup([_arr(e, st, 'r', 'M'), _arr(e, st, 'c', 'M2')])
        return {'iis_ragged': iis, 'lengths': _arr(e, st, 'lengths', 'N'), 'starts': _arr(e, st, 'starts', 'N2'), 'error_check': True}

    def pair(self, L, A):
        I = A['iis_ragged']
        if self.arr2d:
            return _Row(I, 0), _Row(I, 1), L.shape(I, 1), L.shape(I, 1)
        r, c = I
        return r, c, L.len(r), L.len(c)

    def ghost(self, L, A):
        PS, ax = prefix_sums(L, A['lengths'], 'PSR')
        return {'PS': PS}, ax

    def requires(self, L, A, G):
        ln, stt = A['lengths'], A['starts']
        r, c, m, m2 = self.pair(L, A)
        n = L.len(ln)
        return ([('two-index-rows', L.shape(A['iis_ragged'], 0) == 2)] if self.arr2d else []) + \
               [('paired-indices', L.And(m == m2, m >= 1)), ('one-start-per-row', L.And(L.len(stt) == n, n >= 1)),
                ('rows-addressable', L.forall(0, m, lambda k: L.And(r[k] >= -n, r[k] < n))),
                ('lengths-positive', L.forall(0, n, lambda t: ln[t] >= 1)),
                ('starts-are-prefix-sums', L.forall(0, n, lambda t: stt[t] == G['PS'](t))),
                # the contract describes the checking mode only (what every read and write of the class relies on)
                ('out-of-row-check-requested', A.get('error_check', True) is True)]

    def raises(self, L, A, G):
        ln = A['lengths']
        r, c, m, _ = self.pair(L, A)
        n = L.len(ln)
        return {'IndexError': L.exists(0, m, lambda k: L.Or(c[k] < -ln[norm_row(L, r[k], n)], c[k] >= ln[norm_row(L, r[k], n)]))}

    def ensures(self, L, A, N, R, G, V):
        ln, stt = A['lengths'], A['starts']
        r, c, m, _ = self.pair(L, A)
        n = L.len(ln)
        flat = R[0]
        rp = lambda k: norm_row(L, r[k], n)
        cp = lambda k: L.ite(c[k] < 0, c[k] + ln[rp(k)], c[k])
        return [('one-flat-index-per-pair', L.len(flat) == m),
                ('flat-index-is-row-start-plus-column', L.forall(0, m, lambda k: flat[k] == stt[rp(k)] + cp(k))),
                ('flat-index-inside-its-row', L.forall(0, m, lambda k: L.And(G['PS'](rp(k)) <= flat[k], flat[k] < G['PS'](rp(k) + 1))))]

    def result(self, e, st, args):
        from pyvc.engine import Tup
        I = e.deref(st, args['iis_ragged'])
        m = I.shape[1] if self.arr2d else e.deref(st, I.items[0]).shape[0]
        return Tup([e.fresh_arr(st, 'flat', 'int', (m,))])

    def pins(self):
        import z3
        return [[z3.Int('M') == 2, z3.Int('M2') == 2, z3.Int('N') == a, z3.Int('N2') == a] for a in (1, 2)]


class SliceToList(Contract):
    """_slice_to_list(slice(start, stop, step), n): for bounds inside [-n, n] and a positive step the range returned visits
    exactly the rows Python's own slicing of a list of n rows visits (range(*slice.indices(n)))."""
    key = F + '_slice_to_list'

    def __init__(self, start_none=False, stop_none=False, step_none=False):
        self.none = (start_none, stop_none, step_none)

    def params(self, e, st):
        import z3
        from pyvc.engine import Slice
        lo, hi, sp = [None if isnone else z3.Int(nm) for nm, isnone in zip(('sl_start', 'sl_stop', 'sl_step'), self.none)]
        return {'slice_func': Slice(lo, hi, sp), 'length': z3.Int('n_rows')}

    def requires(self, L, A, G):
        s, n = A['slice_func'], A['length']
        out = [('some-rows', n >= 1)]
        if s.start is not None:
            out.append(('start-within-rows', L.And(s.start >= -n, s.start <= n)))
        if s.stop is not None:
            out.append(('stop-within-rows', L.And(s.stop >= -n, s.stop <= n)))
        if s.step is not None:
            out.append(('step-positive', s.step >= 1))
        return out

    def result(self, e, st, args):
        import z3
        from pyvc.engine import Tup, Opaque
        s = e.deref(st, args['slice_func'])
        step = z3.IntVal(1) if s.step is None else e.fresh('rng_step', 'int')
        return Tup([Opaque('range'), e.fresh('rng_lo', 'int'), e.fresh('rng_hi', 'int'), step])

    def ensures(self, L, A, N, R, G, V):
        s, n = A['slice_func'], A['length']
        lo = 0 if s.start is None else L.ite(s.start < 0, s.start + n, s.start)
        hi = n if s.stop is None else L.ite(s.stop < 0, s.stop + n, s.stop)
        sp = 1 if s.step is None else s.step
        r0, r1, r2 = L.range_parts(R)
        return [('first-row-as-python-slicing', r0 == lo), ('end-row-as-python-slicing', r1 == hi), ('same-step', r2 == sp),
                ('rows-exist', L.And(r0 >= 0, r1 <= n))]


def py_bounds(L, s, ln):
    """slice.indices(ln) of Python for a positive step: (first, end) of the positions visited in a row of length ln"""
    lo = 0 if s.start is None else L.ite(s.start < 0, L.max(ln + s.start, 0), L.min(s.start, ln))
    hi = ln if s.stop is None else L.ite(s.stop < 0, L.max(ln + s.stop, 0), L.min(s.stop, ln))
    return lo, hi


class IisFromSlices(Contract):
    """_get_iis_from_slices(rows, slice, lengths): with (S_p, E_p) = slice.indices(lengths[rows[p]]) and n_p = len(range(S_p, E_p, step)):
       new_lengths[p] = n_p;  block p (at offset sum of n_q, q<p) of the column indices is S_p, S_p+step, ...;
       the row index over block p is rows[p];  `lengths` is left unchanged."""
    key = F + '_get_iis_from_slices'
    local_kinds = {'iis_2d': 'aranges', 'iis_2d_lengths': 'int', 'num': 'int'}
    range_as_array = ('first_dimension_iis',)
    resizable = ('iis_2d', 'iis_2d_lengths')
    concat_full = True
    prune_paths = True

    def __init__(self, start_none=False, stop_none=False, step_none=False, exclude=()):
        self.none = (start_none, stop_none, step_none)
        self.abstract_nonlinear = not step_none
        self.exclude = set(exclude)

    def params(self, e, st):
        import z3
        from pyvc.engine import Slice
        lo, hi, sp = [None if isnone else z3.Int(nm) for nm, isnone in zip(('sl_start', 'sl_stop', 'sl_step'), self.none)]
        return {'first_dimension_iis': _arr(e, st, 'rows', 'M', list=True), 'second_dimension': Slice(lo, hi, sp), 'lengths': _arr(e, st, 'lengths', 'N')}

    def step(self, A):
        s = A['second_dimension']
        return 1 if s.step is None else s.step

    def count(self, L, A, r):
        lo, hi = py_bounds(L, A['second_dimension'], A['lengths'][r])
        return L.alen(lo, hi, self.step(A))

    def ghost(self, L, A):
        rows, m = A['first_dimension_iis'], L.len(A['first_dimension_iis'])
        if L.sym:
            OFF = L.func('OFF', 'int', 'int')
            ax = [OFF(0) == 0, L.forall(0, m, lambda p: OFF(p + 1) == OFF(p) + self.count(L, A, rows[p]))] + L.alen_axioms()
            return {'OFF': OFF}, ax
        acc = [0]
        for p in range(int(m)):
            acc.append(acc[-1] + self.count(L, A, rows[p]))
        return {'OFF': (lambda p: acc[int(p)])}, []

    def requires(self, L, A, G):
        rows, ln, s = A['first_dimension_iis'], A['lengths'], A['second_dimension']
        n = L.len(ln)
        out = [('rows-exist', L.And(L.len(rows) >= 1, L.forall(0, L.len(rows), lambda p: L.And(rows[p] >= 0, rows[p] < n)))),
               ('lengths-positive', L.forall(0, n, lambda t: ln[t] >= 1))]
        if s.step is not None:
            out.append(('step-positive', s.step >= 1))
        if 'ra-2d-slice-empty-row' in self.exclude:
            # listed finding: a slice that leaves a selected row empty raises TypeError (np.concatenate casts an empty Python list to float)
            out.append(('outside-known-finding-class:no-selected-row-comes-out-empty', L.forall(0, L.len(rows), lambda p: self.count(L, A, rows[p]) >= 1)))
        return out

    def ensures(self, L, A, N, R, G, V):
        rows, ln, s = A['first_dimension_iis'], A['lengths'], A['second_dimension']
        m, OFF, sp = L.len(rows), G['OFF'], self.step(A)
        (iis_r, iis_c), newl = R
        S = lambda p: py_bounds(L, s, ln[rows[p]])[0]
        cnt = lambda p: self.count(L, A, rows[p])
        # the two block-content clauses are proved locally: from the loop invariant at exit, the concatenations' block facts, the
        # induction lemmas (executor's prefix sums = ghost offsets) and the cut on the per-row bounds - nothing else is needed
        use = ['pre:rows-exist', 'pre:lengths-positive', 'inv1:blocks', 'inv1:one-block-per-row-so-far', 'inv1:range', 'exit1',
               'cut:row-bounds-select-what-python-slicing-selects', 'lemma:row-block-offsets', 'lemma:column-block-offsets',
               'prim:np.concatenate', 'prim:np.concatenate#2'] if (L.sym and not self.none[0]) else None
        # (only for a given start: the clamping of a start bound is what makes the full path condition large; with start=None the
        #  exact query is decided directly and the local form was measured to be the slower one)
        return [('one-length-per-selected-row', L.And(L.len(newl) == m, L.forall(0, m, lambda p: newl[p] == cnt(p)))),
                ('as-many-index-pairs-as-selected-cells', L.And(L.len(iis_r) == OFF(m), L.len(iis_c) == OFF(m))),
                ('row-index-over-each-block', L.forall_dep(0, m, cnt, lambda p, j: iis_r[OFF(p) + j] == rows[p]), use),
                ('column-index-follows-python-slicing', L.forall_dep(0, m, cnt, lambda p, j: iis_c[OFF(p) + j] == S(p) + L.mul(j, sp)), use)] + \
               ([('every-pair-addresses-a-cell-of-its-row', L.forall(0, OFF(m), lambda k: L.And(iis_r[k] >= 0, iis_r[k] < L.len(ln), iis_c[k] >= 0, iis_c[k] < ln[iis_r[k]])))]
                if s.step is None else [])

    def result(self, e, st, args):
        from pyvc.engine import Tup
        rows = e.deref(st, args['first_dimension_iis'])
        tot = e.fresh('n_cells', 'int')
        st.pc.append(tot >= 0)
        return Tup([Tup([e.fresh_arr(st, 'iis_r', 'int', (tot,)), e.fresh_arr(st, 'iis_c', 'int', (tot,))]), e.fresh_arr(st, 'new_lengths', 'int', (rows.shape[0],))])

    @property
    def cuts(self):
        def bounds(L, V):
            # the per-row bounds computed by the code select the same positions as Python's slice.indices()
            ln, s = V.old['lengths'], V.old['second_dimension']
            starts, stops, sp = V['starts'], V['stops'], self.step(V.old)
            def same(r):
                lo, hi = py_bounds(L, s, ln[r])
                return L.And(L.alen(starts[r], stops[r], sp) == L.alen(lo, hi, sp), L.implies(L.alen(lo, hi, sp) >= 1, starts[r] == lo))
            return [dict(name='row-bounds-select-what-python-slicing-selects', fact=L.forall(0, L.len(ln), same))]
        return {'iis_2d': bounds}

    def exit_lemmas(self, L, A, R, G, V):
        """the executor's own prefix sums (of the two concatenations) coincide with the ghost offsets: SMT induction"""
        if not L.sym:
            return []
        (iis_r, iis_c), newl = R
        m, OFF = L.len(A['first_dimension_iis']), G['OFF']
        out = []
        for nm, arr in (('row-block-offsets', iis_r), ('column-block-offsets', iis_c)):
            PS = arr.meta.get('PS') if hasattr(arr, 'meta') else None
            if PS is not None:
                out.append(dict(name=nm, lo=0, hi=m, down=False, P=(lambda t, PS=PS: PS(t) == OFF(t))))
        return out

    @property
    def invariants(self):
        def inv(L, V):
            k = V['__it1']
            rows, ln = V.old['first_dimension_iis'], V.old['lengths']
            out, lens, starts, stops = V['iis_2d'], V['iis_2d_lengths'], V['starts'], V['stops']
            sp = self.step(V.old)
            return [('one-block-per-row-so-far', L.And(L.len(out) == k, L.len(lens) == k)),
                    ('blocks', L.forall(0, k, lambda p: L.And(out[p][0] == starts[rows[p]], out[p][1] == stops[rows[p]], out[p][2] == sp,
                                                              out[p][3] == L.alen(starts[rows[p]], stops[rows[p]], sp), lens[p] == out[p][3])))]
        return {1: inv}

    def pins(self):
        import z3
        return [[z3.Int('M') == a, z3.Int('N') == b] for a, b in ((1, 1), (2, 2))]


class IisFromList(Contract):
    """_get_iis_from_list(rows, cols): the cartesian product in row-major order: pair p*len(cols)+q is (rows[p], cols[q]); every new row
    has len(cols) entries."""
    key = F + '_get_iis_from_list'

    def params(self, e, st):
        return {'first_dimension': _arr(e, st, 'rows', 'M', list=True), 'second_dimension': _arr(e, st, 'cols', 'K', list=True)}

    def ghost(self, L, A):
        """row-major numbering of the pairs, read backwards: position t is pair (t div k, t mod k).  The two ghost functions and their
        defining property (division with remainder: Sums.lean `pair_index_decompose`) are a trusted arithmetic fact."""
        m, k = L.len(A['first_dimension']), L.len(A['second_dimension'])
        if L.sym:
            RO, CO = L.func('PAIRROW', 'int', 'int', 'int'), L.func('PAIRCOL', 'int', 'int', 'int')
            ax = [L.forall(0, L.mul(m, k), lambda t: L.And(RO(t, k) >= 0, RO(t, k) < m, CO(t, k) >= 0, CO(t, k) < k, t == L.mul(RO(t, k), k) + CO(t, k)))]
            return {'RO': (lambda t: RO(t, k)), 'CO': (lambda t: CO(t, k))}, ax
        return {'RO': (lambda t: int(t) // int(k)), 'CO': (lambda t: int(t) % int(k))}, []

    def requires(self, L, A, G):
        return [('some-rows-and-columns', L.And(L.len(A['first_dimension']) >= 1, L.len(A['second_dimension']) >= 1))]

    def ensures(self, L, A, N, R, G, V):
        rows, cols = A['first_dimension'], A['second_dimension']
        m, k = L.len(rows), L.len(cols)
        iis, newl = R
        return [('two-index-rows', L.And(L.shape(iis, 0) == 2, L.shape(iis, 1) == L.mul(m, k))),
                ('row-major-product', L.forall2((0, m), (0, k), lambda p, q: L.And(iis[0, L.mul(p, k) + q] == rows[p], iis[1, L.mul(p, k) + q] == cols[q]))),
                ('every-position-holds-a-selected-row-and-a-selected-column', L.forall(0, L.mul(m, k), lambda t: L.And(iis[0, t] == rows[G['RO'](t)], iis[1, t] == cols[G['CO'](t)]))),
                ('every-new-row-has-one-entry-per-column', L.And(L.len(newl) == m, L.forall(0, m, lambda p: newl[p] == k)))]

    def result(self, e, st, args):
        import z3
        from pyvc.engine import Tup
        from pyvc.logic import Arr
        tot = e.fresh('n_pairs', 'int')
        st.pc.append(tot >= 0)
        n_rows = e.fresh('n_newl', 'int')
        st.pc.append(n_rows >= 0)
        iis = e.new_obj(st, Arr(e.fresh('iis', e.arr_sort('int', 2)), (z3.IntVal(2), tot), 'int'))
        return Tup([iis, e.fresh_arr(st, 'new_lengths', 'int', (n_rows,))])

    def pins(self):
        import z3
        return [[z3.Int('M') == a, z3.Int('K') == b] for a, b in ((1, 1), (2, 2))]


def registry():
    reg = {c.key: c for c in (HandleNegative(), ConvertFrom2d(), IisFromList())}
    return reg


def registry_slice(a, b, c):
    s = SliceToList(a, b, c)
    return {s.key: s}


def registry_iis(a, b, c, exclude=()):
    s = IisFromSlices(a, b, c, exclude)
    return {s.key: s}


class Starts(Contract):
    """RaggedArray.starts: the offset of every row in the flat data = prefix sums of the row lengths
    (this is the precondition `starts-are-prefix-sums` of _convert_from_2d, established where the class computes it)"""
    key = F + 'RaggedArray.starts'

    def params(self, e, st):
        from pyvc.engine import RecV
        return {'self': e.new_obj(st, RecV('RaggedArray', {'lengths': _arr(e, st, 'lengths', 'N')}))}

    def ghost(self, L, A):
        PS, ax = prefix_sums(L, A['self'].lengths, 'PSS')
        return {'PS': PS}, ax

    def requires(self, L, A, G):
        ln = A['self'].lengths
        return [('at-least-one-row', L.len(ln) >= 1)]

    def ensures(self, L, A, N, R, G, V):
        ln = A['self'].lengths
        n = L.len(ln)
        return [('one-start-per-row', L.len(R) == n), ('starts-are-prefix-sums', L.forall(0, n, lambda t: R[t] == G['PS'](t)))]

    def result(self, e, st, args):
        ln = e.deref(st, e.deref(st, args['self']).fields['lengths'])
        return e.fresh_arr(st, 'starts', 'int', (ln.shape[0],))

    def exit_lemmas(self, L, A, R, G, V):
        if not L.sym:
            return []
        n = L.len(A['self'].lengths)
        return [dict(name='cumulative-sums-are-the-prefix-sums', lo=0, hi=n - 1, down=False, P=lambda t: R[t] == G['PS'](t))]

    def pins(self):
        import z3
        return [[z3.Int('N') == a] for a in (1, 2, 3)]


def registry_starts():
    s = Starts()
    return {s.key: s}


# ------------------------------------------------------------------------------------------------------------------ the class
def _ra_self(e, st):
    """a RaggedArray as the executor sees it: flat data + lengths (the object-array view `_array` is not modelled)"""
    import z3
    from pyvc.logic import Arr
    from pyvc.engine import RecV
    return e.new_obj(st, RecV('RaggedArray', {'_data': e.new_obj(st, Arr(z3.Array('data', z3.IntSort(), z3.RealSort()), (z3.Int('ND'),), 'real')),
                                              'lengths': _arr(e, st, 'lengths', 'N')}))


class RaggedInit(Contract):
    """ASSUMED contract of the constructor in its (flat data, lengths) form, used where __getitem__ builds its result
    (the constructor itself is only exercised by the bounded driver): the new object holds exactly that data and those lengths."""
    key = F + 'RaggedArray.__init__'

    def result(self, e, st, args):
        from pyvc.engine import RecV
        from pyvc.logic import Arr
        a, ln = e.deref(st, args['array']), e.deref(st, args['lengths'])
        if not (isinstance(a, Arr) and isinstance(ln, Arr)):
            from pyvc.engine import Unsupported
            raise Unsupported('RaggedArray(...) form other than (flat data, lengths)')
        return e.new_obj(st, RecV('RaggedArray', {'_data': e.new_obj(st, Arr(a.term, a.shape, a.kind, a.init, {})),
                                                  'lengths': e.new_obj(st, Arr(ln.term, ln.shape, ln.kind, ln.init, {}))}))


class GetItem(Contract):
    """RaggedArray.__getitem__ for two-dimensional index expressions, stated against the list of rows
    row(t)[j] := _data[PS(t) + j]  (PS = prefix sums of the lengths; representation invariant len(_data) = PS(n)):

      form 'paired'      a[(r, c)] with index arrays        -> R[k] = row(r'_k)[c'_k]; IndexError iff an element lies outside its row
      form 'rows-slice'  a[rows, lo:hi] with a row array    -> a ragged array whose p-th row is row(rows[p])[lo:hi] (Python slicing),
                                                               i.e. lengths[p] = number of selected positions, data in row order
    """
    key = F + 'RaggedArray.__getitem__'
    prune_paths = True

    def __init__(self, form='paired', start_none=False, stop_none=False, exclude=(), row_none=(True, True)):
        self.form, self.none, self.exclude = form, (start_none, stop_none, True), set(exclude)
        self.rnone = tuple(row_none)
        self.abstract_nonlinear = False

    def params(self, e, st):
        import z3
        from pyvc.engine import Tup, Slice
        if self.form == 'paired':
            iis = Tup([_arr(e, st, 'r', 'M'), _arr(e, st, 'c', 'M2')])
        elif self.form == 'slice-slice':
            rlo, rhi = [None if isnone else z3.Int(nm) for nm, isnone in zip(('rs_start', 'rs_stop'), self.rnone)]
            lo, hi = [None if isnone else z3.Int(nm) for nm, isnone in zip(('sl_start', 'sl_stop'), self.none[:2])]
            iis = Tup([Slice(rlo, rhi, None), Slice(lo, hi, None)])
        else:
            lo, hi = [None if isnone else z3.Int(nm) for nm, isnone in zip(('sl_start', 'sl_stop'), self.none[:2])]
            iis = Tup([_arr(e, st, 'rows', 'M'), Slice(lo, hi, None)])
        return {'self': _ra_self(e, st), 'iis': iis}

    def row_facts(self):
        """named facts the last postcondition needs about which rows were selected"""
        if self.form == 'slice-slice':
            return ['_slice_to_list:first-row-as-python-slicing', '_slice_to_list:end-row-as-python-slicing', '_slice_to_list:same-step', 'pre:some-rows']
        return ['pre:rows-exist']

    def rows_of(self, L, A):
        """(number of selected rows, p -> row id) for the row-array and the row-slice forms"""
        first = A['iis'][0]
        if self.form == 'slice-slice':
            n = L.len(A['self'].lengths)
            lo = 0 if first.start is None else L.ite(first.start < 0, first.start + n, first.start)
            hi = n if first.stop is None else L.ite(first.stop < 0, first.stop + n, first.stop)
            return L.max(hi - lo, 0), (lambda p: lo + p)
        return L.len(first), (lambda p: first[p])

    def ghost(self, L, A):
        ln = A['self'].lengths
        PS, ax = prefix_sums(L, ln, 'PSG')
        G = {'PS': PS}
        if self.form != 'paired':
            s = A['iis'][1]
            m, row = self.rows_of(L, A)
            rows = type('Rows', (), {'__getitem__': lambda self_, p: row(p)})()
            cnt = lambda p: L.alen(*py_bounds(L, s, ln[rows[p]]), 1)
            if L.sym:
                OFF = L.func('OFF', 'int', 'int')      # the same ghost (same recurrence over the same rows / lengths / slice) as the callee _get_iis_from_slices uses
                ax = ax + [OFF(0) == 0, L.forall(0, m, lambda p: OFF(p + 1) == OFF(p) + cnt(p))]
                G['OFF'] = OFF
            else:
                acc = [0]
                for p in range(int(m)):
                    acc.append(acc[-1] + cnt(p))
                G['OFF'] = lambda p: acc[int(p)]
            G['cnt'] = cnt
        return G, ax

    def lemmas(self, L, A, G):
        if not L.sym:
            return []
        n, PS = L.len(A['self'].lengths), G['PS']
        out = [dict(name='prefix-sums-below-total', lo=0, hi=n, down=True, P=lambda t: PS(t) <= PS(n)),
               dict(name='prefix-sums-nonneg', lo=0, hi=n, down=False, P=lambda t: PS(t) >= 0)]
        if self.form != 'paired':
            m = self.rows_of(L, A)[0]
            out.append(dict(name='every-selected-row-contributes', lo=0, hi=m, down=False, P=lambda t: G['OFF'](t) >= t))
            out.append(dict(name='block-offsets-below-total', lo=0, hi=m, down=True, P=lambda t: G['OFF'](t) <= G['OFF'](m)))
        return out

    def requires(self, L, A, G):
        s = A['self']
        ln, n = s.lengths, L.len(s.lengths)
        out = [('some-rows', n >= 1), ('lengths-positive', L.forall(0, n, lambda t: ln[t] >= 1)),
               ('flat-data-holds-all-rows', L.len(s._data) == G['PS'](n))]
        if self.form == 'paired':
            r, c = A['iis']
            out += [('paired-indices', L.And(L.len(r) == L.len(c), L.len(r) >= 1)), ('rows-addressable', L.forall(0, L.len(r), lambda k: L.And(r[k] >= -n, r[k] < n)))]
        elif self.form == 'slice-slice':
            first = A['iis'][0]
            m, row = self.rows_of(L, A)
            if first.start is not None:
                out.append(('row-start-within-rows', L.And(first.start >= -n, first.start <= n)))
            if first.stop is not None:
                out.append(('row-stop-within-rows', L.And(first.stop >= -n, first.stop <= n)))
            out += [('outside-known-finding-class:some-row-selected', m >= 1),
                    ('outside-known-finding-class:no-selected-row-comes-out-empty', L.forall(0, m, lambda p: G['cnt'](p) >= 1))]
        else:
            rows, sl = A['iis']
            out += [('rows-exist', L.And(L.len(rows) >= 1, L.forall(0, L.len(rows), lambda p: L.And(rows[p] >= 0, rows[p] < n)))),
                    ('outside-known-finding-class:no-selected-row-comes-out-empty', L.forall(0, L.len(rows), lambda p: G['cnt'](p) >= 1))]
        return out

    def raises(self, L, A, G):
        if self.form != 'paired':
            return {}
        (r, c), ln = A['iis'], A['self'].lengths
        n = L.len(ln)
        return {'IndexError': L.exists(0, L.len(r), lambda k: L.Or(c[k] < -ln[norm_row(L, r[k], n)], c[k] >= ln[norm_row(L, r[k], n)]))}

    def ensures(self, L, A, N, R, G, V):
        s = A['self']
        ln, data, n, PS = s.lengths, s._data, L.len(s.lengths), G['PS']
        if self.form == 'paired':
            r, c = A['iis']
            rp = lambda k: norm_row(L, r[k], n)
            cp = lambda k: L.ite(c[k] < 0, c[k] + ln[rp(k)], c[k])
            return [('one-value-per-pair', L.len(R) == L.len(r)),
                    ('value-is-the-element-of-its-row', L.forall(0, L.len(r), lambda k: R[k] == data[PS(rp(k)) + cp(k)]))]
        sl = A['iis'][1]
        m, row = self.rows_of(L, A)
        rows = type('Rows', (), {'__getitem__': lambda self_, p: row(p)})()
        OFF, cnt = G['OFF'], G['cnt']
        S = lambda p: py_bounds(L, sl, ln[rows[p]])[0]
        return [('one-row-per-selected-row', L.And(L.len(R.lengths) == m, L.forall(0, m, lambda p: R.lengths[p] == cnt(p)))),
                ('data-holds-the-selected-cells', L.len(R._data) == OFF(m)),
                ('row-p-is-the-python-slice-of-the-selected-row', L.forall_dep(0, m, cnt, lambda p, j: R._data[OFF(p) + j] == data[PS(rows[p]) + S(p) + j]),
                 ['cut:flat-result-reads-the-generated-cells', '_get_iis_from_slices:row-index-over-each-block', '_get_iis_from_slices:column-index-follows-python-slicing',
                  '_get_iis_from_slices:as-many-index-pairs-as-selected-cells', 'lemma:block-offsets-below-total', 'lemma:every-selected-row-contributes'] + self.row_facts())]

    @property
    def cuts(self):
        if self.form == 'paired':
            return {}

        def after_read(L, V):
            # every cell of the flat result is the cell (row, column) the helper generated for that position
            iis_r, iis_c = V['iis']          # the local `iis` now holds the helper's (row indices, column indices)
            data, sd, PS = V.old['self']._data, V['sliced_data'], V.ghost['PS']
            return [dict(name='flat-result-reads-the-generated-cells', fact=L.And(L.len(sd) == L.len(iis_r), L.forall(0, L.len(iis_r), lambda k: sd[k] == data[PS(iis_r[k]) + iis_c[k]])))]
        return {'sliced_data': after_read}

    def pins(self):
        import z3
        return [[z3.Int('N') == 2, z3.Int('M') == 1, z3.Int('M2') == 1, z3.Int('ND') == 2], [z3.Int('N') == 2, z3.Int('M') == 2, z3.Int('M2') == 2, z3.Int('ND') == 3]]


class GetItemList(Contract):
    """RaggedArray.__getitem__ for a[lo:hi, cols] with a row slice and a column index array (list) `cols`, against the list of rows
    (row(t)[j] := _data[PS(t) + j]): the result has one row per selected row, each with len(cols) entries, and entry q of result row p is
    row(lo' + p)[cols[q]] (negative column indices count from the end of *that* row); IndexError exactly when some cols[q] lies outside
    some selected row."""
    key = F + 'RaggedArray.__getitem__'
    prune_paths = True

    def __init__(self, row_none=(True, True), exclude=(), int_column=False):
        # int_column: a[lo:hi, k] with one integer column k (the class turns it into the one-element list [k])
        self.rnone, self.exclude, self.int_column = tuple(row_none), set(exclude), int_column

    def params(self, e, st):
        import z3
        from pyvc.engine import Tup, Slice
        rlo, rhi = [None if isnone else z3.Int(nm) for nm, isnone in zip(('rs_start', 'rs_stop'), self.rnone)]
        second = z3.Int('col') if self.int_column else _arr(e, st, 'cols', 'K', list=True)
        return {'self': _ra_self(e, st), 'iis': Tup([Slice(rlo, rhi, None), second])}

    def cols_of(self, L, A):
        """(number of columns, q -> column index)"""
        second = A['iis'][1]
        if self.int_column:
            return 1, (lambda q: second)
        return L.len(second), (lambda q: second[q])

    def rows_of(self, L, A):
        first = A['iis'][0]
        n = L.len(A['self'].lengths)
        lo = 0 if first.start is None else L.ite(first.start < 0, first.start + n, first.start)
        hi = n if first.stop is None else L.ite(first.stop < 0, first.stop + n, first.stop)
        return L.max(hi - lo, 0), (lambda p: lo + p)

    def ghost(self, L, A):
        PS, ax = prefix_sums(L, A['self'].lengths, 'PSG')
        if L.sym:
            # arithmetic of the row-major pair numbering (lemmas/Sums.lean: pair_index_lt): 0 <= p < m, 0 <= q < k  =>  0 <= p*k + q < m*k
            m, k = self.rows_of(L, A)[0], self.cols_of(L, A)[0]
            ax = ax + [L.forall2((0, m), (0, k), lambda p, q: L.And(L.mul(p, k) + q >= 0, L.mul(p, k) + q < L.mul(m, k)))]
        return {'PS': PS}, ax

    def lemmas(self, L, A, G):
        if not L.sym:
            return []
        n, PS = L.len(A['self'].lengths), G['PS']
        return [dict(name='prefix-sums-below-total', lo=0, hi=n, down=True, P=lambda t: PS(t) <= PS(n)),
                dict(name='prefix-sums-nonneg', lo=0, hi=n, down=False, P=lambda t: PS(t) >= 0)]

    def requires(self, L, A, G):
        s = A['self']
        ln, n = s.lengths, L.len(s.lengths)
        first = A['iis'][0]
        m, row = self.rows_of(L, A)
        out = [('some-rows', n >= 1), ('lengths-positive', L.forall(0, n, lambda t: ln[t] >= 1)),
               ('flat-data-holds-all-rows', L.len(s._data) == G['PS'](n)), ('some-columns', self.cols_of(L, A)[0] >= 1)]
        if first.start is not None:
            out.append(('row-start-within-rows', L.And(first.start >= -n, first.start <= n)))
        if first.stop is not None:
            out.append(('row-stop-within-rows', L.And(first.stop >= -n, first.stop <= n)))
        out.append(('outside-known-finding-class:some-row-selected', m >= 1))
        return out

    def raises(self, L, A, G):
        ln = A['self'].lengths
        k, col = self.cols_of(L, A)
        m, row = self.rows_of(L, A)
        return {'IndexError': L.exists2((0, m), (0, k), lambda p, q: L.Or(col(q) < -ln[row(p)], col(q) >= ln[row(p)]))}

    def ensures(self, L, A, N, R, G, V):
        s = A['self']
        ln, data, PS = s.lengths, s._data, G['PS']
        k, col = self.cols_of(L, A)
        m, row = self.rows_of(L, A)
        cp = lambda p, q: L.ite(col(q) < 0, col(q) + ln[row(p)], col(q))
        return [('one-row-per-selected-row-each-with-one-entry-per-column', L.And(L.len(R.lengths) == m, L.forall(0, m, lambda p: R.lengths[p] == k))),
                ('data-holds-the-selected-cells', L.len(R._data) == L.mul(m, k)),
                ('entry-q-of-row-p-is-the-element-of-the-selected-row', L.forall2((0, m), (0, k), lambda p, q: R._data[L.mul(p, k) + q] == data[PS(row(p)) + cp(p, q)]),
                 (['cut:flat-result-reads-the-generated-cells', '_get_iis_from_list:row-major-product', '_get_iis_from_list:two-index-rows',
                   '_slice_to_list:first-row-as-python-slicing', '_slice_to_list:end-row-as-python-slicing', '_slice_to_list:same-step',
                   'pre:some-rows', 'pre:some-columns', 'pre:lengths-positive', 'pre:outside-known-finding-class:some-row-selected'] +
                  [x for x, isnone in zip(('pre:row-start-within-rows', 'pre:row-stop-within-rows'), self.rnone) if not isnone]) if L.sym else None)]

    @property
    def cuts(self):
        def after_read(L, V):
            # every cell of the flat result is the cell (row, column) the helper generated for that position
            iis = V['iis']          # the local `iis` now holds the helper's (2, M) array of (row, column) pairs
            s0 = V.old['self']
            data, ln, sd, PS = s0._data, s0.lengths, V['sliced_data'], V.ghost['PS']
            n = L.len(ln)
            rp = lambda t: norm_row(L, iis[0, t], n)
            cp = lambda t: L.ite(iis[1, t] < 0, iis[1, t] + ln[rp(t)], iis[1, t])
            return [dict(name='flat-result-reads-the-generated-cells',
                         fact=L.And(L.len(sd) == L.shape(iis, 1), L.forall(0, L.shape(iis, 1), lambda t: sd[t] == data[PS(rp(t)) + cp(t)])))]
        return {'sliced_data': after_read}

    def pins(self):
        import z3
        return [[z3.Int('N') == 2, z3.Int('K') == 1, z3.Int('ND') == 2], [z3.Int('N') == 2, z3.Int('K') == 2, z3.Int('ND') == 4]]


def registry_getitem_list(row_none=(True, True), exclude=(), int_column=False):
    il = IisFromList()
    il.range_as_array = ('first_dimension',)
    il.tuple_as_array = ('second_dimension',)
    cs = [GetItemList(row_none, exclude, int_column), HandleNegative(), ConvertFrom2d(arr2d=True), Starts(), RaggedInit(), il, SliceToList()]
    return {c.key: c for c in cs}


def registry_getitem(form='paired', start_none=False, stop_none=False, exclude=(), row_none=(True, True)):
    cs = [GetItem(form, start_none, stop_none, exclude, row_none), HandleNegative(), ConvertFrom2d(), Starts(), RaggedInit(), IisFromSlices(start_none, stop_none, True, exclude), IisFromList(), SliceToList()]
    return {c.key: c for c in cs}
