#!/bin/bash
# runs every claimed check once on the current tree (regenerates all evidence files); prints one line per property
cd "$(dirname "$0")/.."
for p in $(python3 -c "import json;print(' '.join(c['property_id'] for c in json.load(open('MANIFEST.json'))['checks']))"); do
  s=$(date +%s); ./check $p --tier ${1:-quick} > ${LOGDIR:-/tmp}/all_$p.log 2>&1; rc=$?
  echo "$p rc=$rc $(( $(date +%s) - s ))s $(grep -c '^VIOLATION' ${LOGDIR:-/tmp}/all_$p.log) violations"
done
