#!/usr/bin/env python3
"""Regenerates MANIFEST.json from the table below (edit the table, run, commit)."""
import json, os
ROOT = os.path.dirname(os.path.dirname(os.path.abspath(__file__)))
ids = [json.loads(l)['id'] for l in open(os.path.join(ROOT, 'properties.jsonl'))]
TECH = 'contract-based deductive verification: VCs generated from the real source by pyvc (ast -> z3), discharged for symbolic sizes; '
CLAIMS = {
 'C01': dict(level='proof', ref='DESIGN.md 4 C01',
   text='The state predicate of the statement (labels in range, reported distance = metric distance to the assigned centre, no reported centre strictly closer, every centre frame carries its own label at distance zero, reported centre = frame at its index) is an SMT-discharged postcondition, for symbolic data size / cluster count / metric, of k-centers (cold and warm start, four stopping-criteria configurations, with and without the triangle shortcut), of the k-medoids PAM update and sweep loop (random and arbitrary explicit proposals) and of k-hybrid; input arrays are frame obligations.',
   note='metric callable assumed to obey out[i]=d(X[i],y) with d finite, non-negative, d(x,x)=0 (compiled metrics: C13); distinct points; serial mode; floats as reals; estimator classes and kmedoids() input handling only bounded (run-time contracts); k-centers termination not proved; one listed finding (n_iters=0) excluded by witness class',
   tech=TECH + 'loop invariants, ghost history arrays, induction cuts, callee contracts lifted row-wise through masks; Lean lemma for cost monotonicity; run-time contracts on the real code as bounded side evidence and for counter-model replay'),
 'C02': dict(level='proof', ref='DESIGN.md 4 C02',
   text='Farthest-first choice (ghost arrays holding distance/label/radius at the moment each centre was chosen), non-increasing covering radius, exact stopping (not early by the loop guard, not late: every added centre was added above the cutoff and below n_clusters), first centre = frame 0 on a cold start, supplied centres kept on a warm start, and identical functional postcondition for the plain and the triangle-inequality branch are SMT-discharged for symbolic sizes; the factor-2 bound is a Lean lemma over those clauses.',
   note='metric symmetric with triangle inequality where the shortcut is used (the property\'s quantifier); distinct points; termination of the loop not proved; floats as reals',
   tech=TECH + 'ghost loop state (history), Lean 4 + Mathlib lemma (Gonzalez bound); bounded run-time contracts replaying the greedy history'),
 'C09': dict(level='proof', ref='DESIGN.md 4 C09',
   text='For the real _kmedoids_pam_update / _kmedoids_iterations / hybrid: cost (ghost MSQ = mean of squared distances) never increases, accept iff strictly lower with all state components replaced together, number of clusters fixed, every centre a frame of the input, consistent state preserved - for random proposals (nondeterministic member of the cluster, i.e. every seed) and arbitrary explicit proposal lists; hybrid hands the k-centers state over unchanged, so cost(hybrid) <= cost(k-centers).',
   note='serial mode (_msq = plain mean of squares, linked to the ghost by a definitional axiom); metric contract; distinct points; MSQ monotonicity is a Lean lemma; kmedoids()/estimator glue bounded only; finding n_iters=0 excluded by witness class',
   tech=TECH + 'loop invariants over the sweep and cluster loops, mid-function cut lemmas with local proofs; bounded run-time contracts over every proposal tuple of small data sets'),
 'C10': dict(level='proof', ref='DESIGN.md 4 C10',
   text='assign_to_nearest_center: minimal and exact distance, first minimiser, any centre list; find_cluster_centers: per label present a member of smallest distance; partition_list: piece t is the window [PS(t), PS(t)+L[t]) and the windows cover the list (prefix-sum ghost with induction lemmas), raising exactly when the lengths do not sum to the list length; partition_indices: exactly one (trajectory, frame) pair per index, in order, addressing the same frame - all SMT-discharged for symbolic sizes.',
   note='ClusterResult.partition, estimator.predict and batch reassignment are compositions checked by the bounded driver only; file/mdtraj I/O assumed; metric contract; np.where/np.unique/np.argmin primitive contracts',
   tech=TECH + 'nested-loop invariants, prefix-sum ghost + SMT induction lemmas; bounded run-time contracts for the compositions'),
 'C03': dict(level='other', ref='DESIGN.md 4 C03',
   text='Proved (SMT, symbolic length and lag, both modes incl. the non-linear strided case): the per-trajectory lagged slicing in _transitions_helper yields exactly the pairs (t*s, t*s+lag) inside the trajectory and their number. Bounded: assigns_to_counts against the statement itself (brute-force pair count; square shape; totals; ragged = padded = reordered; additivity) over an exhaustive small scope plus scale cases crossing 8/16-bit count ranges.',
   note='assigns_to_counts builds object arrays of per-row arrays, outside the executor\'s array model: run-time contract only; scipy coo_matrix duplicate summation trusted',
   tech=TECH + 'for the slicing helper; run-time contract (bounded stand-in) for the composition'),
 'C04': dict(level='other', ref='DESIGN.md 4 C04',
   text='The statement as a run-time contract on the real builders over the complete product {normalize, transpose, mle} x {ndarray + 7 sparse containers} x {no / scalar / asymmetric-array prior} x {populations on/off} on enumerated and seeded count matrices with 2-4 states. No deductive obligations yet.',
   note='bounded stand-in only (SciPy container algebra is not modelled); tolerances 1e-8..1e-12; Perron-Frobenius assumed',
   tech='contract-based: run-time contracts derived from the statement on the real functions (bounded stand-in; deductive obligations for the dense branches planned)'),
 'C07': dict(level='other', ref='DESIGN.md 4 C07',
   text='Lean lemmas: the first-step equations for committors and sink-set MFPTs follow from the point-wise linear system the code builds. Bounded: the statement (pins, range, first-step equations, all-pairs vs single-sink, lag linearity, dense = sparse, frames) as run-time contracts on the real functions over irreducible chains with 3-5 states and all small source/sink sets.',
   note='that the code builds exactly that system is only checked at run time in this round; linear solvers exact to 1e-8; maximum principle / Kemeny-Snell not proved',
   tech='Lean 4 lemmas over contract clauses + run-time contracts on the real code (bounded stand-in)'),
 'C08': dict(level='other', ref='DESIGN.md 4 C08',
   text='Lean lemma: net-flux conservation at intermediates from the flux definition, detailed balance and the committor equation. Bounded: flux formula with zero diagonal, net flux = positive part, one direction per pair, conservation, source/sink balance, reactive populations, for dense / csr / lil input.',
   note='bounded stand-in for the formulae in this round', tech='Lean 4 lemma over contract clauses + run-time contracts on the real code (bounded stand-in)'),
 'C11': dict(level='other', ref='DESIGN.md 4 C11',
   text='The statement as a run-time contract with an independent SCC computation: kept set is a heaviest strongly connected component w.r.t. the threshold, counts preserved / removed, order-preserving bijection, renumbered = in-place, dense = 7 sparse containers (+ duplicate-coordinate COO), container type kept, fitted model reports the mapping; all 3x3 matrices over {0,1,3} (strided) and seeded 4-5 state matrices.',
   note='bounded stand-in only in this round', tech='contract-based: run-time contract derived from the statement (bounded stand-in)'),
 'C12': dict(level='other', ref='DESIGN.md 4 C12',
   text='Run-time contracts on the pure-Python estimator, the compiled kernel and builders.mle: no internal assertion failure, Prinz self-consistency equations, likelihood >= transpose estimate and >= random reversible competitors with the same support, both implementations agree; enumerated and seeded strongly connected matrices with 2-4 states.',
   note='global optimality and convergence of the floating-point iteration are not decidable by this technique; bounded stand-in only in this round', tech='contract-based: run-time contracts (bounded stand-in)'),
 'C13': dict(level='proof', ref='DESIGN.md 4 C13',
   text='On the mechanically desugared libdist.pyx: every subscript in bounds (bounds checks are off in the binary), zeroing before accumulation, partial-sum loop invariants giving the three row norms, validation raises DataInvalid exactly on wrong rank / width / buffer type / length, wrappers return the (caller\'s) buffer - SMT-discharged for symbolic shapes; race-freedom of all six prange loops as syntactic DOALL obligations.',
   note='Cython fused-type dispatch, strided buffer access, thread-private loop scalars, C compiler, OpenMP and the DOALL theorem trusted; element arithmetic mathematical; the bounded sweep over dtype x layout x threads ties the desugared text to the compiled binary',
   tech=TECH + 'on desugared Cython; ghost partial sums; syntactic race obligations; run-time contracts on the compiled kernels as side evidence'),
 'C16': dict(level='other', ref='DESIGN.md 4 C16',
   text='Proved (SMT on the real MSM.__init__, fit, config): the constructor stores every argument, fit stores builder(trim?(assigns_to_counts(assigns, lag, states, sliding))) and the trim/identity mapping computed from the stored configuration. Bounded: save/load equality, spectrum clauses, implied timescales, n-step propagation.',
   note='the three pipeline functions are uninterpreted in the proof (what they compute is C03 / C11 / C04); disk formats and eigensolvers trusted; Perron-Frobenius assumed',
   tech=TECH + 'with opaque-object model for the pipeline; run-time contracts for spectrum and round trip'),
 'C20': dict(level='proof', ref='DESIGN.md 4 C20',
   text='All clauses (gates, exit test = not inside the widened basin with wrap-around, hysteresis recursion for every sequence length and buffer width, zero-buffer = binning, valid basin index; 1-D transition list sound/complete/increasing; 2-D one row per trajectory) are SMT-discharged obligations generated from the current rotamer.py / disorder.py for the three boundary sets the library uses.',
   note='floats as reals; angles avoid exact gate values (the property\'s quantifier); np.digitize/np.where/np.bincount/ra.where/RaggedArray(flat,lengths) primitive contracts trusted; per-row content of the 2-D result only bounded; one listed finding (all-constant 2-D input) excluded by witness class',
   tech=TECH + 'loop invariant S(t) ghost recursion; run-time contracts on the real code as bounded side evidence and counter-model replay'),
}
NA = {
 'C14': 'joint behaviour of N MPI ranks vs a different serial program: not expressible as per-function contracts; no libmpi in the sandbox (DESIGN.md section 9)',
}
checks = []
for i in ids:
    if i in CLAIMS:
        c = CLAIMS[i]
        checks.append({'property_id': i, 'quick_cmd': './check %s --tier quick' % i, 'thorough_cmd': './check %s --tier thorough' % i,
                       'evidence_file': 'evidence/%s.json' % i, 'replay_cmd_template': './check %s --replay {path}' % i, 'engine': 'pyvc',
                       'level_claimed': {'category': c['level'], 'text': c['text'], 'design_ref': c['ref']}, 'level_note': c['note'], 'technique': c['tech']})
na = [{'property_id': i, 'reason': NA.get(i, 'check not built yet in this session (work in progress, see DESIGN.md section 8)')} for i in ids if i not in CLAIMS]
m = {'version': 1,
     'setup_cmd': 'python3-vt -c "import z3" && /venv/bin/python -c "import numpy, scipy, Cython" && python3-vt -m compileall -q pyvc contracts props bounded',
     'hooks': {'guard': 'ENSPARA_VERIF', 'enable': 'no hooks in /repo: checks parse /repo\'s sources directly and build an overlay copy (rsync + cython + gcc) under /verif/.cache',
               'baseline_off_cmd': 'cd /repo && /venv/bin/python -m pytest -ra -q -p no:cacheprovider --timeout=900 --continue-on-collection-errors',
               'source_commits': [], 'add_only': True},
     'engines': [{'name': 'pyvc', 'path': 'pyvc/', 'serves_properties': sorted(CLAIMS), 'kind_free_text': 'own VC generator over Python ast (and desugared Cython) + z3; sidecar contracts in contracts/; bounded run-time-contract drivers in bounded/; Lean 4 lemmas in lemmas/'}],
     'checks': checks, 'not_applicable': na,
     'notes': 'exit codes: 0 held, 1 VIOLATION, 2 undecided, 3 checker fault. known_findings.jsonl lists fixed defects and open findings.'}
json.dump(m, open(os.path.join(ROOT, 'MANIFEST.json'), 'w'), indent=1)
print('claimed:', sorted(CLAIMS), 'n/a:', len(na))
