#!/usr/bin/env python3
"""Regenerates MANIFEST.json from the table below (edit the table, run, commit)."""
import json, os
ROOT = os.path.dirname(os.path.dirname(os.path.abspath(__file__)))
ids = [json.loads(l)['id'] for l in open(os.path.join(ROOT, 'properties.jsonl'))]
TECH = 'contract-based deductive verification: VCs generated from the real source by pyvc (ast -> z3), discharged for symbolic sizes; '
CLAIMS = {
 'C01': dict(level='proof', ref='DESIGN.md 4 C01',
   text='The state predicate of the statement (labels in range, reported distance = metric distance to the assigned centre, no reported centre strictly closer, every centre frame carries its own label at distance zero, reported centre = frame at its index) is an SMT-discharged postcondition, for symbolic data size / cluster count / metric, of k-centers (cold and warm start, four stopping-criteria configurations, with and without the triangle shortcut), of the k-medoids PAM update and sweep loop (random and arbitrary explicit proposals) and of k-hybrid; input arrays are frame obligations.',
   note='metric callable assumed to obey out[i]=d(X[i],y) with d finite, non-negative, d(x,x)=0 (compiled metrics: C13); distinct points; serial mode; floats as reals; estimator classes and kmedoids() input handling only bounded (run-time contracts); k-centers termination not proved; one listed finding (n_iters=0) excluded by witness class',
   tech=TECH + 'loop invariants, ghost history arrays, induction cuts, callee contracts lifted row-wise through masks; Lean lemma for cost monotonicity; run-time contracts on the real code as bounded side evidence and for counter-model replay'),
 'C02': dict(level='proof', ref='DESIGN.md 4 C02',
   text='Farthest-first choice (ghost arrays holding distance/label/radius at the moment each centre was chosen), non-increasing covering radius, exact stopping (not early by the loop guard, not late: every added centre was added above the cutoff and below n_clusters), first centre = frame 0 on a cold start, supplied centres kept on a warm start, and identical functional postcondition for the plain and the triangle-inequality branch are SMT-discharged for symbolic sizes; the factor-2 bound is a Lean lemma over those clauses.',
   note='metric symmetric with triangle inequality where the shortcut is used (the property\'s quantifier); distinct points; termination of the loop not proved; floats as reals',
   tech=TECH + 'ghost loop state (history), Lean 4 + Mathlib lemma (Gonzalez bound); bounded run-time contracts replaying the greedy history'),
 'C09': dict(level='proof', ref='DESIGN.md 4 C09',
   text='For the real _kmedoids_pam_update / _kmedoids_iterations / hybrid: cost (ghost MSQ = mean of squared distances) never increases, accept iff strictly lower with all state components replaced together, number of clusters fixed, every centre a frame of the input, consistent state preserved - for random proposals (nondeterministic member of the cluster, i.e. every seed) and arbitrary explicit proposal lists; hybrid hands the k-centers state over unchanged, so cost(hybrid) <= cost(k-centers).',
   note='serial mode (_msq = plain mean of squares, linked to the ghost by a definitional axiom); metric contract; distinct points; MSQ monotonicity is a Lean lemma; kmedoids()/estimator glue bounded only; finding n_iters=0 excluded by witness class',
   tech=TECH + 'loop invariants over the sweep and cluster loops, mid-function cut lemmas with local proofs; bounded run-time contracts over every proposal tuple of small data sets'),
 'C10': dict(level='proof', ref='DESIGN.md 4 C10',
   text='assign_to_nearest_center: minimal and exact distance, first minimiser, any centre list; find_cluster_centers: per label present a member of smallest distance; partition_list: piece t is the window [PS(t), PS(t)+L[t]) and the windows cover the list (prefix-sum ghost with induction lemmas), raising exactly when the lengths do not sum to the list length; partition_indices: exactly one (trajectory, frame) pair per index, in order, addressing the same frame - all SMT-discharged for symbolic sizes.',
   note='ClusterResult.partition, estimator.predict and batch reassignment are compositions checked by the bounded driver only; file/mdtraj I/O assumed; metric contract; np.where/np.unique/np.argmin primitive contracts',
   tech=TECH + 'nested-loop invariants, prefix-sum ghost + SMT induction lemmas; bounded run-time contracts for the compositions'),
 'C20': dict(level='proof', ref='DESIGN.md 4 C20',
   text='All clauses (gates, exit test = not inside the widened basin with wrap-around, hysteresis recursion for every sequence length and buffer width, zero-buffer = binning, valid basin index; 1-D transition list sound/complete/increasing; 2-D one row per trajectory) are SMT-discharged obligations generated from the current rotamer.py / disorder.py for the three boundary sets the library uses.',
   note='floats as reals; angles avoid exact gate values (the property\'s quantifier); np.digitize/np.where/np.bincount/ra.where/RaggedArray(flat,lengths) primitive contracts trusted; per-row content of the 2-D result only bounded; one listed finding (all-constant 2-D input) excluded by witness class',
   tech=TECH + 'loop invariant S(t) ghost recursion; run-time contracts on the real code as bounded side evidence and counter-model replay'),
}
NA = {
 'C14': 'joint behaviour of N MPI ranks vs a different serial program: not expressible as per-function contracts; no libmpi in the sandbox (DESIGN.md section 9)',
}
checks = []
for i in ids:
    if i in CLAIMS:
        c = CLAIMS[i]
        checks.append({'property_id': i, 'quick_cmd': './check %s --tier quick' % i, 'thorough_cmd': './check %s --tier thorough' % i,
                       'evidence_file': 'evidence/%s.json' % i, 'replay_cmd_template': './check %s --replay {path}' % i, 'engine': 'pyvc',
                       'level_claimed': {'category': c['level'], 'text': c['text'], 'design_ref': c['ref']}, 'level_note': c['note'], 'technique': c['tech']})
na = [{'property_id': i, 'reason': NA.get(i, 'check not built yet in this session (work in progress, see DESIGN.md section 8)')} for i in ids if i not in CLAIMS]
m = {'version': 1,
     'setup_cmd': 'python3-vt -c "import z3" && /venv/bin/python -c "import numpy, scipy, Cython" && python3-vt -m compileall -q pyvc contracts props bounded',
     'hooks': {'guard': 'ENSPARA_VERIF', 'enable': 'no hooks in /repo: checks parse /repo\'s sources directly and build an overlay copy (rsync + cython + gcc) under /verif/.cache',
               'baseline_off_cmd': 'cd /repo && /venv/bin/python -m pytest -ra -q -p no:cacheprovider --timeout=900 --continue-on-collection-errors',
               'source_commits': [], 'add_only': True},
     'engines': [{'name': 'pyvc', 'path': 'pyvc/', 'serves_properties': sorted(CLAIMS), 'kind_free_text': 'own VC generator over Python ast (and desugared Cython) + z3; sidecar contracts in contracts/; bounded run-time-contract drivers in bounded/; Lean 4 lemmas in lemmas/'}],
     'checks': checks, 'not_applicable': na,
     'notes': 'exit codes: 0 held, 1 VIOLATION, 2 undecided, 3 checker fault. known_findings.jsonl lists fixed defects and open findings.'}
json.dump(m, open(os.path.join(ROOT, 'MANIFEST.json'), 'w'), indent=1)
print('claimed:', sorted(CLAIMS), 'n/a:', len(na))
