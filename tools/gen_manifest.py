#!/usr/bin/env python3
"""Regenerates MANIFEST.json from the table below (edit the table, run, commit)."""
import json, os
ROOT = os.path.dirname(os.path.dirname(os.path.abspath(__file__)))
ids = [json.loads(l)['id'] for l in open(os.path.join(ROOT, 'properties.jsonl'))]
TECH = 'contract-based deductive verification: VCs generated from the real source by pyvc (ast -> z3), discharged for symbolic sizes; '
CLAIMS = {
 'C20': dict(level='proof', ref='DESIGN.md 4 C20',
   text='All clauses (gates, exit test = not inside the widened basin with wrap-around, hysteresis recursion for every sequence length and buffer width, zero-buffer = binning, valid basin index; 1-D transition list sound/complete/increasing; 2-D one row per trajectory) are SMT-discharged obligations generated from the current rotamer.py / disorder.py for the three boundary sets the library uses.',
   note='floats as reals; angles avoid exact gate values (the property\'s quantifier); np.digitize/np.where/np.bincount/ra.where/RaggedArray(flat,lengths) primitive contracts trusted; per-row content of the 2-D result only bounded; one listed finding (all-constant 2-D input) excluded by witness class',
   tech=TECH + 'loop invariant S(t) ghost recursion; run-time contracts on the real code as bounded side evidence and counter-model replay'),
}
NA = {
 'C14': 'joint behaviour of N MPI ranks vs a different serial program: not expressible as per-function contracts; no libmpi in the sandbox (DESIGN.md section 9)',
}
checks = []
for i in ids:
    if i in CLAIMS:
        c = CLAIMS[i]
        checks.append({'property_id': i, 'quick_cmd': './check %s --tier quick' % i, 'thorough_cmd': './check %s --tier thorough' % i,
                       'evidence_file': 'evidence/%s.json' % i, 'replay_cmd_template': './check %s --replay {path}' % i, 'engine': 'pyvc',
                       'level_claimed': {'category': c['level'], 'text': c['text'], 'design_ref': c['ref']}, 'level_note': c['note'], 'technique': c['tech']})
na = [{'property_id': i, 'reason': NA.get(i, 'check not built yet in this session (work in progress, see DESIGN.md section 8)')} for i in ids if i not in CLAIMS]
m = {'version': 1,
     'setup_cmd': 'python3-vt -c "import z3" && /venv/bin/python -c "import numpy, scipy, Cython" && python3-vt -m compileall -q pyvc contracts props bounded',
     'hooks': {'guard': 'ENSPARA_VERIF', 'enable': 'no hooks in /repo: checks parse /repo\'s sources directly and build an overlay copy (rsync + cython + gcc) under /verif/.cache',
               'baseline_off_cmd': 'cd /repo && /venv/bin/python -m pytest -ra -q -p no:cacheprovider --timeout=900 --continue-on-collection-errors',
               'source_commits': [], 'add_only': True},
     'engines': [{'name': 'pyvc', 'path': 'pyvc/', 'serves_properties': sorted(CLAIMS), 'kind_free_text': 'own VC generator over Python ast (and desugared Cython) + z3; sidecar contracts in contracts/; bounded run-time-contract drivers in bounded/; Lean 4 lemmas in lemmas/'}],
     'checks': checks, 'not_applicable': na,
     'notes': 'exit codes: 0 held, 1 VIOLATION, 2 undecided, 3 checker fault. known_findings.jsonl lists fixed defects and open findings.'}
json.dump(m, open(os.path.join(ROOT, 'MANIFEST.json'), 'w'), indent=1)
print('claimed:', sorted(CLAIMS), 'n/a:', len(na))
