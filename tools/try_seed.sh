#!/bin/bash
# tools/try_seed.sh <Cxx> <patch.diff> [tier]   -- apply a seeded change to /repo, run the check, undo it
set -u
P=$1; D=$2; T=${3:-quick}
cd /repo || exit 9
if ! git diff --quiet; then echo "/repo has uncommitted changes"; exit 9; fi
git apply "$D" || { echo "patch does not apply"; exit 9; }
cd /verif; cp evidence/$P.json /tmp/ev_$P.$$ 2>/dev/null; ./check "$P" --tier "$T" > /tmp/seed_out.$$ 2>&1; rc=$?; [ -f /tmp/ev_$P.$$ ] && mv /tmp/ev_$P.$$ evidence/$P.json
git -C /repo checkout -- .
grep -E "^(VIOLATION|UNDECIDED|CHECKER-FAULT|KNOWN-FINDING|C[0-9]+:)" /tmp/seed_out.$$ | cut -c1-400 | head -12
rm -f /tmp/seed_out.$$
echo "rc=$rc"
