#!/bin/bash
# tools/verify_seed.sh <name> <patch.diff> <demo.py>  -- confirm a seeded change in a scratch worktree of /repo HEAD:
#   applies, builds, demo fails with it, baseline tests pass with it, demo passes without it.
set -u
N=$1; PATCH=$(readlink -f "$2"); DEMO=$(readlink -f "$3")
W=/tmp/wt/verify-$N; C=/tmp/wt/vcache-$N
rm -rf "$W" "$C"; git -C /repo worktree prune
git -C /repo worktree add -q --detach "$W" HEAD || exit 9
cd "$W"
res() { echo "RESULT $N: $*"; }
cleanup() { cd /; git -C /repo worktree remove --force "$W" 2>/dev/null; rm -rf "$C" "$W"; }
git apply "$PATCH" || { res "patch-does-not-apply"; cleanup; exit 1; }
OV=$(VERIF_CACHE=$C python3 /verif/pyvc/overlay.py "$W" 2>/dev/null) || { res "build-failed"; cleanup; exit 1; }
PYTHONPATH=$OV timeout 600 /venv/bin/python "$DEMO" >/dev/null 2>&1; d1=$?
find "$OV" -name "*.so" | while read so; do cp "$so" "$W/${so#$OV/}"; done
T=$(timeout 1500 /venv/bin/python -m pytest -q -p no:cacheprovider --timeout=900 --continue-on-collection-errors enspara/test/test_ra.py enspara/test/test_rotamer.py enspara/test/test_tpt_fluxes.py 2>&1 | tail -1)
git checkout -q -- . ; find . -name "*.so" -delete
OV2=$(VERIF_CACHE=$C python3 /verif/pyvc/overlay.py "$W" 2>/dev/null)
PYTHONPATH=$OV2 timeout 600 /venv/bin/python "$DEMO" >/dev/null 2>&1; d0=$?
res "demo_with_change_rc=$d1 demo_clean_rc=$d0 tests=[$T]"
cleanup
