#!/bin/bash
# tools/regress_seeds.sh [filter]  -- re-runs every kept seeded change against the check that is recorded as catching it
# (apply to /repo, ./check, undo); prints one line per seed.  Nothing may edit /repo or run checks meanwhile.
cd "$(dirname "$0")/.."
for d in seeded/*/; do
  s=$(basename $d)
  case "$s" in *${1:-}*) ;; *) continue;; esac
  [ -f $d/patch.diff ] || continue
  p=$(python3 -c "import json;m=json.load(open('$d/meta.json'));print(m.get('detected_by') or m['property'])")
  out=$(tools/try_seed.sh $p $PWD/$d/patch.diff 2>&1 | grep -v '^KNOWN')
  rc=$(echo "$out" | grep -o 'rc=[0-9]*' | tail -1)
  nv=$(echo "$out" | grep -c '^VIOLATION')
  echo "$s check=$p $rc violations=$nv $(echo "$out" | grep -E '^(UNDECIDED|CHECKER-FAULT)' | head -1 | cut -c1-120)"
done
echo ALLDONE
