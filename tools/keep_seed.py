#!/usr/bin/env python3
"""tools/keep_seed.py <Cxx> <letter> <patch.diff> <demo.py> [agent_meta.json]
Confirms the seeded change in a scratch worktree (tools/verify_seed.sh), runs the property's check against it
(tools/try_seed.sh: apply to /repo, check, undo) and stores it under seeded/<Cxx>-<letter>/."""
import sys, os, json, subprocess, shutil
prop, letter, patch, demo = sys.argv[1:5]
meta_in = json.load(open(sys.argv[5])) if len(sys.argv) > 5 and os.path.exists(sys.argv[5]) else {}
name = '%s-%s' % (prop, letter)
v = subprocess.run(['/verif/tools/verify_seed.sh', name.replace('-', ''), patch, demo], capture_output=True, text=True).stdout.strip().splitlines()[-1]
ok = 'demo_clean_rc=0' in v and 'demo_with_change_rc=0' not in v and '47 passed' in v
print(v)
if not ok:
    print('NOT KEPT: confirmation failed'); sys.exit(1)
c = subprocess.run(['/verif/tools/try_seed.sh', prop, patch], capture_output=True, text=True).stdout
print(c)
d = os.path.join('/verif/seeded', name)
os.makedirs(d, exist_ok=True)
shutil.copy(patch, os.path.join(d, 'patch.diff'))
shutil.copy(demo, os.path.join(d, 'demo.py'))
lines = [l for l in c.splitlines() if l.startswith(('VIOLATION', 'UNDECIDED', 'CHECKER-FAULT', 'rc=', '  '))]
meta = {'property': prop, 'summary': meta_in.get('summary'), 'needs': meta_in.get('needs'), 'files': meta_in.get('files'),
        'origin': 'independent sub-agent given only the property text and a scratch worktree',
        'confirmed': v, 'ran': ['tools/verify_seed.sh (scratch worktree of /repo HEAD: apply, build overlay, demo fails, 47 baseline tests pass, revert, demo passes)',
                                'tools/try_seed.sh %s patch.diff (git apply to /repo, ./check %s --tier quick, git checkout)' % (prop, prop)],
        'check_result': lines[:8], 'detected': any(l.startswith('VIOLATION') for l in lines) and 'rc=1' in c}
json.dump(meta, open(os.path.join(d, 'meta.json'), 'w'), indent=1)
print('kept', d, 'detected =', meta['detected'])
