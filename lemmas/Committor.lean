import Mathlib.Algebra.BigOperators.Field
import Mathlib.Algebra.BigOperators.Ring.Finset
import Mathlib.Data.Real.Basic
import Mathlib.Data.Fintype.BigOperators
import Mathlib.Tactic

open Finset

/-- C07: from the point-wise contract of `_I_m_Q` and `R` and an exact solve, the
summed-and-pinned solution satisfies the committor first-step equations. -/
theorem committor_first_step {n m : ℕ} (T : Fin n → Fin n → ℝ)
    (src snk : Finset (Fin n)) (hdisj : Disjoint src snk)
    (sk : Fin m → Fin n) (hinj : Function.Injective sk) (himg : ∀ j, j ∈ snk ↔ ∃ c, sk c = j)
    (A : Fin n → Fin n → ℝ) (R B : Fin n → Fin m → ℝ)
    (hA : ∀ i j, A i j = if (i ∈ src ∪ snk) ∨ (j ∈ src ∪ snk) then (if i = j ∧ i ∈ src ∪ snk then 1 else 0)
                          else ((if i = j then 1 else 0) - T i j))
    (hR : ∀ i c, R i c = if i ∈ snk then 1 else if i ∈ src then 0 else T i (sk c))
    (hsolve : ∀ i c, ∑ j, A i j * B j c = R i c)
    (q : Fin n → ℝ) (hq : ∀ i, q i = if i ∈ snk then 1 else ∑ c, B i c) :
    (∀ i ∈ src, q i = 0) ∧ (∀ i ∈ snk, q i = 1) ∧
    (∀ i, i ∉ src ∪ snk → q i = ∑ j, T i j * q j) := by
  -- absorbing rows of the system are unit rows
  have habs : ∀ a ∈ src ∪ snk, ∀ c, B a c = R a c := by
    intro a ha c
    rw [← hsolve a c]
    have : ∀ j, A a j * B j c = if j = a then B a c else 0 := by
      intro j
      rw [hA a j]
      by_cases hja : j = a
      · subst hja; simp [ha]
      · have : ¬ a = j := fun h => hja h.symm
        simp [ha, this, hja]
    simp_rw [this]
    simp
  refine ⟨?_, ?_, ?_⟩
  · intro i hi
    have hns : i ∉ snk := fun h => (Finset.disjoint_left.mp hdisj hi) h
    rw [hq i, if_neg hns]
    apply Finset.sum_eq_zero
    intro c _
    rw [habs i (Finset.mem_union_left _ hi) c, hR i c, if_neg hns, if_pos hi]
  · intro i hi
    rw [hq i, if_pos hi]
  · intro i hi
    have hisrc : i ∉ src := fun h => hi (Finset.mem_union_left _ h)
    have hisnk : i ∉ snk := fun h => hi (Finset.mem_union_right _ h)
    -- transient row: B i c = T i (sk c) + Σ_{j transient} T i j * B j c
    have hrow : ∀ c, B i c = T i (sk c) + ∑ j, (if j ∈ src ∪ snk then 0 else T i j * B j c) := by
      intro c
      have h := hsolve i c
      rw [hR i c, if_neg hisnk, if_neg hisrc] at h
      have : ∀ j, A i j * B j c = (if j = i then B i c else 0) - (if j ∈ src ∪ snk then 0 else T i j * B j c) := by
        intro j
        rw [hA i j]
        by_cases hj : j ∈ src ∪ snk
        · have hne : ¬ j = i := fun h => hi (h ▸ hj)
          have hne' : ¬ i = j := fun h => hne h.symm
          simp [hj, hne, hne', hi]
        · by_cases hji : j = i
          · subst hji; simp [hj]; ring
          · have : ¬ i = j := fun h => hji h.symm
            simp [hj, hi, hji, this]
      simp_rw [this] at h
      rw [Finset.sum_sub_distrib] at h
      simp only [Finset.sum_ite_eq', Finset.mem_univ, if_true] at h
      linarith
    -- q on sources is 0, on sinks 1
    have hqsrc : ∀ j ∈ src, q j = 0 := by
      intro j hj
      have hns : j ∉ snk := fun h => (Finset.disjoint_left.mp hdisj hj) h
      rw [hq j, if_neg hns]
      apply Finset.sum_eq_zero
      intro c _
      rw [habs j (Finset.mem_union_left _ hj) c, hR j c, if_neg hns, if_pos hj]
    -- sum over sink columns = sum over the sink set (sk is a bijection onto snk)
    have hcols : ∑ c, T i (sk c) = ∑ j ∈ snk, T i j := by
      have himage : snk = Finset.image sk Finset.univ := by
        ext j; simp [himg j]
      rw [himage, Finset.sum_image]
      intro a _ b _ hab; exact hinj hab
    rw [hq i, if_neg hisnk]
    simp_rw [hrow]
    rw [Finset.sum_add_distrib, hcols, Finset.sum_comm]
    -- split Σ_j T i j * q j by the class of j
    have hsplit : ∀ j, T i j * q j = (if j ∈ snk then T i j else 0) + ∑ c, (if j ∈ src ∪ snk then 0 else T i j * B j c) := by
      intro j
      by_cases hjs : j ∈ snk
      · have : j ∈ src ∪ snk := Finset.mem_union_right _ hjs
        simp [hq j, hjs, this]
      · by_cases hjr : j ∈ src
        · have : j ∈ src ∪ snk := Finset.mem_union_left _ hjr
          simp [hqsrc j hjr, hjs, this]
        · have : j ∉ src ∪ snk := by simp [hjs, hjr]
          simp [hq j, hjs, this, Finset.mul_sum]
    simp_rw [hsplit]
    rw [Finset.sum_add_distrib, Finset.sum_ite_mem Finset.univ snk (fun j => T i j)]
    simp
