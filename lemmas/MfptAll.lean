import Mathlib

/-! All-pairs mean first passage times from the fundamental matrix (Kemeny & Snell), the algebra behind
`enspara.tpt.core.mfpts(tprob)` without sinks:

  W[i,j] = π_j,  Z = (I - T + W)⁻¹,  m[i,j] = (Z[j,j] - Z[i,j]) / π_j   (in units of the lag time).

Given: T row-stochastic, π stationary (π T = π) with Σ π = 1 and π_j ≠ 0, and (I - T + W) Z = I
(the contract of `np.linalg.inv`).  Then m[j,j] = 0 and for i ≠ j the first-step equation holds:
  m[i,j] = 1 + Σ_k T[i,k] m[k,j].
-/

open Matrix Finset

variable {n : Type*} [Fintype n] [DecidableEq n]

theorem mfpt_all_pairs_first_step
    (T Z : Matrix n n ℝ) (π : n → ℝ)
    (hrow : ∀ i, ∑ k, T i k = 1)
    (hstat : ∀ j, ∑ i, π i * T i j = π j)
    (hsum : ∑ i, π i = 1)
    (hR : (1 - T + Matrix.of (fun _ j => π j)) * Z = 1)
    (i j : n) (hπ : π j ≠ 0) (hij : i ≠ j) :
    (Z j j - Z i j) / π j = 1 + ∑ k, T i k * ((Z j j - Z k j) / π j) := by
  classical
  set W : Matrix n n ℝ := Matrix.of (fun _ j => π j) with hW
  -- π Z = π : from π (I - T + W) = π and Z being a right inverse
  have hπA : ∀ j, ∑ a, π a * (1 - T + W) a j = π j := by
    intro j
    have : ∀ a, π a * (1 - T + W) a j = π a * (1 : Matrix n n ℝ) a j - π a * T a j + π a * π j := by
      intro a; simp [hW, Matrix.add_apply, Matrix.sub_apply]; ring
    simp_rw [this, Finset.sum_add_distrib, Finset.sum_sub_distrib]
    rw [hstat j, ← Finset.sum_mul, hsum]
    simp [Matrix.one_apply]
  have hπZ : ∀ j, ∑ a, π a * Z a j = π j := by
    intro j
    -- π Z = (π (I-T+W)) Z = π ((I-T+W) Z) = π
    have h1 : ∑ a, π a * Z a j = ∑ a, (∑ b, π b * (1 - T + W) b a) * Z a j := by
      simp_rw [hπA]
    have h2 : ∑ a, (∑ b, π b * (1 - T + W) b a) * Z a j = ∑ b, π b * ∑ a, (1 - T + W) b a * Z a j := by
      simp_rw [Finset.sum_mul, Finset.mul_sum]
      rw [Finset.sum_comm]
      apply Finset.sum_congr rfl; intro b _
      apply Finset.sum_congr rfl; intro a _
      ring
    have h3 : ∀ b, ∑ a, (1 - T + W) b a * Z a j = (1 : Matrix n n ℝ) b j := by
      intro b
      have := congrFun (congrFun hR b) j
      simpa [Matrix.mul_apply] using this
    rw [h1, h2]
    simp_rw [h3]
    simp [Matrix.one_apply]
  -- entry (i, j) of (I - T + W) Z = I
  have hE : Z i j - ∑ k, T i k * Z k j + π j = (1 : Matrix n n ℝ) i j := by
    have := congrFun (congrFun hR i) j
    simp only [Matrix.mul_apply] at this
    have e : ∀ a, (1 - T + W) i a * Z a j = (1 : Matrix n n ℝ) i a * Z a j - T i a * Z a j + π a * Z a j := by
      intro a; simp [hW, Matrix.add_apply, Matrix.sub_apply]; ring
    simp_rw [e, Finset.sum_add_distrib, Finset.sum_sub_distrib] at this
    rw [hπZ j] at this
    simpa [Matrix.one_apply] using this
  have hne : (1 : Matrix n n ℝ) i j = 0 := by simp [hij]
  rw [hne] at hE
  -- assemble
  have hsumT : ∑ k, T i k * ((Z j j - Z k j) / π j) = (Z j j - ∑ k, T i k * Z k j) / π j := by
    have : ∀ k, T i k * ((Z j j - Z k j) / π j) = (T i k * Z j j - T i k * Z k j) / π j := by
      intro k; ring
    simp_rw [this, ← Finset.sum_div, Finset.sum_sub_distrib, ← Finset.sum_mul, hrow i]
    ring
  rw [hsumT]
  field_simp
  linarith

theorem mfpt_all_pairs_diagonal (Z : Matrix n n ℝ) (π : n → ℝ) (j : n) : (Z j j - Z j j) / π j = 0 := by simp
