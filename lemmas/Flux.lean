import Mathlib.Algebra.BigOperators.Field
import Mathlib.Algebra.Order.BigOperators.Group.Finset
import Mathlib.Data.Real.Basic
import Mathlib.Data.Fintype.BigOperators
import Mathlib.Tactic

open Finset

/-- C04: transpose builder. S symmetric with positive row sums; T = S / rowsum, π = rowsum / total. -/
theorem transpose_builder {n : ℕ} (S : Fin n → Fin n → ℝ) (hS : ∀ i j, S i j = S j i)
    (hpos : ∀ i, 0 < ∑ j, S i j) (htot : 0 < ∑ i, ∑ j, S i j) :
    (∀ i, ∑ j, S i j / (∑ k, S i k) = 1) ∧
    (∀ i j, ((∑ k, S i k) / (∑ a, ∑ b, S a b)) * (S i j / (∑ k, S i k))
          = ((∑ k, S j k) / (∑ a, ∑ b, S a b)) * (S j i / (∑ k, S j k))) ∧
    (∀ j, ∑ i, ((∑ k, S i k) / (∑ a, ∑ b, S a b)) * (S i j / (∑ k, S i k))
          = (∑ k, S j k) / (∑ a, ∑ b, S a b)) := by
  refine ⟨?_, ?_, ?_⟩
  · intro i
    rw [← Finset.sum_div]
    exact div_self (ne_of_gt (hpos i))
  · intro i j
    have hi := ne_of_gt (hpos i); have hj := ne_of_gt (hpos j)
    rw [hS j i]; field_simp
  · intro j
    have h : ∀ i, ((∑ k, S i k) / (∑ a, ∑ b, S a b)) * (S i j / (∑ k, S i k)) = S j i / (∑ a, ∑ b, S a b) := by
      intro i
      have hi := ne_of_gt (hpos i)
      rw [hS j i]; field_simp
    simp_rw [h]
    rw [← Finset.sum_div]

/-- C08: net reactive flux is conserved at every intermediate state of a reversible chain. -/
theorem net_flux_conserved {n : ℕ} (T : Fin n → Fin n → ℝ) (pi q : Fin n → ℝ)
    (hrow : ∀ i, ∑ j, T i j = 1)
    (hdb : ∀ i j, pi i * T i j = pi j * T j i)
    (f net : Fin n → Fin n → ℝ)
    (hf : ∀ i j, f i j = if i = j then 0 else pi i * (1 - q i) * T i j * q j)
    (hnet : ∀ i j, net i j = max (f i j - f j i) 0)
    (i : Fin n) (hq : q i = ∑ j, T i j * q j) :
    ∑ j, net i j = ∑ j, net j i := by
  have hdiff : ∀ j, net i j - net j i = pi i * T i j * (q j - q i) := by
    intro j
    rw [hnet i j, hnet j i]
    have hm : max (f i j - f j i) 0 - max (f j i - f i j) 0 = f i j - f j i := by
      rcases le_total (f i j - f j i) 0 with h | h
      · rw [max_eq_right h, max_eq_left (by linarith)]; ring
      · rw [max_eq_left h, max_eq_right (by linarith)]; ring
    rw [hm, hf i j, hf j i]
    by_cases hij : i = j
    · subst hij; simp
    · have hji : ¬ j = i := fun h => hij h.symm
      simp only [hij, hji, if_false]
      have := hdb i j
      calc pi i * (1 - q i) * T i j * q j - pi j * (1 - q j) * T j i * q i
          = (pi i * T i j) * ((1 - q i) * q j) - (pi j * T j i) * ((1 - q j) * q i) := by ring
        _ = (pi i * T i j) * ((1 - q i) * q j) - (pi i * T i j) * ((1 - q j) * q i) := by rw [this]
        _ = pi i * T i j * (q j - q i) := by ring
  have hsum : ∑ j, (net i j - net j i) = 0 := by
    simp_rw [hdiff]
    have : ∀ j, pi i * T i j * (q j - q i) = pi i * (T i j * q j) - pi i * q i * T i j := by intro j; ring
    simp_rw [this]
    rw [Finset.sum_sub_distrib, ← Finset.mul_sum, ← Finset.mul_sum, hrow i, ← hq]; ring
  rw [Finset.sum_sub_distrib] at hsum
  linarith
