import Mathlib.Algebra.BigOperators.Field
import Mathlib.Algebra.Order.BigOperators.Ring.Finset
import Mathlib.Data.Real.Basic
import Mathlib.Tactic

/-- Lemma used by the C01/C09 contracts (axiom `MSQ monotone` of contracts/kmedoids.py):
the mean of squares is monotone on point-wise ordered non-negative arrays. -/
theorem msq_monotone (n : ℕ) (a b : Fin n → ℝ)
    (h : ∀ i, 0 ≤ a i ∧ a i ≤ b i) :
    (∑ i, (a i) ^ 2) / (n : ℝ) ≤ (∑ i, (b i) ^ 2) / (n : ℝ) := by
  apply div_le_div_of_nonneg_right _ (Nat.cast_nonneg n)
  apply Finset.sum_le_sum
  intro i _
  exact pow_le_pow_left₀ (h i).1 (h i).2 2
