import Mathlib.Algebra.BigOperators.Field
import Mathlib.Data.Real.Basic
import Mathlib.Tactic

open Finset

/-- Lemma over the C04 contract clauses of `builders.transpose`
(`symmetrised-with-prior-first`, `probabilities-are-row-normalised-symmetrised-counts`,
`populations-are-symmetric-row-totals-over-total`): for a symmetric matrix `S` with positive row totals,
`T = S / rowsum` is row-stochastic, satisfies detailed balance with `π = rowsum / total`, and `π` is stationary. -/
theorem transpose_builder {n : ℕ} (S : Fin n → Fin n → ℝ)
    (hsym : ∀ i j, S i j = S j i)
    (w : Fin n → ℝ) (hw : ∀ i, w i = ∑ j, S i j) (hpos : ∀ i, 0 < w i)
    (tot : ℝ) (_htot : tot = ∑ i, w i) (htpos : 0 < tot)
    (T : Fin n → Fin n → ℝ) (hT : ∀ i j, T i j = S i j * (1 / w i))
    (p : Fin n → ℝ) (hp : ∀ i, p i = w i / tot) :
    (∀ i, ∑ j, T i j = 1) ∧ (∀ i j, p i * T i j = p j * T j i) ∧ (∀ j, ∑ i, p i * T i j = p j) := by
  have hbal : ∀ i j, p i * T i j = S i j / tot := by
    intro i j
    rw [hp, hT]
    have := (hpos i).ne'
    field_simp
  refine ⟨?_, ?_, ?_⟩
  · intro i
    simp_rw [hT]
    rw [← Finset.sum_mul, ← hw]
    have := (hpos i).ne'
    field_simp
  · intro i j
    rw [hbal, hbal, hsym]
  · intro j
    simp_rw [hbal]
    rw [← Finset.sum_div]
    have : ∑ i, S i j = w j := by
      rw [hw]
      exact Finset.sum_congr rfl (fun i _ => hsym i j)
    rw [this, hp]
