import Mathlib.Data.Fintype.Card
import Mathlib.Data.Fintype.Pigeonhole
import Mathlib.Data.Real.Basic
import Mathlib.Tactic

/-- Lemma over the C02 contract clauses: if k+1 frames are pairwise at distance ≥ R
(farthest-first postcondition + monotone radius), then for ANY choice of k centres some
frame is at distance ≥ R/2 from every centre, i.e. every k-clustering has radius ≥ R/2. -/
theorem gonzalez_lower_bound {α : Type} (d : α → α → ℝ)
    (hsymm : ∀ x y, d x y = d y x)
    (htri : ∀ x y z, d x z ≤ d x y + d y z)
    (k : ℕ) (R : ℝ) (c : Fin (k + 1) → α)
    (hsep : ∀ i j, i ≠ j → R ≤ d (c i) (c j))
    (p : Fin k → α) :
    ∃ i, ∀ j, R / 2 ≤ d (c i) (p j) := by
  by_contra h
  push Not at h
  choose f hf using h
  have hcard : Fintype.card (Fin k) < Fintype.card (Fin (k + 1)) := by simp
  obtain ⟨i, i', hne, heq⟩ := Fintype.exists_ne_map_eq_of_card_lt f hcard
  have h1 := hf i
  have h2 := hf i'
  rw [← heq] at h2
  have h3 := htri (c i) (p (f i)) (c i')
  have h4 := hsep i i' hne
  rw [hsymm (p (f i)) (c i')] at h3
  linarith
