import Mathlib

/-! Facts about finite sums that the contracts use as ghost axioms / trusted primitive facts.

* `entry_le_row_total`   : a row total of non-negative entries is at least each entry
                           (ghost axiom of contracts/prinz.py).
* `prefix_mono`, `prefix_le_total`, `block_exists`
                         : prefix sums of non-negative block widths are monotone, bounded by the
                           total, and every position below the total lies in exactly one block
                           (trusted facts of `concat_blocks` / `np.hstack` in pyvc/prims.py).
-/

open Finset

theorem entry_le_row_total {n : ℕ} (C : Fin n → Fin n → ℝ) (h : ∀ i j, 0 ≤ C i j) (i j : Fin n) :
    C i j ≤ ∑ k, C i k :=
  Finset.single_le_sum (fun k _ => h i k) (Finset.mem_univ j)

/-- prefix sum of the first `c` widths -/
def PS (w : ℕ → ℕ) (c : ℕ) : ℕ := ∑ k ∈ range c, w k

theorem PS_zero (w : ℕ → ℕ) : PS w 0 = 0 := by simp [PS]

theorem PS_succ (w : ℕ → ℕ) (c : ℕ) : PS w (c + 1) = PS w c + w c := by
  simp [PS, Finset.sum_range_succ]

theorem prefix_mono (w : ℕ → ℕ) {a b : ℕ} (h : a ≤ b) : PS w a ≤ PS w b := by
  unfold PS
  exact Finset.sum_le_sum_of_subset (Finset.range_mono h)

theorem prefix_le_total (w : ℕ → ℕ) (n c : ℕ) (h : c ≤ n) : PS w c ≤ PS w n := prefix_mono w h

theorem block_exists (w : ℕ → ℕ) (n t : ℕ) (h : t < PS w n) :
    ∃ c, c < n ∧ PS w c ≤ t ∧ t < PS w (c + 1) := by
  induction n with
  | zero => simp [PS] at h
  | succ m ih =>
    by_cases hm : t < PS w m
    · obtain ⟨c, hc, h1, h2⟩ := ih hm
      exact ⟨c, Nat.lt_succ_of_lt hc, h1, h2⟩
    · exact ⟨m, Nat.lt_succ_self m, Nat.le_of_not_lt hm, h⟩

/-! Row-major numbering of the pairs (p, q), p < m, q < k, as used by `_get_iis_from_list` (np.array(list(product(rows, cols))).T)
and by the contracts of `RaggedArray.__getitem__` for `a[lo:hi, cols]` (ghost axioms of contracts/ra_index.py):

* `pair_index_lt`        : the position p*k + q of a pair lies below m*k;
* `pair_index_decompose` : every position t is the pair (t / k, t % k), with t % k < k;
* `pair_index_row_lt`    : and t / k < m for t < m*k.
-/

theorem pair_index_lt (m k p q : ℕ) (hp : p < m) (hq : q < k) : p * k + q < m * k := by
  calc p * k + q < p * k + k := Nat.add_lt_add_left hq (p * k)
    _ = (p + 1) * k := by ring
    _ ≤ m * k := Nat.mul_le_mul_right k hp

theorem pair_index_decompose (k t : ℕ) (hk : 0 < k) : t = (t / k) * k + t % k ∧ t % k < k := by
  refine ⟨?_, Nat.mod_lt t hk⟩
  have h := Nat.div_add_mod t k
  rw [Nat.mul_comm] at h
  exact h.symm

theorem pair_index_row_lt (m k t : ℕ) (ht : t < m * k) : t / k < m := by
  apply Nat.div_lt_of_lt_mul
  rw [Nat.mul_comm]
  exact ht
