import Mathlib.Algebra.BigOperators.Field
import Mathlib.Algebra.BigOperators.Ring.Finset
import Mathlib.Data.Real.Basic
import Mathlib.Data.Fintype.BigOperators
import Mathlib.Tactic
open Finset
/-- C07: sink-set MFPT. A = masked I - T (sinks absorbing), rhs c = lag-free indicator of non-sinks,
    t = lag * x with A x = c  ⇒  t = 0 on sinks and t_i = lag + Σ_j T_ij t_j elsewhere. -/
theorem mfpt_first_step {n : ℕ} (T : Fin n → Fin n → ℝ) (snk : Finset (Fin n))
    (A : Fin n → Fin n → ℝ) (x cvec t : Fin n → ℝ) (lag : ℝ)
    (hA : ∀ i j, A i j = if (i ∈ snk) ∨ (j ∈ snk) then (if i = j ∧ i ∈ snk then 1 else 0)
                          else ((if i = j then 1 else 0) - T i j))
    (hc : ∀ i, cvec i = if i ∈ snk then 0 else 1)
    (hsolve : ∀ i, ∑ j, A i j * x j = cvec i)
    (ht : ∀ i, t i = lag * x i) :
    (∀ i ∈ snk, t i = 0) ∧ (∀ i, i ∉ snk → t i = lag + ∑ j, T i j * t j) := by
  have hsnk : ∀ a ∈ snk, x a = 0 := by
    intro a ha
    have h := hsolve a
    rw [hc a, if_pos ha] at h
    have : ∀ j, A a j * x j = if j = a then x a else 0 := by
      intro j; rw [hA a j]
      by_cases hja : j = a
      · subst hja; simp [ha]
      · have : ¬ a = j := fun h => hja h.symm
        simp [ha, this, hja]
    simp_rw [this] at h
    simpa using h
  refine ⟨fun i hi => by rw [ht i, hsnk i hi]; ring, ?_⟩
  intro i hi
  have h := hsolve i
  rw [hc i, if_neg hi] at h
  have hterm : ∀ j, A i j * x j = (if j = i then x i else 0) - T i j * x j := by
    intro j; rw [hA i j]
    by_cases hj : j ∈ snk
    · have hne : ¬ j = i := fun h => hi (h ▸ hj)
      have hne' : ¬ i = j := fun h => hne h.symm
      simp [hj, hne, hne', hi, hsnk j hj]
    · by_cases hji : j = i
      · subst hji; simp [hj]; ring
      · have : ¬ i = j := fun h => hji h.symm
        simp [hj, hi, hji, this]
  simp_rw [hterm] at h
  rw [Finset.sum_sub_distrib] at h
  simp only [Finset.sum_ite_eq', Finset.mem_univ, if_true] at h
  rw [ht i]
  have : ∑ j, T i j * t j = lag * ∑ j, T i j * x j := by
    rw [Finset.mul_sum]; apply Finset.sum_congr rfl; intro j _; rw [ht j]; ring
  rw [this]
  have hx : x i = 1 + ∑ j, T i j * x j := by linarith
  rw [hx]; ring
